//! C10 Trust anchors are bound to their TAL key.
//!
//! One TAL with 1–3 URIs (https through the in-harness HTTPS server, rsync through the fake rsync),
//! 2–3 consecutive runs of the real engine over a persistent cache. Per URI and run the server
//! offers: the matching certificate, a self-signed certificate for another key, undecodable bytes,
//! an expired certificate with the TAL key, nothing (404 / no such file), or fails mid-transfer
//! (https: connection cut; rsync: module unreachable).
//! Oracle (statement + engine.rs load_ta documentation): URIs are tried https-first in TAL order; the
//! effective certificate of a URI is the download if it decodes, else the stored copy; the first
//! effective certificate whose key equals the TAL key and which validates as a trust anchor is
//! used, else the TAL contributes nothing. The stored copy of a URI after a run is the last
//! decodable download, never undecodable bytes.

use std::collections::{BTreeMap, BTreeSet};

use bytes::Bytes;
use proptest::prelude::*;
use rpki::repository::tal::TalUri;
use serde::{Deserialize, Serialize};

use crate::core::*;
use crate::erpki::*;
use crate::erun::scratch_base;
use crate::httpsrv::*;
use crate::pay::MItem;
use crate::rpkigen as gen;



#[derive(Serialize, Deserialize, Clone, Copy, Debug, PartialEq, Eq)]
pub enum Offer {
    Match,
    OtherKey,
    Garbage,
    Expired,
    NotFound,
    /// https: connection cut in the body; rsync: module unreachable
    Broken,
}

#[derive(Serialize, Deserialize, Clone, Debug, PartialEq, Eq)]
pub struct Case {
    /// per TAL URI: true = https, false = rsync (file order in the TAL)
    pub https: Vec<bool>,
    /// runs x uris
    pub runs: Vec<Vec<Offer>>,
}

fn offer() -> impl Strategy<Value = Offer> {
    prop_oneof![
        4 => Just(Offer::Match),
        2 => Just(Offer::OtherKey),
        2 => Just(Offer::Garbage),
        2 => Just(Offer::Expired),
        2 => Just(Offer::NotFound),
        2 => Just(Offer::Broken),
    ]
}

fn case_strategy() -> impl Strategy<Value = Case> {
    (1usize..=3, 2usize..=3).prop_flat_map(|(n, r)| (prop::collection::vec(any::<bool>(), n..=n), prop::collection::vec(prop::collection::vec(offer(), n..=n), r..=r))).prop_map(|(https, runs)| Case { https, runs })
}

fn scenario() -> Scenario {
    Scenario {
        cfg: Cfg::default(),
        cas: vec![Ca {
            parent: None,
            key: 0,
            module: 0,
            not_after: 86400 * 30,
            cert_fault: None,
            versions: vec![Version { number: 1, this_off: -600, next_off: 86400, crl_next_off: 86400, ee_after_off: 86400, objs: vec![Obj { kind: ObjKind::Roa { extra: 1, maxlen_delta: 0, v6: false }, not_after: 86400, fault: None }], fault: None, omit_children: vec![] }],
            extra_res: None,
            ta_alt: vec![],
            sia_under_parent_mft: false,
            rrdp: None,
        }],
        steps: vec![Step { publish: vec![0], fail_modules: vec![], offline: false, stale: None, foreign_tal_key: vec![], ta_serve: vec![], fail_rrdp: vec![] }],
    }
}

fn uri_of(i: usize, https: bool) -> String {
    if https {
        format!("https://ta-h{}.rpki.test/ta/ta.cer", i)
    } else {
        format!("rsync://ta-r{}.rpki.test/ta/ta.cer", i)
    }
}

fn decodable(o: Offer) -> bool {
    matches!(o, Offer::Match | Offer::OtherKey | Offer::Expired)
}

fn prop(c: &Case, info: &mut CaseInfo) -> Verdict {
    let sc = scenario();
    let mut world = World::new(&sc, scratch_base());
    let srv = HttpsServer::start();
    let n = c.https.len();
    // the TAL: URIs in file order
    let uris: Vec<String> = (0..n).map(|i| uri_of(i, c.https[i])).collect();
    std::fs::write(world.dir.path().join("tals").join("tal0.tal"), gen::tal_text(&uris, sc.cas[0].key)).unwrap();
    // certificates
    let good = world.ca_certs[&0].clone();
    let res = cert_res(&sc, 0);
    let other = gen::issue_ta(7, &res, gen::validity(world.now, -86400, 86400 * 30), &ca_dir_uri(&sc, 0), &mft_uri(&sc, 0), None, 1);
    let expired = gen::issue_ta(0, &res, gen::validity(world.now, -86400 * 30, -3600), &ca_dir_uri(&sc, 0), &mft_uri(&sc, 0), None, 1);
    let garbage = Bytes::from_static(b"\x30\x82\x01\x00 this is not a certificate at all");
    let bytes_of = |o: Offer| -> Option<Bytes> {
        match o {
            Offer::Match => Some(good.clone()),
            Offer::OtherKey => Some(other.clone()),
            Offer::Expired => Some(expired.clone()),
            Offer::Garbage => Some(garbage.clone()),
            Offer::NotFound | Offer::Broken => None,
        }
    };
    let expected_items: BTreeSet<MItem> = obj_items(0, 0, 0, &sc.cas[0].versions[0].objs[0]).into_iter().collect();
    // order in which the engine tries the URIs: https first, file order otherwise (Tal::prefer_https, stable)
    let mut order: Vec<usize> = (0..n).filter(|i| c.https[*i]).collect();
    order.extend((0..n).filter(|i| !c.https[*i]));

    // model state
    let mut stored: BTreeMap<usize, Bytes> = BTreeMap::new();
    let mut rsync_local: BTreeMap<usize, Bytes> = BTreeMap::new();
    let ex = empty_exceptions();
    let mut nontrivial = false;
    for (r, offers) in c.runs.iter().enumerate() {
        // --- servers
        world.publish(&sc.steps[0]);
        // `publish` maintains the scenario's default TAL and trust anchor file; this leg uses its own
        std::fs::write(world.dir.path().join("tals").join("tal0.tal"), gen::tal_text(&uris, sc.cas[0].key)).unwrap();
        let _ = std::fs::remove_file(world.srv().join(host(0)).join("repo").join("ta0.cer"));
        for i in 0..n {
            let o = offers[i];
            if c.https[i] {
                let host = format!("ta-h{}.rpki.test", i);
                let resp = match o {
                    Offer::NotFound => Resp::status(404),
                    Offer::Broken => Resp::ok(good.to_vec()).drop_after(good.len() / 2),
                    _ => Resp::ok(bytes_of(o).unwrap().to_vec()).chunked(r % 2 == 1),
                };
                srv.set(&host, "/ta/ta.cer", resp);
            } else {
                let hostdir = world.srv().join(format!("ta-r{}.rpki.test", i));
                let moddir = hostdir.join("ta");
                std::fs::create_dir_all(&moddir).unwrap();
                match o {
                    Offer::Broken => std::fs::write(hostdir.join("ta.fail"), b"").unwrap(),
                    Offer::NotFound => {}
                    _ => std::fs::write(moddir.join("ta.cer"), bytes_of(o).unwrap()).unwrap(),
                }
            }
        }
        // --- model
        let mut used: Option<usize> = None;
        let mut attempted: BTreeSet<usize> = BTreeSet::new();
        for &i in &order {
            attempted.insert(i);
            let o = offers[i];
            let fetched: Option<(Bytes, bool)> = if c.https[i] {
                match o {
                    Offer::NotFound => None,
                    Offer::Broken => Some((Bytes::new(), false)), // partial bytes, never decodable
                    _ => Some((bytes_of(o).unwrap(), decodable(o))),
                }
            } else {
                // the rsync copy of the module persists when the transfer fails
                match o {
                    Offer::Broken => {}
                    Offer::NotFound => {
                        rsync_local.remove(&i);
                    }
                    _ => {
                        rsync_local.insert(i, bytes_of(o).unwrap());
                    }
                }
                rsync_local.get(&i).map(|b| (b.clone(), *b == good || *b == other || *b == expired))
            };
            let had_stored = stored.contains_key(&i);
            let effective: Option<Bytes> = match fetched {
                Some((b, true)) => {
                    stored.insert(i, b.clone());
                    Some(b)
                }
                _ => {
                    if had_stored {
                        nontrivial = true; // failing download with a stored copy
                    }
                    stored.get(&i).cloned()
                }
            };
            if matches!(o, Offer::OtherKey) {
                nontrivial = true;
            }
            if effective.as_ref() == Some(&good) {
                used = Some(i);
                break;
            }
        }
        // rsync copies of modules not touched in this run are cleaned up
        rsync_local.retain(|i, _| attempted.contains(i));
        // store cleanup drops stored TA files that are expired certificates (store.rs cleanup_ta)
        stored.retain(|_, b| *b != expired);
        // --- the engine
        let out = match world.run_with(false, &ex, |config| {
            config.disable_rrdp = false;
            config.rrdp_root_certs = vec![tls_ca_path()];
            config.rrdp_proxies = vec![srv.proxy_url()];
            config.rrdp_timeout = Some(std::time::Duration::from_secs(60));
        }) {
            Ok(o) => o,
            Err(e) => return Verdict::fail("C10/run-failed", format!("run {}: {}", r, e)),
        };
        let served: BTreeSet<MItem> = out.payload.items().into_iter().collect();
        let offers_txt = format!("URIs {:?} (engine order {:?}), offers this run {:?}, history {:?}", uris, order, offers, &c.runs[..r]);
        let kinds: String = offers.iter().map(|o| format!("{:?}", o)).collect::<Vec<_>>().join(",");
        match used {
            Some(i) => {
                if served != expected_items {
                    return Verdict::fail(format!("C10/ta-not-used/run={}/via={}", r, if decodable(offers[i]) && offers[i] == Offer::Match { "download" } else { "stored-copy" }), format!("run {}: URI #{} has an effective certificate with the TAL key (model), but the TAL's payload is missing: served {:?}; {}", r, i, served, offers_txt));
                }
            }
            None => {
                if !served.is_empty() {
                    return Verdict::fail(format!("C10/ta-used-unexpectedly/offers={}", kinds), format!("run {}: no URI has an effective matching certificate (model) but payload {:?} was served; {}", r, served, offers_txt));
                }
            }
        }
        // --- stored copies
        let config = world.config();
        let store = match routinator::store::Store::new(&config) {
            Ok(s) => s,
            Err(_) => return Verdict::Dropped("store_new_failed".into()),
        };
        for i in 0..n {
            let turi = TalUri::from_string(uris[i].clone()).expect("tal uri");
            let path = store.verif_ta_path(&turi);
            let on_disk = std::fs::read(&path).ok().map(Bytes::from);
            let want = stored.get(&i).cloned();
            if on_disk != want {
                let name = |b: &Option<Bytes>| match b {
                    None => "nothing".to_string(),
                    Some(x) if *x == good => "matching cert".into(),
                    Some(x) if *x == other => "other-key cert".into(),
                    Some(x) if *x == expired => "expired cert".into(),
                    Some(x) if *x == garbage => "undecodable bytes".into(),
                    Some(x) => format!("{} unknown bytes", x.len()),
                };
                let key = if on_disk.as_ref().map(|b| *b != good && *b != other && *b != expired).unwrap_or(false) { "C10/stored-copy-undecodable".to_string() } else { format!("C10/stored-copy-differs/has={}/want={}", name(&on_disk).replace(' ', "-"), name(&want).replace(' ', "-")) };
                return Verdict::fail(key, format!("run {}: stored TA copy for URI #{} holds {} but the last decodable download is {}; {}", r, i, name(&on_disk), name(&want), offers_txt));
            }
        }
        info.class(format!("run-outcome:{}", if used.is_some() { "ta-used" } else { "tal-contributes-nothing" }));
        if let Some(i) = used {
            info.class(format!("used-via:{}:{}", if c.https[i] { "https" } else { "rsync" }, if offers[i] == Offer::Match { "download" } else { "stored" }));
        }
    }
    for o in c.runs.iter().flatten() {
        info.class(format!("offer:{:?}", o));
    }
    info.class(format!("uris:{}", n));
    info.nt(nontrivial);
    Verdict::Pass
}

pub fn run(ctx: &Ctx, rep: &mut Report, replay: Option<&serde_json::Value>) {
    rep.rule("one TAL with 1-3 URIs (https via the in-harness HTTPS server / rsync via the fake rsync, mixed) over a one-CA repository with a ROA; 2-3 consecutive real engine runs over a persistent cache; per URI and run the server offers matching cert / self-signed cert for another key / undecodable bytes / expired cert with the TAL key / nothing / transfer failure; oracle: model of 'https first, download if it decodes else stored copy, first effective cert with the TAL key that validates' decides whether the TAL's payload is served, and the stored TA file per URI (routinator's own path function) must be the last decodable download (an expired certificate is removed again by the end-of-run cleanup); non-trivial = a failing or undecodable download while a stored copy exists, or a key mismatch; distinct by serialised case");
    rep.assume("rsync TA URIs: the collector's local module copy persists over a failed transfer and is removed when the module was not touched in a run (as for every rsync module); E-rpki world + reference items as in C01");
    ctx.shrink_iters.store(200, std::sync::atomic::Ordering::Relaxed);
    if let Some(v) = replay {
        let t: Tagged<Case> = serde_json::from_value(v.clone()).expect("replay");
        run_case(ctx, rep, &t.sub, &t.case, prop);
        return;
    }
    run_prop_par(ctx, rep, "histories", ctx.tier.pick(160, 2500), 8, case_strategy, prop);
}
