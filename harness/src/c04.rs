//! C04 Store holds only complete, verified publication points.

use proptest::strategy::Strategy;

use crate::core::*;
use crate::erpki::*;
use crate::erun::*;
use crate::escen::*;

fn profile() -> HistProfile {
    let mut hp = HistProfile::default();
    hp.base.fault_16 = 4;
    hp.base.obj_faults = false;
    hp.incomplete_16 = 4;
    hp.rollback_16 = 2;
    hp.fail_module_16 = 2;
    hp.offline_16 = 3;
    // some versions do not advance regularly in (number, thisUpdate): an update that must be refused
    // combined with an incomplete fetch must still leave the stored version intact
    hp.irregular_16 = 3;
    hp
}

fn refused_after_success(sc: &Scenario) -> bool {
    sc.cas.iter().any(|ca| ca.versions.iter().skip(1).any(|v| v.fault.is_some() && !matches!(v.fault, Some(PpFault::StrayFile) | Some(PpFault::OddFiles)))) || sc.steps.iter().skip(1).any(|s| !s.fail_modules.is_empty())
}

fn prop(sc: &Scenario, info: &mut CaseInfo) -> Verdict {
    let j = Judge { id: "C04", sound: true, complete: true, store: true, ..Default::default() };
    let v = judge(&j, sc, info, |_, _| None);
    info.nontrivial = refused_after_success(sc);
    for c in history_classes(sc) {
        info.class(c);
    }
    v
}

pub fn run(ctx: &Ctx, rep: &mut Report, replay: Option<&serde_json::Value>) {
    rep.rule("E-rpki histories of 2-4 runs (online, unreachable modules, offline runs; a fifth of the versions do not advance regularly in manifest number / thisUpdate) where later versions carry manifest/CRL/file faults (bad signature, garbage, missing, expired EE, wrong CRL URI, CRL missing/unlisted/bad signature/hash mismatch/revoking the manifest, listed file missing, hash mismatch); oracle after every run: the stored point of each CA, read back with routinator's own reader, equals byte-for-byte the last version the model accepted from the fetch path (manifest, CRL, exactly the listed files, stored hashes verify), or is absent; payload equals the model (so the stored copy is usable, incl. offline runs); non-trivial = a faulty/refused update or transport failure after the first run; distinct by serialised scenario");
    rep.assume("reference model Appendix A");
    ctx.shrink_iters.store(120, std::sync::atomic::Ordering::Relaxed);
    if let Some(v) = replay {
        let t: Tagged<Scenario> = serde_json::from_value(v.clone()).expect("replay");
        if t.sub == "rrdp" {
            run_case(ctx, rep, &t.sub, &t.case, prop_rrdp);
            return;
        }
        run_case(ctx, rep, &t.sub, &t.case, prop);
        return;
    }
    let hp = profile();
    run_prop_par(ctx, rep, "history", ctx.tier.pick(240, 6000), 8, || genome(260).prop_map({
        let hp = hp.clone();
        move |w| history_run(&w, &hp)
    }), prop);
    // the same histories with CAs published through RRDP repositories that fail in some runs
    rep.rule("(rrdp) the same histories with every CA published through one of 2 RRDP repositories with chance 1/2 (honest in-harness server producing deltas between runs), each repository's notification failing (HTTP 500) with chance 4/16 per run, rrdp-fallback in {stale, never, new}; oracle as above with the stored point read from the path keyed by the CA's rpkiNotify URI (routinator's own path function), also when the data came over rsync after a fallback; model: failed update with a local copy => stored data only, without one => rsync unless policy never; non-trivial = as above and a CA published through RRDP was attempted after a refused update or in a run where its repository failed");
    let mut hp = profile();
    hp.base.rrdp_16 = 8;
    hp.fail_rrdp_16 = 4;
    run_prop_par(ctx, rep, "rrdp", ctx.tier.pick(100, 2500), 8, || (genome(260), rrdp_genome()).prop_map({
        let hp = hp.clone();
        move |(w, r)| history_run_rrdp(&w, &r, &hp)
    }), prop_rrdp);
}

fn prop_rrdp(sc: &Scenario, info: &mut CaseInfo) -> Verdict {
    let j = Judge { id: "C04/rrdp", sound: true, complete: true, store: true, archives: true, ..Default::default() };
    let (v, seen) = judge_rrdp(&j, sc, info, |_, _| None);
    info.nontrivial = refused_after_success(sc) && seen.attempted && (seen.refused_update || seen.current || seen.fallback || seen.unavailable_never);
    for c in history_classes(sc) {
        info.class(c);
    }
    v
}
