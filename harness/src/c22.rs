//! C22 Status and metrics documents are always well-formed.
//!
//! A `Metrics` value with generated TAL names, repository URIs, collector entries and log books is
//! installed through `SharedHistory::update`; `/api/v1/status` and `/metrics` are fetched through
//! the real dispatcher. The status document must parse as JSON and its strings must decode to the
//! injected ones; the exposition must parse with the text-format parser of `parsers.rs` and its
//! label values must decode to the injected ones.

use std::cell::Cell;
use std::net::IpAddr;
use std::os::unix::process::ExitStatusExt;
use std::time::Duration;

use proptest::prelude::*;
use routinator::collector::{HttpStatus, SnapshotReason};
use routinator::log::LogBookWriter;
use routinator::metrics::{Metrics, RepositoryMetrics, RrdpRepositoryMetrics, RsyncModuleMetrics, TalMetrics};
use rpki::repository::tal::TalInfo;
use rpki::uri;
use serde::{Deserialize, Serialize};

use crate::core::*;
use crate::fmtx::*;
use crate::parsers::*;

pub const KEY_STATUS_CTL: &str = "C22/status/control-char-unescaped";
pub const KEY_LABEL_QUOTE: &str = "C22/metrics/label-unescaped/quote";
pub const KEY_LABEL_BACKSLASH: &str = "C22/metrics/label-unescaped/backslash";
pub const KEY_LABEL_NEWLINE: &str = "C22/metrics/label-unescaped/newline";

#[derive(Serialize, Deserialize, Clone, Debug)]
pub struct LogMsg {
    /// 0 error, 1 warn(=info in LogBookWriter), 2 info, 3 debug
    pub level: u8,
    pub text: String,
}

#[derive(Serialize, Deserialize, Clone, Debug)]
pub struct RsyncEntry {
    pub module: String,
    /// None = spawn error, Some(raw wait status)
    pub status: Option<i32>,
    pub duration_ms: Option<u32>,
    pub log: Option<Vec<LogMsg>>,
}

#[derive(Serialize, Deserialize, Clone, Debug)]
pub struct RrdpEntry {
    pub uri: String,
    /// 0 error, 1 rejected, else an HTTP status code
    pub notify: u16,
    pub payload: Option<u16>,
    pub serial: Option<u64>,
    pub session: bool,
    pub reason: Option<u8>,
    pub duration_ms: Option<u32>,
    pub log: Option<Vec<LogMsg>>,
}

#[derive(Serialize, Deserialize, Clone, Debug)]
pub struct Case {
    pub tals: Vec<String>,
    pub repos: Vec<String>,
    pub rsync: Vec<RsyncEntry>,
    pub rrdp: Vec<RrdpEntry>,
    pub pub_point_logs: Vec<(String, Vec<LogMsg>)>,
    pub rtr_detailed: bool,
    pub rtr_clients: Vec<IpAddr>,
    pub counter: u32,
}

struct Sink;
impl log::Log for Sink {
    fn enabled(&self, _: &log::Metadata) -> bool {
        true
    }
    fn log(&self, _: &log::Record) {}
    fn flush(&self) {}
}
static SINK: Sink = Sink;

fn book(msgs: &[LogMsg]) -> routinator::log::LogBook {
    let mut w = LogBookWriter::new(None);
    for m in msgs {
        let lvl = match m.level % 4 {
            0 => log::Level::Error,
            1 => log::Level::Warn,
            2 => log::Level::Info,
            _ => log::Level::Debug,
        };
        w.log(lvl, format_args!("{}", m.text));
    }
    w.into_book()
}

fn http_status(code: u16) -> HttpStatus {
    match code {
        0 => HttpStatus::Error,
        1 => HttpStatus::Rejected,
        c => routinator::reqwest::StatusCode::from_u16(c).map(HttpStatus::Response).unwrap_or(HttpStatus::Error),
    }
}

fn reason(n: u8) -> SnapshotReason {
    match n % 6 {
        0 => SnapshotReason::NewRepository,
        1 => SnapshotReason::NewSession,
        2 => SnapshotReason::BadDeltaSet,
        3 => SnapshotReason::LargeDeltaSet,
        4 => SnapshotReason::OutdatedLocal,
        _ => SnapshotReason::ConflictingDelta,
    }
}

fn build_metrics(case: &Case) -> Result<Metrics, String> {
    let mut m = Metrics::new();
    for (i, name) in case.tals.iter().enumerate() {
        let mut t = TalMetrics::new(TalInfo::from_name(name.clone()).into_arc());
        t.publication.valid_roas = case.counter.wrapping_add(i as u32);
        t.publication.valid_points = i as u32;
        t.payload.v4_origins.valid = case.counter / 2;
        t.payload.v6_origins.contributed = 3;
        m.tals.push(t);
    }
    for (i, uri) in case.repos.iter().enumerate() {
        let mut r = RepositoryMetrics::new(uri.clone());
        r.publication.valid_manifests = i as u32 + 1;
        r.payload.router_keys.valid = case.counter % 7;
        m.repositories.push(r);
    }
    for e in &case.rsync {
        m.rsync.push(RsyncModuleMetrics {
            module: uri::Rsync::from_string(e.module.clone()).map_err(|e| format!("rsync uri: {}", e))?,
            status: match e.status {
                Some(raw) => Ok(std::process::ExitStatus::from_raw(raw)),
                None => Err(std::io::Error::other("spawn failed")),
            },
            duration: Ok(Duration::from_millis(e.duration_ms.unwrap_or(0) as u64)),
            log_book: e.log.as_ref().map(|l| book(l)),
        });
    }
    for e in &case.rrdp {
        let mut r = RrdpRepositoryMetrics::new(uri::Https::from_string(e.uri.clone()).map_err(|e| format!("https uri: {}", e))?);
        r.notify_status = http_status(e.notify);
        r.payload_status = e.payload.map(http_status);
        r.serial = e.serial;
        r.session = if e.session { Some(uuid::Uuid::from_u128(0x1234_5678_9abc_def0_1234_5678_9abc_def0)) } else { None };
        r.snapshot_reason = e.reason.map(reason);
        r.duration = Ok(Duration::from_millis(e.duration_ms.unwrap_or(0) as u64));
        r.log_book = e.log.as_ref().map(|l| book(l));
        m.rrdp.push(r);
    }
    for (u, msgs) in &case.pub_point_logs {
        m.pub_point_logs.push((uri::Rsync::from_string(u.clone()).map_err(|e| format!("rsync uri: {}", e))?, book(msgs)));
    }
    m.publication.valid_roas = case.counter;
    m.snapshot.large_aspas = case.counter % 3;
    Ok(m)
}

/// Strings that `/api/v1/status` renders.
fn status_strings(case: &Case) -> Vec<&str> {
    let mut v: Vec<&str> = case.tals.iter().map(|s| s.as_str()).collect();
    v.extend(case.repos.iter().map(|s| s.as_str()));
    for e in &case.rsync {
        v.extend(e.log.iter().flatten().map(|m| m.text.as_str()));
    }
    for e in &case.rrdp {
        v.extend(e.log.iter().flatten().map(|m| m.text.as_str()));
    }
    for (_, l) in &case.pub_point_logs {
        v.extend(l.iter().map(|m| m.text.as_str()));
    }
    v
}

/// Strings that `/metrics` renders as label values.
fn label_strings(case: &Case) -> Vec<&str> {
    case.tals.iter().chain(case.repos.iter()).map(|s| s.as_str()).collect()
}

/// The known-finding key a label set falls under (highest-priority offending character).
pub fn label_key(case: &Case) -> Option<&'static str> {
    let l = label_strings(case);
    if l.iter().any(|s| s.contains('"')) {
        Some(KEY_LABEL_QUOTE)
    } else if l.iter().any(|s| s.contains('\\')) {
        Some(KEY_LABEL_BACKSLASH)
    } else if l.iter().any(|s| s.contains('\n')) {
        Some(KEY_LABEL_NEWLINE)
    } else {
        None
    }
}

pub fn status_key(case: &Case) -> Option<&'static str> {
    if status_strings(case).iter().any(|s| has_json_ctl(s)) {
        Some(KEY_STATUS_CTL)
    } else {
        None
    }
}

pub struct Env<'a> {
    pub kit: &'a Kit,
    pub rt: &'a tokio::runtime::Runtime,
    pub ctx: &'a Ctx,
    /// Skip documents whose input has a listed known-finding shape (bulk search only).
    pub exclude: bool,
    /// Which documents to fetch and judge.
    pub judge_status: bool,
    pub judge_metrics: bool,
    pub excluded_status: Cell<u64>,
    pub excluded_quote: Cell<u64>,
    pub excluded_backslash: Cell<u64>,
    pub excluded_newline: Cell<u64>,
}

fn level_name(l: u8) -> &'static str {
    // LogBookWriter::warn logs at Info, but `log(Level::Warn, ..)` keeps Warn
    match l % 4 {
        0 => "ERROR",
        1 => "WARN",
        2 => "INFO",
        _ => "DEBUG",
    }
}

fn check_issues(what: &str, arr: Option<&JVal>, msgs: &[LogMsg], msg_member: &str) -> Result<(), String> {
    let arr = arr.filter(|a| a.is_arr()).ok_or_else(|| format!("{}: issues array missing", what))?;
    let got: Vec<(String, String)> = arr
        .items()
        .iter()
        .map(|i| (i.get("level").and_then(|x| x.as_str()).unwrap_or("?").to_string(), i.get(msg_member).and_then(|x| x.as_str()).unwrap_or("<missing>").to_string()))
        .collect();
    let want: Vec<(String, String)> = msgs.iter().map(|m| (level_name(m.level).to_string(), m.text.clone())).collect();
    if got != want {
        return Err(format!("{}: log messages decode to {:?}, injected {:?}", what, got, want));
    }
    Ok(())
}

fn judge_status(case: &Case, body: &[u8], info: &mut CaseInfo) -> Result<(), (String, String)> {
    // Only well-formedness is the property; content that decodes differently from what was injected
    // (a legitimate renderer may truncate or sanitise) is recorded as a class, never as a verdict.
    let mut beyond = |kind: &str, _msg: String| info.class(format!("beyond_property:status/{}", kind));
    let generic = |k: &str| status_key(case).map(|s| s.to_string()).unwrap_or_else(|| format!("C22/status/{}", k));
    let doc = JVal::parse(body).map_err(|e| (generic("invalid-json"), format!("/api/v1/status is not valid JSON: {}", e)))?;
    let names = |member: &str| -> Vec<String> { doc.get(member).map(|o| o.members().iter().map(|(k, _)| k.clone()).collect()).unwrap_or_default() };
    if names("tals") != case.tals {
        beyond("decode/tal-names", format!("tals members {:?}, injected {:?}", names("tals"), case.tals));
    }
    if names("repositories") != case.repos {
        beyond("decode/repository-uris", format!("repositories members {:?}, injected {:?}", names("repositories"), case.repos));
    }
    let rsync: Vec<String> = case.rsync.iter().map(|e| e.module.clone()).collect();
    if names("rsync") != rsync {
        beyond("decode/rsync-modules", format!("rsync members {:?}, injected {:?}", names("rsync"), rsync));
    }
    let rrdp: Vec<String> = case.rrdp.iter().map(|e| e.uri.clone()).collect();
    if names("rrdp") != rrdp {
        beyond("decode/rrdp-uris", format!("rrdp members {:?}, injected {:?}", names("rrdp"), rrdp));
    }
    for (i, e) in case.rsync.iter().enumerate() {
        let obj = &doc.get("rsync").unwrap().members()[i].1;
        match &e.log {
            Some(l) => if let Err(m) = check_issues("rsync", obj.get("issues"), l, "messages") { beyond("decode/log-messages", m) },
            None if obj.get("issues").is_some() => beyond("decode/log-messages", "issues without a log book".into()),
            None => {}
        }
    }
    for (i, e) in case.rrdp.iter().enumerate() {
        let obj = &doc.get("rrdp").unwrap().members()[i].1;
        match &e.log {
            Some(l) => if let Err(m) = check_issues("rrdp", obj.get("issues"), l, "messages") { beyond("decode/log-messages", m) },
            None if obj.get("issues").is_some() => beyond("decode/log-messages", "issues without a log book".into()),
            None => {}
        }
    }
    // pub_point_logs are sorted by URI when the metrics are finalised
    let mut want = case.pub_point_logs.clone();
    want.sort_by(|a, b| a.0.cmp(&b.0));
    let got = doc.get("pubPointIssues").map(|o| o.members().to_vec()).unwrap_or_default();
    if got.iter().map(|g| g.0.clone()).collect::<Vec<_>>() != want.iter().map(|w| w.0.clone()).collect::<Vec<_>>() {
        beyond("decode/pub-point-uris", format!("pubPointIssues members {:?}", got.iter().map(|g| &g.0).collect::<Vec<_>>()));
    }
    for (g, w) in got.iter().zip(want.iter()) {
        if let Err(m) = check_issues("pubPointIssues", Some(&g.1), &w.1, "message") { beyond("decode/log-messages", m) };
    }
    if case.rtr_detailed {
        let clients = doc.get("rtr").and_then(|r| r.get("clients")).map(|c| c.members().len());
        let mut want: Vec<IpAddr> = case.rtr_clients.clone();
        want.sort();
        want.dedup();
        if clients != Some(want.len()) {
            beyond("decode/rtr-clients", format!("{:?} rtr clients listed, {} connected", clients, want.len()));
        }
    }
    Ok(())
}

fn judge_metrics(case: &Case, body: &[u8], info: &mut CaseInfo) -> Result<(), (String, String)> {
    let mut beyond = |kind: &str, _msg: String| info.class(format!("beyond_property:metrics/{}", kind));
    let generic = |k: &str| label_key(case).map(|s| s.to_string()).unwrap_or_else(|| format!("C22/metrics/{}", k));
    let doc = prom_parse(body).map_err(|e| (generic("parse-error"), format!("/metrics does not parse as Prometheus text format: {}", e)))?;
    let labels_of = |metric: &str, label: &str| -> Vec<String> { doc.samples.iter().filter(|s| s.name == metric).filter_map(|s| s.labels.iter().find(|(n, _)| n == label).map(|(_, v)| v.clone())).collect() };
    let rsync: Vec<String> = case.rsync.iter().map(|e| e.module.clone()).collect();
    let rrdp: Vec<String> = case.rrdp.iter().map(|e| e.uri.clone()).collect();
    let checks: [(&str, &str, &Vec<String>); 7] = [
        ("routinator_ta_valid_vrps_total", "name", &case.tals),
        ("routinator_ta_contributed_vrps_total", "name", &case.tals),
        ("routinator_valid_roas", "tal", &case.tals),
        ("routinator_repository_valid_vrps_total", "uri", &case.repos),
        ("routinator_repository_duplicate_vrps_total", "uri", &case.repos),
        ("routinator_rsync_status", "uri", &rsync),
        ("routinator_rrdp_status", "uri", &rrdp),
    ];
    for (metric, label, want) in checks {
        let got = labels_of(metric, label);
        if got != *want {
            beyond(&format!("decode/{}", metric), format!("{}{{{}}} label values decode to {:?}, injected {:?}", metric, label, got, want));
        }
    }
    // every sample of a per-TAL / per-repository family must carry one of the injected names
    for s in &doc.samples {
        let (label, pool) = if s.name.starts_with("routinator_ta_") {
            ("name", &case.tals)
        } else if s.name.starts_with("routinator_repository_") {
            ("uri", &case.repos)
        } else {
            continue;
        };
        match s.labels.iter().find(|(n, _)| n == label) {
            Some((_, v)) if pool.contains(v) => {}
            other => beyond("decode/stray-label", format!("line {}: {} has {} = {:?}", s.line, s.name, label, other)),
        }
    }
    for (n, _) in &doc.types {
        if !doc.help.iter().any(|(h, _)| h == n) {
            beyond("type-without-help", format!("metric {} has TYPE but no HELP", n));
        }
    }
    if case.rtr_detailed {
        let mut want: Vec<IpAddr> = case.rtr_clients.clone();
        want.sort();
        want.dedup();
        let got = labels_of("routinator_rtr_client_connections", "addr");
        if got != want.iter().map(|a| a.to_string()).collect::<Vec<_>>() {
            beyond("decode/rtr-clients", format!("rtr client addr labels {:?}, connected {:?}", got, want));
        }
    }
    Ok(())
}

fn interesting_for_status(s: &str) -> bool {
    has_quote_or_backslash(s) || !s.is_ascii() || has_json_ctl(s)
}

fn interesting_for_metrics(s: &str) -> bool {
    s.chars().any(|c| matches!(c, '{' | '}' | ',' | '=' | '#' | ' ' | '"' | '\\') || !c.is_ascii() || c.is_control())
}

pub fn prop(env: &Env, case: &Case, info: &mut CaseInfo) -> Verdict {
    let metrics = match build_metrics(case) {
        Ok(m) => m,
        Err(e) => return Verdict::Dropped(format!("generator_produced_invalid_uri:{}", e.split(':').next().unwrap_or(""))),
    };
    let served = Served::new(env.ctx.scratch(), 2, case.rtr_detailed);
    for a in &case.rtr_clients {
        let c = served.rtr_metrics.get_client(*a);
        c.update(|d| d.inc_current_connections());
        if case.counter % 2 == 0 {
            c.update(|d| d.update_now(7.into(), case.counter % 4 == 0));
        }
    }
    served.update(env.kit, &[], &LocalSpec::default(), metrics);
    let sk = status_key(case);
    let lk = label_key(case);
    let status_excluded = env.exclude && sk.map(|k| env.ctx.known_key(k).is_some() && !env.ctx.strict).unwrap_or(false);
    let metrics_excluded = env.exclude && lk.map(|k| env.ctx.known_key(k).is_some() && !env.ctx.strict).unwrap_or(false);
    let st = status_strings(case);
    let lb = label_strings(case);
    if st.iter().any(|s| has_quote_or_backslash(s)) {
        info.class("status:quote_or_backslash");
    }
    if st.iter().any(|s| has_json_ctl(s)) {
        info.class("status:control_char");
    }
    if st.iter().any(|s| !s.is_ascii()) {
        info.class("non_ascii");
    }
    if let Some(k) = lk {
        info.class(format!("labels:{}", k.rsplit('/').next().unwrap()));
    }
    if case.rsync.iter().any(|e| e.log.is_some()) || case.rrdp.iter().any(|e| e.log.is_some()) || !case.pub_point_logs.is_empty() {
        info.class("has_log_book");
    }
    if case.rtr_detailed {
        info.class("rtr_detailed");
    }
    let mut judged_any = false;
    if !env.judge_status {
    } else if status_excluded {
        env.excluded_status.set(env.excluded_status.get() + 1);
        info.class("status_not_judged(known shape)");
    } else {
        judged_any = true;
        let resp = get(env.rt, &served.handler, "/api/v1/status");
        if resp.status != 200 {
            return Verdict::fail("C22/status/http-status", format!("GET /api/v1/status -> {}", resp.status));
        }
        if let Err((key, msg)) = judge_status(case, &resp.body(), info) {
            return Verdict::fail(key, msg);
        }
        info.nt(st.iter().any(|s| interesting_for_status(s)));
    }
    if !env.judge_metrics {
    } else if metrics_excluded {
        let c = match lk.unwrap() {
            KEY_LABEL_QUOTE => &env.excluded_quote,
            KEY_LABEL_BACKSLASH => &env.excluded_backslash,
            _ => &env.excluded_newline,
        };
        c.set(c.get() + 1);
        info.class("metrics_not_judged(known shape)");
    } else {
        judged_any = true;
        let resp = get(env.rt, &served.handler, "/metrics");
        if resp.status != 200 {
            return Verdict::fail("C22/metrics/http-status", format!("GET /metrics -> {}", resp.status));
        }
        if let Err((key, msg)) = judge_metrics(case, &resp.body(), info) {
            return Verdict::fail(key, msg);
        }
        info.nt(lb.iter().any(|s| interesting_for_metrics(s)));
    }
    if !judged_any {
        info.class("nothing_judged");
    }
    Verdict::Pass
}

//------------------------------------------------------------------------------------------
// Generators

fn logs(class: StrClass) -> BoxedStrategy<Option<Vec<LogMsg>>> {
    // one message in eight is long: a plain banner that ends within 40 characters before a power-of-two
    // length (typical buffer / truncation limits), followed by text of the case's class, so that escapes
    // fall on and around those offsets of the rendered string
    let text = prop_oneof![
        7 => text_strategy(class, 24),
        1 => (prop::sample::select(vec![64usize, 128, 256, 512, 1024, 2048, 4096, 8192, 16384, 65536]), 0usize..40, text_strategy(class, 24), 0usize..3).prop_map(|(base, back, t, tail)| {
            let mut s = "#".repeat(base - back.min(base));
            s.push_str(&t);
            s.push_str(&"z".repeat(tail * 700));
            s
        }),
    ];
    prop::option::weighted(0.6, prop::collection::vec((0u8..4, text).prop_map(|(level, text)| LogMsg { level, text }), 1..=3)).boxed()
}

/// Valid rsync module / https URIs built from the characters rpki's URI types admit.
fn safe_uri(scheme: &'static str) -> BoxedStrategy<String> {
    let chars: Vec<char> = "abcXYZ019-._~!$&'()*+,;=%".chars().collect();
    (prop::collection::vec(prop::sample::select(chars.clone()), 1..=8), prop::collection::vec(prop::sample::select(chars), 1..=8), 0u8..3)
        .prop_map(move |(h, m, tail)| {
            let h: String = h.into_iter().collect();
            let m: String = m.into_iter().collect();
            match (scheme, tail) {
                ("rsync", _) => format!("rsync://h{}.test/m{}/", h, m),
                (_, 0) => format!("https://{}.test/{}/notification.xml", h, m),
                (_, _) => format!("https://{}.test/{}", h, m),
            }
        })
        .boxed()
}

fn repo_uri(class: StrClass) -> BoxedStrategy<String> {
    prop_oneof![
        2 => safe_uri("rsync"),
        2 => safe_uri("https"),
        3 => text_strategy(class, 16).prop_map(|s| format!("https://{}", s)),
        2 => text_strategy(class, 16).prop_map(|s| format!("rsync://h/{}", s)),
        2 => text_strategy(class, 16),
    ]
    .boxed()
}

fn case_of_class(class: StrClass) -> BoxedStrategy<Case> {
    let rsync = (safe_uri("rsync"), prop::option::weighted(0.8, prop_oneof![Just(0i32), Just(256), Just(9), Just(5120), any::<i32>()]), prop::option::of(any::<u32>()), logs(class)).prop_map(|(module, status, duration_ms, log)| RsyncEntry { module, status, duration_ms, log });
    let rrdp = (
        safe_uri("https"),
        prop_oneof![Just(0u16), Just(1), Just(200), Just(304), Just(404), Just(500), 100u16..600],
        prop::option::of(prop_oneof![Just(0u16), Just(200), Just(404), 100u16..600]),
        prop::option::of(prop_oneof![Just(0u64), Just(u64::MAX), any::<u64>()]),
        any::<bool>(),
        prop::option::of(0u8..6),
        prop::option::of(any::<u32>()),
        logs(class),
    )
        .prop_map(|(uri, notify, payload, serial, session, reason, duration_ms, log)| RrdpEntry { uri, notify, payload, serial, session, reason, duration_ms, log });
    let ppl = (safe_uri("rsync"), prop::collection::vec((0u8..4, text_strategy(class, 24)).prop_map(|(level, text)| LogMsg { level, text }), 1..=3));
    let addr = prop_oneof![any::<[u8; 4]>().prop_map(IpAddr::from), any::<[u16; 8]>().prop_map(IpAddr::from), Just(IpAddr::from([127, 0, 0, 1]))];
    (
        prop::collection::vec(text_strategy(class, 14), 0..=5),
        prop::collection::vec(repo_uri(class), 0..=4),
        prop::collection::vec(rsync, 0..=3),
        prop::collection::vec(rrdp, 0..=3),
        prop::collection::vec(ppl, 0..=2),
        any::<bool>(),
        prop::collection::vec(addr, 0..=3),
        any::<u32>(),
    )
        .prop_map(|(tals, repos, rsync, rrdp, pub_point_logs, rtr_detailed, rtr_clients, counter)| Case { tals, repos, rsync, rrdp, pub_point_logs, rtr_detailed, rtr_clients, counter })
        .boxed()
}

fn case_strategy() -> BoxedStrategy<Case> {
    prop_oneof![
        1 => case_of_class(StrClass::Plain),
        5 => case_of_class(StrClass::Tame),
        3 => case_of_class(StrClass::Quoted),
        2 => case_of_class(StrClass::Ctl),
        2 => case_of_class(StrClass::Wild),
    ]
    .boxed()
}

fn directed(tal: &str, msg: &str) -> Case {
    Case {
        tals: vec!["ripe".into(), tal.into()],
        repos: vec!["rsync://rpki.example.net/repo/".into()],
        rsync: vec![RsyncEntry { module: "rsync://rpki.example.net/repo/".into(), status: Some(256), duration_ms: Some(1500), log: Some(vec![LogMsg { level: 1, text: msg.into() }]) }],
        rrdp: vec![],
        pub_point_logs: vec![],
        rtr_detailed: false,
        rtr_clients: vec![],
        counter: 1,
    }
}

pub fn run(ctx: &Ctx, rep: &mut Report, replay: Option<&serde_json::Value>) {
    rep.rule(
        "Metrics values with 0..=5 TAL names, 0..=4 repository URIs (valid URIs and arbitrary strings), 0..=3 rsync and RRDP entries with optional log books of 1..=3 messages (one in eight long: a banner ending just before a power-of-two length 64..65536, then class text), publication-point logs and 0..=3 RTR clients; every free-text string of a case is drawn from one class (plain / anything but quote, backslash, C0 controls / with quote and backslash / with C0 controls except LF / anything; alphabet of 18 letters + 47 special characters incl. NUL, TAB, CR, LF, ESC, DEL, U+2028, BOM, combining and non-BMP characters); installed via SharedHistory::update, fetched through the real dispatcher; non-trivial = a judged document renders a string with a quote, backslash, control, structural ({},=# space) or non-ASCII character; distinct by serialised case",
    );
    rep.assume("a parse is successful when serde_json accepts /api/v1/status and the exposition satisfies the Prometheus text format 0.0.4 grammar (label value escapes \\\\, \\\", \\n only; blanks between tokens tolerated as by the reference Go parser); grouping of a family's samples is not demanded");
    rep.assume("log books are filled through LogBookWriter under a permissive global logger installed by the check");
    if let Err(e) = prom_selftest() {
        eprintln!("C22 preamble failed: {}", e);
        std::process::exit(2);
    }
    let _ = log::set_logger(&SINK);
    log::set_max_level(log::LevelFilter::Trace);
    let kit = Kit::new();
    let rt = runtime();
    let env = Env { kit: &kit, rt: &rt, ctx, exclude: true, judge_status: true, judge_metrics: true, excluded_status: Cell::new(0), excluded_quote: Cell::new(0), excluded_backslash: Cell::new(0), excluded_newline: Cell::new(0) };
    if let Some(v) = replay {
        let t: Tagged<Case> = serde_json::from_value(v.clone()).expect("replay");
        let env = Env { judge_status: t.sub != "directed-metrics", ..env };
        run_case(ctx, rep, &t.sub, &t.case, |c, i| prop(&env, c, i));
        return;
    }
    // directed representatives: one per known key, plus neighbours that must pass
    let all = Env { kit: &kit, rt: &rt, ctx, exclude: false, judge_status: true, judge_metrics: true, excluded_status: Cell::new(0), excluded_quote: Cell::new(0), excluded_backslash: Cell::new(0), excluded_newline: Cell::new(0) };
    let strict_env = |c: &Case, i: &mut CaseInfo| prop(&all, c, i);
    // status: a log message as produced from a remote error containing a control character
    run_case(ctx, rep, "directed", &directed("arin", "rsync: connection reset\tby peer\u{1b}[0m"), strict_env);
    run_case(ctx, rep, "directed", &directed("my \"own\" tal", "plain"), strict_env);
    run_case(ctx, rep, "directed", &directed("dir\\tal", "plain"), strict_env);
    let metrics_only = Env { kit: &kit, rt: &rt, ctx, exclude: false, judge_status: false, judge_metrics: true, excluded_status: Cell::new(0), excluded_quote: Cell::new(0), excluded_backslash: Cell::new(0), excluded_newline: Cell::new(0) };
    run_case(ctx, rep, "directed-metrics", &directed("two\nlines", "plain"), |c, i| prop(&metrics_only, c, i));
    // neighbours: quotes and backslashes in a log message only (status must escape them, /metrics does not render them)
    run_case(ctx, rep, "directed", &directed("apnic", "server said \"no\" at C:\\path"), strict_env);
    run_case(ctx, rep, "directed", &directed("läcnic — ✓ {x=1}, #tag", "non-ascii ünïcödé 😀"), strict_env);
    run_prop(ctx, rep, "docs", ctx.tier.pick(12_000, 300_000), case_strategy(), |c, i| prop(&env, c, i));
    for (k, n) in [(KEY_STATUS_CTL, env.excluded_status.get()), (KEY_LABEL_QUOTE, env.excluded_quote.get()), (KEY_LABEL_BACKSLASH, env.excluded_backslash.get()), (KEY_LABEL_NEWLINE, env.excluded_newline.get())] {
        for _ in 0..n {
            rep.exclude_known(k);
        }
    }
}
