//! Shared helpers of the byte-level checks C26, C27, C28:
//! hex-encoded byte cases, serialisable models of every persisted record with generators,
//! an independent reference encoder / field walker for the binio records, and an independent
//! reader of the on-disk layout of `routinator::utils::archive`.

use std::collections::{BTreeMap, HashMap, HashSet};
use std::hash::Hasher;

use bytes::Bytes;
use chrono::{TimeZone, Utc};
use proptest::prelude::*;
use routinator::collector::verif::RepositoryState;
use routinator::store::{StoredManifest, StoredObject, StoredStatus};
use rpki::repository::x509::{Serial, Time};
use rpki::uri;
use serde::{Deserialize, Serialize};

//------------ Hex -----------------------------------------------------------------------------

/// Raw bytes that serialise as a hex string (replay files stay readable and compact).
#[derive(Clone, PartialEq, Eq, Hash, Default)]
pub struct Hex(pub Vec<u8>);

pub fn to_hex(data: &[u8]) -> String {
    let mut s = String::with_capacity(data.len() * 2);
    for b in data {
        s.push_str(&format!("{:02x}", b));
    }
    s
}

pub fn from_hex(s: &str) -> Result<Vec<u8>, String> {
    let s = s.trim();
    if s.len() % 2 != 0 {
        return Err("odd hex length".into());
    }
    (0..s.len() / 2).map(|i| u8::from_str_radix(&s[2 * i..2 * i + 2], 16).map_err(|e| e.to_string())).collect()
}

impl std::fmt::Debug for Hex {
    fn fmt(&self, f: &mut std::fmt::Formatter) -> std::fmt::Result {
        write!(f, "Hex({})", to_hex(&self.0))
    }
}

impl Serialize for Hex {
    fn serialize<S: serde::Serializer>(&self, s: S) -> Result<S::Ok, S::Error> {
        s.serialize_str(&to_hex(&self.0))
    }
}

impl<'de> Deserialize<'de> for Hex {
    fn deserialize<D: serde::Deserializer<'de>>(d: D) -> Result<Self, D::Error> {
        let s = String::deserialize(d)?;
        from_hex(&s).map(Hex).map_err(serde::de::Error::custom)
    }
}

/// Opaque content: `head` explicit bytes followed by a deterministic pattern up to `len` bytes.
#[derive(Clone, Debug, PartialEq, Eq, Hash, Serialize, Deserialize)]
pub struct MBytes {
    pub len: u32,
    pub seed: u8,
    pub head: Hex,
}

impl MBytes {
    pub fn expand(&self) -> Vec<u8> {
        let len = self.len as usize;
        let mut v = Vec::with_capacity(len);
        for i in 0..len {
            if i < self.head.0.len() {
                v.push(self.head.0[i]);
            } else {
                v.push(self.seed.wrapping_add((i as u8).wrapping_mul(31)).wrapping_add((i >> 8) as u8));
            }
        }
        v
    }
    pub fn bytes(&self) -> Bytes {
        Bytes::from(self.expand())
    }
    pub fn of(data: &[u8]) -> Self {
        MBytes { len: data.len() as u32, seed: 0, head: Hex(data.to_vec()) }
    }
}

/// Content sizes: mostly small, boundary values, occasionally up to `max`.
pub fn mbytes_strategy(max: u32) -> impl Strategy<Value = MBytes> {
    let len = prop_oneof![
        4 => 0u32..40,
        2 => prop_oneof![Just(0u32), Just(1), Just(255), Just(256), Just(257), Just(65535), Just(65536), Just(65537)],
        2 => 0u32..2000,
        1 => 0u32..=max,
    ];
    (len, any::<u8>(), prop::collection::vec(any::<u8>(), 0..12)).prop_map(move |(len, seed, head)| MBytes { len: len.min(max), seed, head: Hex(head) })
}

//------------ URIs ----------------------------------------------------------------------------

/// Characters `rpki::uri` accepts, without '/'.
const URI_CHARS: &[u8] = b"!$%&'()*+,-.0123456789:;=ABCDEFGHIJKLMNOPQRSTUVWXYZ_abcdefghijklmnopqrstuvwxyz~";

fn seg_strategy(max: usize) -> impl Strategy<Value = String> {
    prop_oneof![
        3 => prop::collection::vec(prop::sample::select(b"abcXYZ019-._".to_vec()), 1..=max.min(12)),
        1 => prop::collection::vec(prop::sample::select(URI_CHARS.to_vec()), 1..=max),
    ]
    // no filters (proptest counts local rejects globally): dot segments are rewritten instead
    .prop_map(|v| match String::from_utf8(v).unwrap().as_str() {
        "." => "d".to_string(),
        ".." => ".d".to_string(),
        other => other.to_string(),
    })
}

fn scheme_case(s: &'static str) -> impl Strategy<Value = String> {
    prop_oneof![
        6 => Just(s.to_string()),
        1 => Just(s.to_ascii_uppercase()),
        1 => prop::collection::vec(any::<bool>(), s.len()).prop_map(move |m| s.chars().zip(m).map(|(c, u)| if u { c.to_ascii_uppercase() } else { c }).collect()),
    ]
}

/// rsync URIs from the grammar `uri::Rsync::from_bytes` accepts: any-case scheme, authority, module,
/// 0..=`max_segs` further segments, optional trailing slash. Every value is re-validated by rpki.
pub fn rsync_uri_strategy(max_segs: usize) -> impl Strategy<Value = String> {
    let segs = prop_oneof![
        6 => prop::collection::vec(seg_strategy(24), 0..=max_segs.min(6)),
        1 => prop::collection::vec(seg_strategy(3), 0..=max_segs),
    ];
    (scheme_case("rsync"), seg_strategy(30), seg_strategy(20), segs, any::<bool>())
        .prop_map(|(scheme, host, module, segs, trailing)| {
            let mut s = format!("{}://{}/{}/", scheme, host, module);
            s.push_str(&segs.join("/"));
            if trailing && !segs.is_empty() {
                s.push('/');
            }
            s
        })
        .prop_map(|s| if uri::Rsync::from_slice(s.as_bytes()).is_ok() { s } else { "rsync://fallback.example/m/".to_string() })
}

pub fn https_uri_strategy(max_segs: usize) -> impl Strategy<Value = String> {
    let segs = prop_oneof![
        6 => prop::collection::vec(seg_strategy(24), 0..=max_segs.min(6)),
        1 => prop::collection::vec(seg_strategy(3), 0..=max_segs),
    ];
    (scheme_case("https"), seg_strategy(30), segs, any::<bool>(), any::<bool>())
        .prop_map(|(scheme, host, segs, trailing, bare)| {
            let mut s = format!("{}://{}", scheme, host);
            if !(bare && segs.is_empty()) {
                s.push('/');
            }
            s.push_str(&segs.join("/"));
            if trailing && !segs.is_empty() {
                s.push('/');
            }
            s
        })
        .prop_map(|s| if uri::Https::from_slice(s.as_bytes()).is_ok() { s } else { "https://fallback.example/".to_string() })
}

pub fn rsync(s: &str) -> uri::Rsync {
    uri::Rsync::from_slice(s.as_bytes()).expect("generated rsync URI")
}
pub fn https(s: &str) -> uri::Https {
    uri::Https::from_slice(s.as_bytes()).expect("generated https URI")
}

//------------ Times and serials ---------------------------------------------------------------

/// (seconds, nanoseconds) inside chrono's representable range.
#[derive(Clone, Copy, Debug, PartialEq, Eq, Hash, Serialize, Deserialize)]
pub struct MTime {
    pub secs: i64,
    pub nanos: u32,
}

pub fn chrono_range() -> (i64, i64) {
    (chrono::DateTime::<Utc>::MIN_UTC.timestamp(), chrono::DateTime::<Utc>::MAX_UTC.timestamp())
}

impl MTime {
    pub fn time(&self) -> Time {
        Time::new(Utc.timestamp_opt(self.secs, self.nanos).single().expect("time in range"))
    }
}

pub fn secs_strategy() -> impl Strategy<Value = i64> {
    let (lo, hi) = chrono_range();
    prop_oneof![
        4 => 0i64..4_000_000_000,
        2 => -100_000_000_000i64..100_000_000_000,
        1 => prop_oneof![Just(0i64), Just(-1), Just(1), Just(lo + 1), Just(hi - 1), Just(i32::MAX as i64), Just(i32::MAX as i64 + 1), Just(u32::MAX as i64 + 1), Just(253_402_300_799i64)],
        1 => (lo + 1)..hi,
    ]
}

pub fn mtime_strategy() -> impl Strategy<Value = MTime> {
    (secs_strategy(), prop_oneof![3 => Just(0u32), 1 => 0u32..1_000_000_000]).prop_map(|(secs, nanos)| MTime { secs, nanos })
}

pub fn serial_strategy() -> impl Strategy<Value = Hex> {
    prop_oneof![
        2 => (0u64..1000).prop_map(|n| { let mut a = [0u8; 20]; a[12..].copy_from_slice(&n.to_be_bytes()); a.to_vec() }),
        2 => prop::collection::vec(any::<u8>(), 20).prop_map(|mut v| { v[0] &= 0x7f; v }),
        1 => Just({ let mut a = [0xffu8; 20]; a[0] = 0x7f; a.to_vec() }),
    ]
    .prop_map(Hex)
}

pub fn serial_of(h: &Hex) -> Serial {
    let mut a = [0u8; 20];
    a.copy_from_slice(&h.0);
    Serial::from_array(a).expect("serial with top bit clear")
}

//------------ Record models -------------------------------------------------------------------

#[derive(Clone, Debug, PartialEq, Eq, Hash, Serialize, Deserialize)]
pub struct MHeader {
    pub uri: String,
    pub notify: Option<String>,
    /// true = `UpdateStatus::Success`, false = `LastAttempt`
    pub success: bool,
    pub secs: i64,
}

#[derive(Clone, Debug, PartialEq, Eq, Hash, Serialize, Deserialize)]
pub struct MManifest {
    pub not_after: MTime,
    pub number: Hex,
    pub this_update: MTime,
    pub ca_repository: String,
    pub manifest: MBytes,
    pub crl_uri: String,
    pub crl: MBytes,
}

#[derive(Clone, Debug, PartialEq, Eq, Hash, Serialize, Deserialize)]
pub struct MObject {
    pub uri: String,
    pub hash: Option<Hex>,
    pub content: MBytes,
}

#[derive(Clone, Debug, PartialEq, Eq, Hash, Serialize, Deserialize)]
pub struct MState {
    pub notify: String,
    pub session: Hex,
    pub serial: u64,
    pub updated: i64,
    pub best_before: i64,
    pub last_modified: Option<i64>,
    pub etag: Option<MBytes>,
    /// (serial, hash seed) — expanded to 32-byte hashes; serials are made distinct on conversion.
    pub deltas: Vec<(u64, u8)>,
}

pub fn header_strategy() -> impl Strategy<Value = MHeader> {
    (rsync_uri_strategy(40), prop::option::of(https_uri_strategy(20)), any::<bool>(), secs_strategy()).prop_map(|(uri, notify, success, secs)| MHeader { uri, notify, success, secs })
}

pub fn manifest_strategy(max_bytes: u32) -> impl Strategy<Value = MManifest> {
    (mtime_strategy(), serial_strategy(), mtime_strategy(), rsync_uri_strategy(20), mbytes_strategy(max_bytes), rsync_uri_strategy(20), mbytes_strategy(max_bytes))
        .prop_map(|(not_after, number, this_update, ca_repository, manifest, crl_uri, crl)| MManifest { not_after, number, this_update, ca_repository, manifest, crl_uri, crl })
}

pub fn object_strategy(max_bytes: u32) -> impl Strategy<Value = MObject> {
    (rsync_uri_strategy(300), prop::option::of(prop::collection::vec(any::<u8>(), 32).prop_map(Hex)), mbytes_strategy(max_bytes)).prop_map(|(uri, hash, content)| MObject { uri, hash, content })
}

fn any_i64_ts() -> impl Strategy<Value = i64> {
    prop_oneof![3 => secs_strategy(), 1 => any::<i64>(), 1 => prop_oneof![Just(i64::MIN), Just(i64::MAX), Just(i64::MIN + 1)]]
}

pub fn etag_strategy() -> impl Strategy<Value = MBytes> {
    prop_oneof![
        1 => Just(MBytes::of(b"")),
        2 => "[a-zA-Z0-9]{0,20}".prop_map(|s| MBytes::of(format!("\"{}\"", s).as_bytes())),
        1 => "[a-zA-Z0-9]{0,20}".prop_map(|s| MBytes::of(format!("W/\"{}\"", s).as_bytes())),
        1 => mbytes_strategy(300),
    ]
}

pub fn state_strategy(max_deltas: usize) -> impl Strategy<Value = MState> {
    let deltas = prop_oneof![
        3 => prop::collection::vec((prop_oneof![0u64..50, any::<u64>()], any::<u8>()), 0..6),
        1 => prop::collection::vec((any::<u64>(), any::<u8>()), 0..=max_deltas),
    ];
    (
        https_uri_strategy(20),
        prop::collection::vec(any::<u8>(), 16),
        prop_oneof![Just(0u64), Just(u64::MAX), any::<u64>()],
        any_i64_ts(),
        any_i64_ts(),
        prop::option::of(any_i64_ts()),
        prop::option::of(etag_strategy()),
        deltas,
    )
        .prop_map(|(notify, session, serial, updated, best_before, last_modified, etag, deltas)| MState { notify, session: Hex(session), serial, updated, best_before, last_modified, etag, deltas })
}

pub fn hash_of_seed(seed: u8, serial: u64) -> [u8; 32] {
    let mut h = [0u8; 32];
    for (i, b) in h.iter_mut().enumerate() {
        *b = seed.wrapping_mul(7).wrapping_add(i as u8).wrapping_add(serial as u8);
    }
    h
}

impl MManifest {
    pub fn to_real(&self) -> StoredManifest {
        StoredManifest {
            not_after: self.not_after.time(),
            manifest_number: serial_of(&self.number),
            this_update: self.this_update.time(),
            ca_repository: rsync(&self.ca_repository),
            manifest: self.manifest.bytes(),
            crl_uri: rsync(&self.crl_uri),
            crl: self.crl.bytes(),
        }
    }
}

impl MObject {
    pub fn to_real(&self) -> StoredObject {
        use rpki::repository::manifest::ManifestHash;
        use rpki::crypto::DigestAlgorithm;
        StoredObject::new(rsync(&self.uri), self.content.bytes(), self.hash.as_ref().map(|h| ManifestHash::new(Bytes::from(h.0.clone()), DigestAlgorithm::sha256())))
    }
}

impl MState {
    /// Delta entries with duplicate serials removed (first wins), as a map needs.
    pub fn delta_entries(&self) -> Vec<(u64, [u8; 32])> {
        let mut seen = HashSet::new();
        self.deltas.iter().filter(|(s, _)| seen.insert(*s)).map(|(s, h)| (*s, hash_of_seed(*h, *s))).collect()
    }
    pub fn to_real(&self) -> RepositoryState {
        let mut session = [0u8; 16];
        session.copy_from_slice(&self.session.0);
        RepositoryState {
            rpki_notify: https(&self.notify),
            session: uuid::Uuid::from_bytes(session),
            serial: self.serial,
            updated_ts: self.updated,
            best_before_ts: self.best_before,
            last_modified_ts: self.last_modified,
            etag: self.etag.as_ref().map(|e| e.bytes()),
            delta_state: self.delta_entries().into_iter().map(|(s, h)| (s, rpki::rrdp::Hash::from(h))).collect(),
        }
    }
}

pub fn status_of(t: &MTime) -> StoredStatus {
    StoredStatus::new(t.time())
}

//------------ Reference encoder ---------------------------------------------------------------
//
// Written from the format description in binio.rs / store.rs / rrdp/archive.rs, not by calling them.
// Every encoder also records where its length / tag fields are, so mutations can be aimed at them.

/// Kind of a structurally interesting field inside an encoding.
#[derive(Clone, Copy, Debug, PartialEq, Eq, Hash, Serialize, Deserialize)]
pub enum FieldKind {
    Version,
    Tag,
    Len32,
    Len64,
    Count64,
    Int64,
    Body,
}

#[derive(Clone, Debug)]
pub struct Field {
    pub name: &'static str,
    pub kind: FieldKind,
    pub off: usize,
    pub len: usize,
}

#[derive(Default, Clone, Debug)]
pub struct Enc {
    pub data: Vec<u8>,
    pub fields: Vec<Field>,
}

impl Enc {
    fn put(&mut self, name: &'static str, kind: FieldKind, bytes: &[u8]) {
        self.fields.push(Field { name, kind, off: self.data.len(), len: bytes.len() });
        self.data.extend_from_slice(bytes);
    }
    fn uri(&mut self, name: &'static str, s: &str) {
        self.put(name, FieldKind::Len32, &(s.len() as u32).to_be_bytes());
        self.put(name, FieldKind::Body, s.as_bytes());
    }
    fn bytes(&mut self, name: &'static str, b: &[u8]) {
        self.put(name, FieldKind::Len64, &(b.len() as u64).to_be_bytes());
        self.put(name, FieldKind::Body, b);
    }
    fn i64(&mut self, name: &'static str, v: i64) {
        self.put(name, FieldKind::Int64, &v.to_be_bytes());
    }
    /// Appends another encoding, shifting its field offsets.
    pub fn append(&mut self, other: &Enc) {
        let base = self.data.len();
        self.data.extend_from_slice(&other.data);
        self.fields.extend(other.fields.iter().map(|f| Field { off: f.off + base, ..f.clone() }));
    }
}

pub fn enc_header(h: &MHeader) -> Enc {
    let mut e = Enc::default();
    e.put("version", FieldKind::Version, &[2]);
    e.uri("manifest_uri", &h.uri);
    match &h.notify {
        Some(n) => e.uri("rpki_notify", n),
        None => e.put("rpki_notify", FieldKind::Len32, &0u32.to_be_bytes()),
    }
    e.put("update_status", FieldKind::Tag, &[if h.success { 0 } else { 1 }]);
    e.i64("status_time", h.secs);
    e
}

pub fn enc_manifest(m: &MManifest) -> Enc {
    let mut e = Enc::default();
    e.i64("not_after", m.not_after.secs);
    e.put("manifest_number", FieldKind::Body, &m.number.0);
    e.i64("this_update", m.this_update.secs);
    e.uri("ca_repository", &m.ca_repository);
    e.bytes("manifest", &m.manifest.expand());
    e.uri("crl_uri", &m.crl_uri);
    e.bytes("crl", &m.crl.expand());
    e
}

pub fn enc_object(o: &MObject) -> Enc {
    let mut e = Enc::default();
    e.uri("uri", &o.uri);
    match &o.hash {
        Some(h) => {
            e.put("hash_type", FieldKind::Tag, &[1]);
            e.put("hash", FieldKind::Body, &h.0);
        }
        None => e.put("hash_type", FieldKind::Tag, &[0]),
    }
    e.bytes("content", &o.content.expand());
    e
}

pub fn enc_status(t: &MTime) -> Enc {
    let mut e = Enc::default();
    e.put("version", FieldKind::Version, &[0]);
    e.i64("last_update", t.secs);
    e
}

/// The map is written in the order of `delta_entries()`; the real encoder's order is the HashMap's.
pub fn enc_state(s: &MState) -> Enc {
    let mut e = Enc::default();
    e.put("version", FieldKind::Version, &[1]);
    e.uri("rpki_notify", &s.notify);
    e.put("session", FieldKind::Body, &s.session.0);
    e.put("serial", FieldKind::Int64, &s.serial.to_be_bytes());
    e.i64("updated_ts", s.updated);
    e.i64("best_before_ts", s.best_before);
    match s.last_modified {
        Some(v) => {
            e.put("last_modified_opt", FieldKind::Tag, &[1]);
            e.i64("last_modified_ts", v);
        }
        None => e.put("last_modified_opt", FieldKind::Tag, &[0]),
    }
    match &s.etag {
        Some(t) => e.bytes("etag", &t.expand()),
        None => e.put("etag", FieldKind::Len64, &u64::MAX.to_be_bytes()),
    }
    let entries = s.delta_entries();
    e.put("delta_state", FieldKind::Count64, &(entries.len() as u64).to_be_bytes());
    for (serial, hash) in entries {
        e.put("delta_serial", FieldKind::Int64, &serial.to_be_bytes());
        e.put("delta_hash", FieldKind::Body, &hash);
    }
    e
}

//------------ Field walker (pre-screen of corrupt records) -------------------------------------

/// The binio decoding site a length field is consumed by.
#[derive(Clone, Copy, Debug, PartialEq, Eq, Hash, PartialOrd, Ord)]
pub enum Site {
    RsyncLen,
    HttpsLen,
    OptHttpsLen,
    BytesLen,
    OptBytesLen,
    MapCount,
}

impl Site {
    pub fn name(self) -> &'static str {
        match self {
            Site::RsyncLen => "rsync-uri-len",
            Site::HttpsLen => "https-uri-len",
            Site::OptHttpsLen => "opt-https-uri-len",
            Site::BytesLen => "bytes-len",
            Site::OptBytesLen => "opt-bytes-len",
            Site::MapCount => "map-count",
        }
    }
    pub const ALL: [Site; 6] = [Site::RsyncLen, Site::HttpsLen, Site::OptHttpsLen, Site::BytesLen, Site::OptBytesLen, Site::MapCount];
}

/// Why the walk over a record stopped.
#[derive(Clone, Debug, PartialEq, Eq)]
pub enum Stop {
    /// The record is complete; this many bytes were consumed.
    Done(usize),
    /// Input ended inside the named field.
    Eof(&'static str),
    /// A value the decoder must reject.
    Format(&'static str),
    /// A length / count field asks for more than `limit` bytes: the decoder would allocate it before
    /// noticing the input is shorter.
    Oversize { site: Site, field: &'static str, value: u64 },
}

#[derive(Clone, Debug)]
pub struct Walk {
    /// Fields completely consumed before the stop.
    pub fields_ok: usize,
    pub stop: Stop,
}

/// Bytes `HashMap::<u64, rrdp::Hash>::with_capacity(max(count, 65536))` asks the allocator for in one
/// request (hashbrown: buckets = next_power_of_two(cap * 8 / 7), 40-byte entries + 1 control byte per
/// bucket + 16). None = the computation overflows (capacity-overflow panic). Checked against the
/// allocator's measurement for valid records in the C27 preamble.
pub fn map_alloc_bytes(count: u64) -> Option<u64> {
    let cap = count.max(65536);
    let buckets = (cap.checked_mul(8)? / 7).checked_next_power_of_two()?;
    let data = buckets.checked_mul(40)?.checked_add(15)? & !15;
    let total = data.checked_add(buckets)?.checked_add(16)?;
    if total > isize::MAX as u64 {
        return None;
    }
    Some(total)
}

struct Cur<'a> {
    data: &'a [u8],
    pos: usize,
    limit: u64,
    ok: usize,
}

type W<T> = Result<T, Stop>;

impl<'a> Cur<'a> {
    fn take(&mut self, n: usize, field: &'static str) -> W<&'a [u8]> {
        if self.data.len() - self.pos < n {
            return Err(Stop::Eof(field));
        }
        let s = &self.data[self.pos..self.pos + n];
        self.pos += n;
        Ok(s)
    }
    fn u8(&mut self, f: &'static str) -> W<u8> {
        Ok(self.take(1, f)?[0])
    }
    fn u32(&mut self, f: &'static str) -> W<u32> {
        Ok(u32::from_be_bytes(self.take(4, f)?.try_into().unwrap()))
    }
    fn u64(&mut self, f: &'static str) -> W<u64> {
        Ok(u64::from_be_bytes(self.take(8, f)?.try_into().unwrap()))
    }
    fn i64(&mut self, f: &'static str) -> W<i64> {
        Ok(self.u64(f)? as i64)
    }
    fn done_field(&mut self) {
        self.ok += 1;
    }
    fn body(&mut self, len: u64, site: Site, f: &'static str) -> W<&'a [u8]> {
        if len > self.limit {
            return Err(Stop::Oversize { site, field: f, value: len });
        }
        self.take(len as usize, f)
    }
    fn time(&mut self, f: &'static str) -> W<()> {
        let t = self.i64(f)?;
        if Utc.timestamp_opt(t, 0).single().is_none() {
            return Err(Stop::Format("timestamp out of range"));
        }
        self.done_field();
        Ok(())
    }
    fn rsync(&mut self, f: &'static str) -> W<()> {
        let len = self.u32(f)? as u64;
        let body = self.body(len, Site::RsyncLen, f)?;
        if uri::Rsync::from_slice(body).is_err() {
            return Err(Stop::Format("bad rsync URI"));
        }
        self.done_field();
        Ok(())
    }
    fn https(&mut self, f: &'static str) -> W<()> {
        let len = self.u32(f)? as u64;
        let body = self.body(len, Site::HttpsLen, f)?;
        if uri::Https::from_slice(body).is_err() {
            return Err(Stop::Format("bad https URI"));
        }
        self.done_field();
        Ok(())
    }
    fn opt_https(&mut self, f: &'static str) -> W<()> {
        let len = self.u32(f)? as u64;
        if len != 0 {
            let body = self.body(len, Site::OptHttpsLen, f)?;
            if uri::Https::from_slice(body).is_err() {
                return Err(Stop::Format("bad https URI"));
            }
        }
        self.done_field();
        Ok(())
    }
    fn bytes(&mut self, f: &'static str) -> W<()> {
        let len = self.u64(f)?;
        self.body(len, Site::BytesLen, f)?;
        self.done_field();
        Ok(())
    }
    fn opt_bytes(&mut self, f: &'static str) -> W<()> {
        let len = self.u64(f)?;
        if len != u64::MAX {
            self.body(len, Site::OptBytesLen, f)?;
        }
        self.done_field();
        Ok(())
    }
    fn fixed(&mut self, n: usize, f: &'static str) -> W<()> {
        self.take(n, f)?;
        self.done_field();
        Ok(())
    }
}

fn walk_header_in(c: &mut Cur) -> W<bool> {
    if c.u8("version")? != 2 {
        return Err(Stop::Format("version"));
    }
    c.done_field();
    c.rsync("manifest_uri")?;
    c.opt_https("rpki_notify")?;
    let tag = c.u8("update_status")?;
    if tag > 1 {
        return Err(Stop::Format("update status"));
    }
    c.done_field();
    c.time("status_time")?;
    Ok(tag == 0)
}

fn walk_manifest_in(c: &mut Cur) -> W<()> {
    c.time("not_after")?;
    let s = c.take(20, "manifest_number")?;
    if s[0] & 0x80 != 0 {
        return Err(Stop::Format("serial"));
    }
    c.done_field();
    c.time("this_update")?;
    c.rsync("ca_repository")?;
    c.bytes("manifest")?;
    c.rsync("crl_uri")?;
    c.bytes("crl")
}

/// Ok(false) = clean end of input before the object.
fn walk_object_in(c: &mut Cur) -> W<bool> {
    let start = c.pos;
    match c.rsync("uri") {
        Ok(()) => {}
        // `StoredObject::read` maps an early end of input inside the URI to "no more objects".
        Err(Stop::Eof(_)) => {
            let _ = start;
            return Ok(false);
        }
        Err(e) => return Err(e),
    }
    match c.u8("hash_type")? {
        0 => {}
        1 => {
            c.take(32, "hash")?;
        }
        _ => return Err(Stop::Format("hash type")),
    }
    c.done_field();
    c.bytes("content")?;
    Ok(true)
}

fn walk_status_in(c: &mut Cur) -> W<()> {
    if c.u8("version")? != 0 {
        return Err(Stop::Format("version"));
    }
    c.done_field();
    c.time("last_update")
}

fn walk_state_in(c: &mut Cur) -> W<()> {
    if c.u8("version")? != 1 {
        return Err(Stop::Format("version"));
    }
    c.done_field();
    c.https("rpki_notify")?;
    c.fixed(16, "session")?;
    c.fixed(8, "serial")?;
    c.fixed(8, "updated_ts")?;
    c.fixed(8, "best_before_ts")?;
    match c.u8("last_modified_opt")? {
        0 => {}
        1 => {
            c.take(8, "last_modified_ts")?;
        }
        _ => return Err(Stop::Format("option tag")),
    }
    c.done_field();
    c.opt_bytes("etag")?;
    let count = c.u64("delta_state")?;
    if map_alloc_bytes(count).map(|b| b > c.limit).unwrap_or(true) {
        return Err(Stop::Oversize { site: Site::MapCount, field: "delta_state", value: count });
    }
    c.done_field();
    let mut seen = HashSet::new();
    for _ in 0..count {
        let k = c.u64("delta_serial")?;
        c.take(32, "delta_hash")?;
        if !seen.insert(k) {
            return Err(Stop::Format("duplicate keys"));
        }
    }
    c.done_field();
    Ok(())
}

/// Which record layout to walk.
#[derive(Clone, Copy, Debug, PartialEq, Eq, Hash, Serialize, Deserialize, PartialOrd, Ord)]
pub enum Rec {
    Header,
    Manifest,
    Objects,
    Status,
    State,
    /// header, then (if status = success) manifest, then objects until the end: a stored-point file.
    Point,
}

impl Rec {
    pub const ALL: [Rec; 6] = [Rec::Header, Rec::Manifest, Rec::Objects, Rec::Status, Rec::State, Rec::Point];
    pub fn name(self) -> &'static str {
        match self {
            Rec::Header => "header",
            Rec::Manifest => "manifest",
            Rec::Objects => "objects",
            Rec::Status => "status",
            Rec::State => "state",
            Rec::Point => "point",
        }
    }
    pub fn id(self) -> u8 {
        Rec::ALL.iter().position(|r| *r == self).unwrap() as u8
    }
    pub fn from_id(id: u8) -> Option<Rec> {
        Rec::ALL.get(id as usize).copied()
    }
}

/// Single-request allocation bound of the property: max(16 MiB, 64 x input length).
pub fn alloc_limit(input_len: usize) -> u64 {
    std::cmp::max(16u64 << 20, 64 * input_len as u64)
}

/// Walks `data` the way the decoder for `rec` consumes it, without allocating what length fields ask for.
pub fn walk(rec: Rec, data: &[u8], limit: u64) -> Walk {
    let mut c = Cur { data, pos: 0, limit, ok: 0 };
    let res: W<()> = (|| {
        match rec {
            Rec::Header => {
                walk_header_in(&mut c)?;
            }
            Rec::Manifest => walk_manifest_in(&mut c)?,
            Rec::Status => walk_status_in(&mut c)?,
            Rec::State => walk_state_in(&mut c)?,
            Rec::Objects => while walk_object_in(&mut c)? {},
            Rec::Point => {
                if walk_header_in(&mut c)? {
                    walk_manifest_in(&mut c)?;
                }
                while walk_object_in(&mut c)? {}
            }
        }
        Ok(())
    })();
    let stop = match res {
        Ok(()) => Stop::Done(c.pos),
        Err(s) => s,
    };
    Walk { fields_ok: c.ok, stop }
}

//------------ Archive file layout (independent reader) -----------------------------------------

pub const ARCH_MAGIC: [u8; 6] = [b'R', b'T', b'N', b'R', 1, b'C'];
pub const ARCH_META_END: u64 = 6 + 16 + 8;
pub const OBJ_HEADER: u64 = 8 + 8 + 1 + 8 + 8;
pub const PAGE: u64 = 256;

/// The bytes of an empty archive with the given hash key and bucket count.
pub fn empty_archive(key: [u8; 16], buckets: u64) -> Vec<u8> {
    let mut v = Vec::new();
    v.extend_from_slice(&ARCH_MAGIC);
    v.extend_from_slice(&key);
    v.extend_from_slice(&buckets.to_ne_bytes());
    v.resize(v.len() + ((buckets + 1) * 8) as usize, 0);
    v
}

pub fn sip_bucket(key: &[u8; 16], name: &[u8], buckets: u64) -> Option<u64> {
    if buckets == 0 {
        return None;
    }
    let mut h = siphasher::sip::SipHasher24::new_with_key(key);
    h.write(name);
    Some(h.finish() % buckets)
}

#[derive(Clone, Debug)]
pub struct RawHeader {
    pub size: u64,
    pub next: u64,
    pub empty_flag: u8,
    pub name_len: u64,
    pub data_len: u64,
}

pub fn raw_header(file: &[u8], pos: u64) -> Option<RawHeader> {
    let p = usize::try_from(pos).ok()?;
    let end = p.checked_add(OBJ_HEADER as usize)?;
    if end > file.len() {
        return None;
    }
    let u = |o: usize| u64::from_ne_bytes(file[p + o..p + o + 8].try_into().unwrap());
    Some(RawHeader { size: u(0), next: u(8), empty_flag: file[p + 16], name_len: u(17), data_len: u(25) })
}

#[derive(Clone, Debug)]
pub struct Block {
    pub pos: u64,
    pub size: u64,
    pub empty: bool,
    /// bucket index for objects
    pub bucket: Option<u64>,
    pub name: Vec<u8>,
    pub meta: Vec<u8>,
    pub data: Vec<u8>,
}

#[derive(Clone, Debug)]
pub struct Layout {
    pub key: [u8; 16],
    pub buckets: u64,
    pub index_end: u64,
    pub file_len: u64,
    /// all blocks reachable through the index, sorted by position
    pub blocks: Vec<Block>,
}

/// Reads a *consistent* archive file completely and proves that objects and free blocks tile
/// [index_end, file_len) without gap or overlap; any deviation is an error string.
pub fn read_layout(file: &[u8], meta_size: u64) -> Result<Layout, (&'static str, String)> {
    if file.len() < ARCH_META_END as usize || file[..6] != ARCH_MAGIC {
        return Err(("header", "bad magic or short file".into()));
    }
    let mut key = [0u8; 16];
    key.copy_from_slice(&file[6..22]);
    let buckets = u64::from_ne_bytes(file[22..30].try_into().unwrap());
    if buckets == 0 || buckets > (1 << 20) {
        return Err(("header", format!("bucket count {}", buckets)));
    }
    let index_end = ARCH_META_END + (buckets + 1) * 8;
    let file_len = file.len() as u64;
    if file_len < index_end {
        return Err(("header", format!("file of {} bytes shorter than its index (ends at {})", file_len, index_end)));
    }
    let index = |i: u64| u64::from_ne_bytes(file[(ARCH_META_END + i * 8) as usize..(ARCH_META_END + i * 8 + 8) as usize].try_into().unwrap());
    let mut seen: HashSet<u64> = HashSet::new();
    let mut blocks = Vec::new();
    for b in 0..=buckets {
        let is_empty_chain = b == buckets;
        let mut pos = index(b);
        while pos != 0 {
            if !seen.insert(pos) {
                return Err(("reachable-twice", format!("block at {} reachable twice (chain of bucket {})", pos, b)));
            }
            if pos < index_end {
                return Err(("points-into-index", format!("chain of bucket {} points into the index ({})", b, pos)));
            }
            let h = raw_header(file, pos).ok_or_else(|| ("header-beyond-eof", format!("header at {} beyond end of file", pos)))?;
            if h.empty_flag > 1 {
                return Err(("empty-flag", format!("block at {}: empty flag {}", pos, h.empty_flag)));
            }
            let empty = h.empty_flag == 1;
            if empty != is_empty_chain {
                return Err(("wrong-chain", format!("block at {} has empty flag {} but is linked from {}", pos, empty, if is_empty_chain { "the free chain".to_string() } else { format!("bucket {}", b) })));
            }
            if h.size < OBJ_HEADER || pos.checked_add(h.size).map(|e| e > file_len).unwrap_or(true) {
                return Err(("size-out-of-file", format!("block at {} size {} leaves the file ({} bytes)", pos, h.size, file_len)));
            }
            let mut blk = Block { pos, size: h.size, empty, bucket: None, name: vec![], meta: vec![], data: vec![] };
            if !empty {
                let need = OBJ_HEADER.checked_add(h.name_len).and_then(|v| v.checked_add(meta_size)).and_then(|v| v.checked_add(h.data_len));
                match need {
                    Some(n) if n <= h.size => {}
                    _ => return Err(("content-exceeds-block", format!("object at {}: header+name({})+meta+data({}) exceed block size {}", pos, h.name_len, h.data_len, h.size))),
                }
                let p = (pos + OBJ_HEADER) as usize;
                let nl = h.name_len as usize;
                let ms = meta_size as usize;
                blk.name = file[p..p + nl].to_vec();
                blk.meta = file[p + nl..p + nl + ms].to_vec();
                blk.data = file[p + nl + ms..p + nl + ms + h.data_len as usize].to_vec();
                if sip_bucket(&key, &blk.name, buckets) != Some(b) {
                    return Err(("wrong-bucket", format!("object at {} is linked from bucket {} but its name hashes elsewhere", pos, b)));
                }
                blk.bucket = Some(b);
            }
            blocks.push(blk);
            pos = h.next;
        }
    }
    blocks.sort_by_key(|b| b.pos);
    // Tiling through the chains: consecutive, starting at the index end, ending at the file end.
    let mut at = index_end;
    for b in &blocks {
        if b.pos != at {
            return Err((if b.pos > at { "gap" } else { "overlap" }, format!("{} at {}: expected a block at {}", if b.empty { "free block" } else { "object" }, b.pos, at)));
        }
        at = b.pos + b.size;
    }
    if at != file_len {
        return Err(("tail", format!("blocks end at {} but the file has {} bytes (unaccounted tail)", at, file_len)));
    }
    // Tiling by a linear scan that ignores the index: must visit exactly the same block starts.
    let mut at = index_end;
    let mut linear = Vec::new();
    while at < file_len {
        let h = raw_header(file, at).ok_or_else(|| ("linear-scan", format!("linear scan: header at {} beyond end of file", at)))?;
        if h.size < OBJ_HEADER {
            return Err(("linear-scan", format!("linear scan: block at {} has size {}", at, h.size)));
        }
        linear.push(at);
        at = at.checked_add(h.size).ok_or(("linear-scan", "overflow".to_string()))?;
    }
    if at != file_len || linear != blocks.iter().map(|b| b.pos).collect::<Vec<_>>() {
        return Err(("linear-scan", "linear scan of the data area visits different blocks than the index chains".into()));
    }
    Ok(Layout { key, buckets, index_end, file_len, blocks })
}

impl Layout {
    pub fn objects(&self) -> impl Iterator<Item = &Block> {
        self.blocks.iter().filter(|b| !b.empty)
    }
    pub fn free(&self) -> impl Iterator<Item = &Block> {
        self.blocks.iter().filter(|b| b.empty)
    }
    pub fn object_map(&self) -> BTreeMap<Vec<u8>, (Vec<u8>, Vec<u8>)> {
        self.objects().map(|b| (b.name.clone(), (b.meta.clone(), b.data.clone()))).collect()
    }
}

//------------ Hazard screen of a possibly corrupt archive file ---------------------------------

/// Shapes of a corrupt archive file on which the reader is suspected not to return.
#[derive(Clone, Debug, PartialEq, Eq, Hash, PartialOrd, Ord)]
pub enum ArchHazard {
    /// bucket count 0: `hash % 0` in every name lookup.
    BucketCountZero,
    /// a chain walk as done by `verify` (hash-checked bucket chains, then the free chain) revisits a block.
    CycleVerify,
    /// the chain of the bucket `name` hashes to revisits a block before `name` is found.
    CycleFind(Vec<u8>),
    /// the chain walk of `objects()` revisits a block.
    CycleObjects,
}

pub struct RawArchive<'a> {
    pub file: &'a [u8],
    pub key: [u8; 16],
    pub buckets: u64,
}

impl<'a> RawArchive<'a> {
    pub fn open(file: &'a [u8]) -> Option<Self> {
        if file.len() < ARCH_META_END as usize || file[..6] != ARCH_MAGIC {
            return None;
        }
        let mut key = [0u8; 16];
        key.copy_from_slice(&file[6..22]);
        Some(RawArchive { file, key, buckets: u64::from_ne_bytes(file[22..30].try_into().unwrap()) })
    }

    /// Mirrors `get_index`: None = read error.
    fn index(&self, i: u64) -> Option<u64> {
        let pos = ARCH_META_END.wrapping_add(i.wrapping_mul(8));
        self.u64_at(pos)
    }
    fn empty_index(&self) -> Option<u64> {
        let pos = ARCH_META_END.wrapping_add((self.buckets as usize).wrapping_mul(8) as u64);
        self.u64_at(pos)
    }
    fn u64_at(&self, pos: u64) -> Option<u64> {
        let p = usize::try_from(pos).ok()?;
        let e = p.checked_add(8)?;
        if e > self.file.len() {
            return None;
        }
        Some(u64::from_ne_bytes(self.file[p..e].try_into().unwrap()))
    }
    /// Mirrors `ObjectHeader::read_from` (+ bool check).
    fn header(&self, pos: u64) -> Option<RawHeader> {
        let h = raw_header(self.file, pos)?;
        if h.empty_flag > 1 {
            return None;
        }
        Some(h)
    }
    fn name(&self, pos: u64, h: &RawHeader) -> Option<&'a [u8]> {
        let p = usize::try_from(pos).ok()?.checked_add(OBJ_HEADER as usize)?;
        let e = p.checked_add(usize::try_from(h.name_len).ok()?)?;
        if e > self.file.len() {
            return None;
        }
        Some(&self.file[p..e])
    }

    /// Does `find(name)` revisit a block?  Some(true) = cycle, Some(false) = terminates, None = n/a (bucket count 0).
    pub fn find_cycles(&self, name: &[u8]) -> Option<bool> {
        let b = sip_bucket(&self.key, name, self.buckets)?;
        let mut seen = HashSet::new();
        let mut pos = match self.index(b) {
            Some(p) => p,
            None => return Some(false),
        };
        while pos != 0 {
            if !seen.insert(pos) {
                return Some(true);
            }
            let Some(h) = self.header(pos) else { return Some(false) };
            let Some(n) = self.name(pos, &h) else { return Some(false) };
            if n == name {
                return Some(false);
            }
            pos = h.next;
        }
        Some(false)
    }

    /// Position and header of the object `name`, as `find` would return it (only if the walk terminates).
    pub fn find(&self, name: &[u8]) -> Option<(u64, RawHeader)> {
        let b = sip_bucket(&self.key, name, self.buckets)?;
        let mut seen = HashSet::new();
        let mut pos = self.index(b)?;
        while pos != 0 {
            if !seen.insert(pos) {
                return None;
            }
            let h = self.header(pos)?;
            let n = self.name(pos, &h)?;
            if n == name {
                return Some((pos, h));
            }
            pos = h.next;
        }
        None
    }

    /// Content of the object `name` as `fetch` would return it.
    pub fn fetch(&self, name: &[u8], meta_size: u64) -> Option<&'a [u8]> {
        let (pos, h) = self.find(name)?;
        let p = usize::try_from(pos.checked_add(OBJ_HEADER)?.checked_add(meta_size)?.checked_add(h.name_len)?).ok()?;
        let e = p.checked_add(usize::try_from(h.data_len).ok()?)?;
        if e > self.file.len() {
            return None;
        }
        Some(&self.file[p..e])
    }

    pub fn verify_cycles(&self) -> bool {
        // Step 1: buckets in order; the walk ends with an error at the first unreadable index slot.
        let mut b = 0u64;
        while b < self.buckets {
            let Some(mut pos) = self.index(b) else { return false };
            let mut seen = HashSet::new();
            while pos != 0 {
                if !seen.insert(pos) {
                    return true;
                }
                let Some(h) = self.header(pos) else { return false };
                let Some(n) = self.name(pos, &h) else { return false };
                if sip_bucket(&self.key, n, self.buckets) != Some(b) {
                    return false;
                }
                pos = h.next;
            }
            b += 1;
        }
        // Step 2: free chain.
        let Some(mut pos) = self.empty_index() else { return false };
        let mut seen = HashSet::new();
        while pos != 0 {
            if !seen.insert(pos) {
                return true;
            }
            let Some(h) = self.header(pos) else { return false };
            pos = h.next;
        }
        false
    }

    pub fn objects_cycles(&self, meta_size: u64) -> bool {
        let mut b = 0u64;
        loop {
            let Some(mut pos) = self.index(b) else { return false };
            let mut seen = HashSet::new();
            while pos != 0 {
                if !seen.insert(pos) {
                    return true;
                }
                let Some(h) = self.header(pos) else { return false };
                // name, meta and data must be readable
                let total = OBJ_HEADER.checked_add(h.name_len).and_then(|v| v.checked_add(meta_size)).and_then(|v| v.checked_add(h.data_len)).and_then(|v| v.checked_add(pos));
                match total {
                    Some(t) if t <= self.file.len() as u64 => {}
                    _ => return false,
                }
                pos = h.next;
            }
            b += 1;
            if b >= self.buckets {
                return false;
            }
        }
    }
}

/// All hazards of `file` for the reader calls the C27 worker makes (`probes` = names looked up).
pub fn archive_hazards(file: &[u8], meta_size: u64, probes: &[Vec<u8>]) -> Vec<ArchHazard> {
    let mut out = Vec::new();
    let Some(a) = RawArchive::open(file) else { return out };
    if a.buckets == 0 {
        out.push(ArchHazard::BucketCountZero);
    }
    if a.verify_cycles() {
        out.push(ArchHazard::CycleVerify);
    }
    for p in probes {
        if a.find_cycles(p) == Some(true) {
            out.push(ArchHazard::CycleFind(p.clone()));
        }
    }
    if a.objects_cycles(meta_size) {
        out.push(ArchHazard::CycleObjects);
    }
    out
}

/// Names, positions of a valid archive — used to aim mutations.
pub fn layout_positions(file: &[u8], meta_size: u64) -> Option<(Layout, HashMap<Vec<u8>, u64>)> {
    let l = read_layout(file, meta_size).ok()?;
    let m = l.objects().map(|b| (b.name.clone(), b.pos)).collect();
    Some((l, m))
}
