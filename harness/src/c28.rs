//! C28 Every persisted record reads back as written.
//!
//! Oracle (from the statement): for every record type, `read(write(v)) == v` (Time fields at the whole
//! second the format stores) and the reader consumes exactly the bytes the writer produced — shown by
//! decoding records that are concatenated in one buffer one after the other, with a sentinel after the
//! last. Stored-point files are additionally written through `StoredPoint::update` with a real `Store`
//! and read back with `StoredPoint::load_quietly`.

use std::sync::atomic::{AtomicU64, Ordering};

use chrono::{TimeZone, Utc};
use proptest::prelude::*;
use routinator::collector::verif::RepositoryState;
use routinator::config::Config;
use routinator::store::{Store, StoredManifest, StoredObject, StoredPoint, StoredPointHeader, StoredStatus};
use rpki::repository::x509::Time;
use serde::{Deserialize, Serialize};

use crate::bx::*;
use crate::core::*;

const SENTINEL: [u8; 3] = [0xA5, 0x5A, 0xC3];

#[derive(Clone, Debug, Serialize, Deserialize)]
pub enum AnyRec {
    Header(MHeader),
    /// header built by the public constructor (`LastAttempt(now)`)
    NewHeader { uri: String, notify: Option<String> },
    Manifest(MManifest),
    Object(MObject),
    Status(MTime),
    State(MState),
}

fn whole(t: &MTime) -> Time {
    Time::new(Utc.timestamp_opt(t.secs, 0).single().expect("time in range"))
}

fn expected_manifest(m: &MManifest) -> StoredManifest {
    let mut v = m.to_real();
    v.not_after = whole(&m.not_after);
    v.this_update = whole(&m.this_update);
    v
}

/// A record prepared for the sequence test: what was appended and how to judge what is read back.
enum Written {
    Header(StoredPointHeader),
    Manifest(StoredManifest),
    Object(StoredObject),
    Status(Time),
    State(RepositoryState),
}

fn fail(kind: &str, what: &str, msg: String) -> Verdict {
    Verdict::fail(format!("C28/{}/{}", kind, what), msg)
}

/// Decodes the header from the reference encoding (the only public way to obtain an arbitrary status).
/// Err(Dropped) if the reference encoding and the decoder disagree on the format (checked by the preamble).
fn header_value(h: &MHeader) -> Result<StoredPointHeader, Verdict> {
    let enc = enc_header(h).data;
    let mut slice = enc.as_slice();
    match StoredPointHeader::read(&mut slice) {
        Ok(v) if slice.is_empty() => Ok(v),
        Ok(_) => Err(Verdict::Dropped("reference_header_not_fully_consumed".into())),
        Err(e) => Err(Verdict::Dropped(format!("reference_header_rejected:{}", e))),
    }
}

fn caught(kind: &str, r: Result<Verdict, String>) -> Verdict {
    match r {
        Ok(v) => v,
        Err(p) => fail(kind, "panic", format!("reader/writer panicked: {}", p)),
    }
}

pub fn judge_sequence(recs: &[AnyRec], info: &mut CaseInfo) -> Verdict {
    caught("sequence", catch(|| judge_sequence_in(recs, info)))
}

fn judge_sequence_in(recs: &[AnyRec], info: &mut CaseInfo) -> Verdict {
    let mut buf: Vec<u8> = Vec::new();
    let mut written: Vec<(Written, usize)> = Vec::new();
    let mut present = 0;
    let mut absent = 0;
    let mut map2 = false;
    let mut subsecond = false;
    for r in recs {
        let w = match r {
            AnyRec::Header(h) => {
                info.class("rec=header");
                if h.notify.is_some() { present += 1 } else { absent += 1 }
                let v = match header_value(h) {
                    Ok(v) => v,
                    Err(d) => return d,
                };
                if let Err(e) = v.write(&mut buf) {
                    return fail("header", "write-error", e.to_string());
                }
                Written::Header(v)
            }
            AnyRec::NewHeader { uri, notify } => {
                info.class("rec=new-header");
                if notify.is_some() { present += 1 } else { absent += 1 }
                let v = StoredPointHeader::new(rsync(uri), notify.as_deref().map(https));
                let before = buf.len();
                if let Err(e) = v.write(&mut buf) {
                    return fail("header", "write-error", e.to_string());
                }
                // the constructor's values must be the ones encoded: compare with the reference
                // encoding of (uri, notify, LastAttempt, <the second found in the bytes>)
                let b = &buf[before..];
                if b.len() < 8 {
                    return fail("header", "length-mismatch", format!("header encoding of {} bytes", b.len()));
                }
                let secs = i64::from_be_bytes(b[b.len() - 8..].try_into().unwrap());
                let reference = enc_header(&MHeader { uri: uri.clone(), notify: notify.clone(), success: false, secs }).data;
                if b != reference.as_slice() {
                    return fail("header", "value-mismatch/new", format!("StoredPointHeader::new({:?},{:?}) wrote {} instead of {}", uri, notify, to_hex(b), to_hex(&reference)));
                }
                // what must be read back: the same header at whole-second resolution
                let mut s = b;
                let expect = match StoredPointHeader::read(&mut s) {
                    Ok(v) => v,
                    Err(e) => return fail("header", "decode-error", format!("{} for {}", e, to_hex(b))),
                };
                Written::Header(expect)
            }
            AnyRec::Manifest(m) => {
                info.class("rec=manifest");
                subsecond |= m.not_after.nanos != 0 || m.this_update.nanos != 0;
                if let Err(e) = m.to_real().write(&mut buf) {
                    return fail("manifest", "write-error", e.to_string());
                }
                Written::Manifest(expected_manifest(m))
            }
            AnyRec::Object(o) => {
                info.class("rec=object");
                if o.hash.is_some() { present += 1 } else { absent += 1 }
                let v = o.to_real();
                if let Err(e) = v.write(&mut buf) {
                    return fail("object", "write-error", e.to_string());
                }
                Written::Object(v)
            }
            AnyRec::Status(t) => {
                info.class("rec=status");
                subsecond |= t.nanos != 0;
                if let Err(e) = status_of(t).write(&mut buf) {
                    return fail("status", "write-error", e.to_string());
                }
                Written::Status(whole(t))
            }
            AnyRec::State(s) => {
                info.class("rec=state");
                if s.last_modified.is_some() { present += 1 } else { absent += 1 }
                if s.etag.is_some() { present += 1 } else { absent += 1 }
                let v = s.to_real();
                map2 |= v.delta_state.len() >= 2;
                if v.delta_state.len() >= 100 {
                    info.class("state_map>=100");
                }
                if let Err(e) = v.verif_compose(&mut buf) {
                    return fail("state", "write-error", e.to_string());
                }
                Written::State(v)
            }
        };
        written.push((w, buf.len()));
    }
    info.nt((present >= 1 && absent >= 1) || map2);
    if subsecond {
        info.class("subsecond_part_dropped_by_format");
    }
    if recs.len() >= 2 {
        info.class("concatenated");
    }
    let total = buf.len();
    buf.extend_from_slice(&SENTINEL);
    let mut slice = buf.as_slice();
    for (i, (w, end)) in written.iter().enumerate() {
        let (kind, res): (&str, Result<(), String>) = match w {
            Written::Header(v) => ("header", match StoredPointHeader::read(&mut slice) {
                Ok(d) if d == *v => Ok(()),
                Ok(d) => Err(format!("value-mismatch|read {:?} wrote {:?}", d, v)),
                Err(e) => Err(format!("decode-error|{}", e)),
            }),
            Written::Manifest(v) => ("manifest", match StoredManifest::read(&mut slice) {
                Ok(d) if d == *v => Ok(()),
                Ok(d) => Err(format!("value-mismatch|{}", manifest_diff(&d, v))),
                Err(e) => Err(format!("decode-error|{}", e)),
            }),
            Written::Object(v) => ("object", match StoredObject::read(&mut slice) {
                Ok(Some(d)) if d == *v => Ok(()),
                Ok(Some(d)) => Err(format!("value-mismatch|read uri={} hash={:?} content {} bytes; wrote uri={} hash={:?} content {} bytes", d.uri, d.hash.as_ref().map(|h| to_hex(h.as_slice())), d.content.len(), v.uri, v.hash.as_ref().map(|h| to_hex(h.as_slice())), v.content.len())),
                Ok(None) => Err("decode-error|reader reported end of input".to_string()),
                Err(e) => Err(format!("decode-error|{}", e)),
            }),
            Written::Status(v) => ("status", match StoredStatus::read(&mut slice) {
                Ok(d) if d.last_update == *v => Ok(()),
                Ok(d) => Err(format!("value-mismatch|read {:?} wrote {:?}", d.last_update, v)),
                Err(e) => Err(format!("decode-error|{}", e)),
            }),
            Written::State(v) => ("state", match RepositoryState::verif_parse(&mut slice) {
                Ok(d) if d == *v => Ok(()),
                Ok(d) => Err(format!("value-mismatch|read {:?} wrote {:?}", d, v)),
                Err(e) => Err(format!("decode-error|{}", e)),
            }),
        };
        if let Err(e) = res {
            let (what, msg) = e.split_once('|').unwrap_or(("value-mismatch", &e));
            return fail(kind, what, format!("record {} of {}: {}", i, recs.len(), truncate(msg, 1500)));
        }
        let consumed = buf.len() - slice.len();
        if consumed != *end {
            return fail(kind, "length-mismatch", format!("record {} of {}: reader stands at byte {} but the writer ended the record at {}", i, recs.len(), consumed, end));
        }
    }
    if slice != SENTINEL {
        return fail("sequence", "trailing", format!("{} bytes left instead of the sentinel after {} bytes", slice.len(), total));
    }
    // an object reader at the end of the stored-point stream reports a clean end
    Verdict::Pass
}

fn manifest_diff(d: &StoredManifest, v: &StoredManifest) -> String {
    let mut out = Vec::new();
    if d.not_after != v.not_after {
        out.push(format!("not_after {:?} != {:?}", d.not_after, v.not_after));
    }
    if d.manifest_number != v.manifest_number {
        out.push(format!("manifest_number {} != {}", d.manifest_number, v.manifest_number));
    }
    if d.this_update != v.this_update {
        out.push(format!("this_update {:?} != {:?}", d.this_update, v.this_update));
    }
    if d.ca_repository != v.ca_repository {
        out.push(format!("ca_repository {} != {}", d.ca_repository, v.ca_repository));
    }
    if d.manifest != v.manifest {
        out.push(format!("manifest bytes differ ({} vs {} bytes)", d.manifest.len(), v.manifest.len()));
    }
    if d.crl_uri != v.crl_uri {
        out.push(format!("crl_uri {} != {}", d.crl_uri, v.crl_uri));
    }
    if d.crl != v.crl {
        out.push(format!("crl bytes differ ({} vs {} bytes)", d.crl.len(), v.crl.len()));
    }
    format!("read != written: {}", out.join("; "))
}

//------------ stored-point files ---------------------------------------------------------------

#[derive(Clone, Debug, Serialize, Deserialize)]
pub struct MPoint {
    pub header: MHeader,
    pub manifest: MManifest,
    pub objects: Vec<MObject>,
    /// write through `StoredPoint::update` (real Store, temp file, persist) instead of plain writers
    pub via_update: bool,
}

static FILE_NO: AtomicU64 = AtomicU64::new(0);

fn judge_point(dir: &std::path::Path, store: &Store, p: &MPoint, info: &mut CaseInfo) -> Verdict {
    caught("point", catch(|| judge_point_in(dir, store, p, info)))
}

fn judge_point_in(dir: &std::path::Path, store: &Store, p: &MPoint, info: &mut CaseInfo) -> Verdict {
    let path = dir.join(format!("point-{}.bin", FILE_NO.fetch_add(1, Ordering::SeqCst)));
    let expect_manifest = expected_manifest(&p.manifest);
    let objects: Vec<StoredObject> = p.objects.iter().map(|o| o.to_real()).collect();
    let some = p.objects.iter().filter(|o| o.hash.is_some()).count();
    info.nt(p.objects.len() >= 2 && ((some >= 1 && some < p.objects.len()) || p.header.notify.is_some()));
    info.class(if p.via_update { "via=update" } else { "via=writers" });
    info.class(format!("objects={}", p.objects.len().min(4)));
    let verdict = (|| {
        let mut expect_m = Some(expect_manifest.clone());
        if p.via_update {
            // initial file as created for a new point
            let mut f = Vec::new();
            StoredPointHeader::new(rsync(&p.header.uri), p.header.notify.as_deref().map(https)).write(&mut f).unwrap();
            std::fs::write(&path, &f).unwrap();
            let Some(mut point) = StoredPoint::load_quietly(path.clone()) else {
                return fail("point", "decode-error", "load_quietly failed on a fresh header".into());
            };
            if point.manifest().is_some() {
                return fail("point", "value-mismatch/fresh-manifest", "fresh point reports a manifest".into());
            }
            let mut it = objects.iter();
            if let Err(e) = point.update(store, p.manifest.to_real(), || Ok(it.next().cloned())) {
                return Verdict::Dropped(format!("update failed: {:?}", e));
            }
            // the updated point is positioned at the first object
            for (i, o) in objects.iter().enumerate() {
                match point.next() {
                    Some(Ok(d)) if d == *o => {}
                    other => return fail("point", "value-mismatch/after-update", format!("object {} after update: {:?}", i, other.map(|r| r.map(|o| o.uri.to_string()).map_err(|e| e.to_string())))),
                }
            }
            if point.next().is_some() {
                return fail("point", "length-mismatch/after-update", "extra object after update".into());
            }
            drop(point);
            // header on disk: same URIs, status success
            let data = std::fs::read(&path).unwrap();
            let mut s = data.as_slice();
            let hdr = match StoredPointHeader::read(&mut s) {
                Ok(h) => h,
                Err(e) => return fail("point", "decode-error", format!("header after update: {}", e)),
            };
            let hlen = data.len() - s.len();
            let secs = i64::from_be_bytes(data[hlen - 8..hlen].try_into().unwrap());
            let reference = enc_header(&MHeader { uri: p.header.uri.clone(), notify: p.header.notify.clone(), success: true, secs }).data;
            if data[..hlen] != reference[..] {
                return fail("point", "value-mismatch/header-after-update", format!("header bytes {} expected {}", to_hex(&data[..hlen]), to_hex(&reference)));
            }
            let _ = hdr;
        } else {
            let mut f = enc_header(&p.header).data;
            if p.header.success {
                p.manifest.to_real().write(&mut f).unwrap();
                for o in &objects {
                    o.write(&mut f).unwrap();
                }
            } else {
                expect_m = None;
            }
            std::fs::write(&path, &f).unwrap();
        }
        let Some(mut point) = StoredPoint::load_quietly(path.clone()) else {
            return fail("point", "decode-error", "load_quietly returned None for a file written by the writers".into());
        };
        if point.manifest() != expect_m.as_ref() {
            return fail("point", "value-mismatch/manifest", match (point.manifest(), expect_m.as_ref()) {
                (Some(d), Some(v)) => manifest_diff(d, v),
                (d, v) => format!("manifest present: read {} written {}", d.is_some(), v.is_some()),
            });
        }
        if expect_m.is_some() {
            for (i, o) in objects.iter().enumerate() {
                match point.next() {
                    Some(Ok(d)) if d == *o => {}
                    Some(Ok(d)) => return fail("point", "value-mismatch/object", format!("object {}: read {} ({} bytes) wrote {} ({} bytes)", i, d.uri, d.content.len(), o.uri, o.content.len())),
                    Some(Err(e)) => return fail("point", "decode-error", format!("object {}: {}", i, e)),
                    None => return fail("point", "length-mismatch", format!("object {} of {} missing", i, objects.len())),
                }
            }
        }
        match point.next() {
            None => Verdict::Pass,
            Some(r) => fail("point", "length-mismatch", format!("extra item after the last object: {:?}", r.map(|o| o.uri.to_string()).map_err(|e| e.to_string()))),
        }
    })();
    let _ = std::fs::remove_file(&path);
    verdict
}


/// Stored-point files in which the record of the second object starts at every offset within 16
/// bytes of a power-of-two file offset (4 KiB .. 64 KiB): readers that go through a buffered file
/// see short reads exactly there, slices never do.
fn boundary_points() -> Vec<MPoint> {
    let header = MHeader { uri: "rsync://b.example.net/repo/ca/".into(), notify: Some("https://b.example.net/rrdp/notification.xml".into()), success: true, secs: 1_759_335_022 };
    let manifest = MManifest {
        not_after: MTime { secs: 1_790_000_000, nanos: 0 },
        number: Hex({ let mut n = vec![0u8; 20]; n[19] = 7; n }),
        this_update: MTime { secs: 1_759_000_000, nanos: 0 },
        ca_repository: "rsync://b.example.net/repo/ca/".into(),
        manifest: MBytes { len: 300, seed: 3, head: Hex(vec![]) },
        crl_uri: "rsync://b.example.net/repo/ca/ca.crl".into(),
        crl: MBytes { len: 200, seed: 5, head: Hex(vec![]) },
    };
    let obj = |n: u32, len: u32, hash: bool| MObject { uri: format!("rsync://b.example.net/repo/ca/o{}.roa", n), hash: if hash { Some(Hex(vec![n as u8; 32])) } else { None }, content: MBytes { len, seed: n as u8, head: Hex(vec![]) } };
    // offset of the second object's record when the first object is empty
    let mut f = enc_header(&header).data;
    manifest.to_real().write(&mut f).unwrap();
    obj(1, 0, true).to_real().write(&mut f).unwrap();
    let s0 = f.len() as i64;
    let mut res = Vec::new();
    for b in [4096i64, 8192, 16384, 32768, 65536] {
        for d in -16i64..=16 {
            let len = b + d - s0;
            if len < 0 {
                continue;
            }
            for via_update in [false, true] {
                res.push(MPoint { header: header.clone(), manifest: manifest.clone(), objects: vec![obj(1, len as u32, true), obj(2, 40, false), obj(3, 5000, true), obj(4, 1, false)], via_update });
            }
        }
    }
    res
}

//------------ byte level: decode -> encode -> decode fix-point -----------------------------------

/// For every record type whose decoder accepts a prefix of `data`: the decoded value must survive
/// write+read unchanged and the second read must consume exactly what was written.
/// Only inputs that the independent walker finds complete are decoded (no huge length fields).
pub fn judge_bytes(data: &[u8], info: &mut CaseInfo) -> Verdict {
    caught("bytes", catch(|| judge_bytes_in(data, info)))
}

fn judge_bytes_in(data: &[u8], info: &mut CaseInfo) -> Verdict {
    let mut decoded_any = false;
    for rec in [Rec::Header, Rec::Manifest, Rec::Objects, Rec::Status, Rec::State] {
        let w = walk(rec, data, 1 << 20);
        if !matches!(w.stop, Stop::Done(_)) {
            continue;
        }
        let mut s = data;
        macro_rules! fix {
            ($kind:expr, $read:expr, $write:expr, $eq:expr) => {{
                if let Ok(v) = $read(&mut s) {
                    decoded_any = true;
                    info.class(format!("decoded={}", $kind));
                    let mut b = Vec::new();
                    if let Err(e) = $write(&v, &mut b) {
                        return fail($kind, "write-error", e.to_string());
                    }
                    let n = b.len();
                    b.extend_from_slice(&SENTINEL);
                    let mut s2 = b.as_slice();
                    match $read(&mut s2) {
                        Ok(v2) if $eq(&v, &v2) => {}
                        Ok(_) => return fail($kind, "value-mismatch", format!("decode(encode(v)) != v for v decoded from {}", to_hex(data))),
                        Err(e) => return fail($kind, "decode-error", format!("{} when re-reading the encoding of a decoded value ({})", e, to_hex(data))),
                    }
                    if s2 != SENTINEL {
                        return fail($kind, "length-mismatch", format!("re-read left {} bytes of {}+3", s2.len(), n));
                    }
                }
            }};
        }
        match rec {
            Rec::Header => fix!("header", |s: &mut &[u8]| StoredPointHeader::read(s), |v: &StoredPointHeader, b: &mut Vec<u8>| v.write(b), |a: &StoredPointHeader, b: &StoredPointHeader| a == b),
            Rec::Manifest => fix!("manifest", |s: &mut &[u8]| StoredManifest::read(s), |v: &StoredManifest, b: &mut Vec<u8>| v.write(b), |a: &StoredManifest, b: &StoredManifest| a == b),
            Rec::Objects => fix!(
                "object",
                |s: &mut &[u8]| StoredObject::read(s).and_then(|o| o.ok_or_else(|| routinator::utils::binio::ParseError::format("end"))),
                |v: &StoredObject, b: &mut Vec<u8>| v.write(b),
                |a: &StoredObject, b: &StoredObject| a == b
            ),
            Rec::Status => fix!("status", |s: &mut &[u8]| StoredStatus::read(s), |v: &StoredStatus, b: &mut Vec<u8>| v.write(b), |a: &StoredStatus, b: &StoredStatus| a.last_update == b.last_update),
            Rec::State => fix!("state", |s: &mut &[u8]| RepositoryState::verif_parse(s).map_err(routinator::utils::binio::ParseError::from), |v: &RepositoryState, b: &mut Vec<u8>| v.verif_compose(b), |a: &RepositoryState, b: &RepositoryState| a == b),
            Rec::Point => {}
        }
    }
    info.nt(decoded_any);
    Verdict::Pass
}

/// libFuzzer body.
pub fn fuzz_bytes(data: &[u8]) -> Result<(), String> {
    let mut info = CaseInfo::default();
    match judge_bytes(data, &mut info) {
        Verdict::Fail { key, msg } => Err(format!("{}: {}", key, msg)),
        _ => Ok(()),
    }
}

//------------ strategies -----------------------------------------------------------------------

fn anyrec_strategy(big: u32) -> impl Strategy<Value = AnyRec> {
    prop_oneof![
        2 => header_strategy().prop_map(AnyRec::Header),
        1 => (rsync_uri_strategy(40), prop::option::of(https_uri_strategy(20))).prop_map(|(uri, notify)| AnyRec::NewHeader { uri, notify }),
        3 => manifest_strategy(big).prop_map(AnyRec::Manifest),
        3 => object_strategy(big).prop_map(AnyRec::Object),
        1 => mtime_strategy().prop_map(AnyRec::Status),
        // the number of delta entries is bounded only by the configurable rrdp-max-delta-list-len, not by its default of 500
        3 => state_strategy(500).prop_map(AnyRec::State),
        1 => state_strategy(3000).prop_map(AnyRec::State),
    ]
}

/// A valid encoding of one record with a few body bytes replaced (most stay decodable).
fn mutated_valid_strategy() -> impl Strategy<Value = Hex> {
    let enc = prop_oneof![
        header_strategy().prop_map(|h| enc_header(&h)),
        manifest_strategy(300).prop_map(|m| enc_manifest(&m)),
        object_strategy(300).prop_map(|o| enc_object(&o)),
        mtime_strategy().prop_map(|t| enc_status(&t)),
        state_strategy(20).prop_map(|s| enc_state(&s)),
    ];
    (enc, prop::collection::vec((any::<prop::sample::Index>(), any::<u8>()), 0..4), prop::collection::vec(any::<u8>(), 0..8)).prop_map(|(e, subs, tail)| {
        let mut d = e.data;
        let spots: Vec<usize> = e.fields.iter().filter(|f| matches!(f.kind, FieldKind::Body | FieldKind::Int64) && f.len > 0).flat_map(|f| f.off..f.off + f.len).collect();
        for (ix, b) in subs {
            if !spots.is_empty() {
                d[spots[ix.index(spots.len())]] = b;
            }
        }
        d.extend_from_slice(&tail);
        Hex(d)
    })
}

fn preamble() -> Result<(), String> {
    // The reference encoder (used to obtain headers with an arbitrary status and by C27) must agree
    // with the real writers on fixed values; otherwise the harness is out of date: exit 2, not a verdict.
    // This is only concluded when the real writer and reader agree with each other on the value — if
    // they do not, that is the property's business and the bulk search reports it.
    let m = MManifest {
        not_after: MTime { secs: 1_759_335_022, nanos: 0 },
        number: Hex(vec![0; 20]),
        this_update: MTime { secs: 1_275_552_660, nanos: 0 },
        ca_repository: "rsync://example.com/test/".into(),
        manifest: MBytes::of(b"deadbeef"),
        crl_uri: "rsync://example.com/test/test.crl".into(),
        crl: MBytes::of(b"crlbytesgohere"),
    };
    let o = MObject { uri: "rsync://example.com/test/obj1.bin".into(), hash: Some(Hex(vec![7; 32])), content: MBytes::of(b"object1content") };
    let t = MTime { secs: 1_700_000_000, nanos: 0 };
    let s = MState { notify: "https://foo.bar/baz".into(), session: Hex(vec![0xa1; 16]), serial: 0x1234567812345678, updated: -12, best_before: 123789123789123, last_modified: Some(239123908123), etag: Some(MBytes::of(b"W/\"x\"")), deltas: vec![(18, 3)] };
    let mut info = CaseInfo::default();
    for (what, rec, reference) in [
        ("manifest", AnyRec::Manifest(m.clone()), enc_manifest(&m).data),
        ("object", AnyRec::Object(o.clone()), enc_object(&o).data),
        ("status", AnyRec::Status(t), enc_status(&t).data),
        ("state", AnyRec::State(s.clone()), enc_state(&s).data),
    ] {
        if !matches!(judge_sequence(std::slice::from_ref(&rec), &mut info), Verdict::Pass) {
            continue; // writer and reader disagree with each other: left to the bulk search
        }
        let mut b = Vec::new();
        let r = match &rec {
            AnyRec::Manifest(m) => m.to_real().write(&mut b),
            AnyRec::Object(o) => o.to_real().write(&mut b),
            AnyRec::Status(t) => status_of(t).write(&mut b),
            AnyRec::State(s) => s.to_real().verif_compose(&mut b),
            _ => Ok(()),
        };
        r.map_err(|e| e.to_string())?;
        if b != reference {
            return Err(format!("reference {} encoding differs from the real writer (which round-trips)", what));
        }
    }
    for success in [true, false] {
        let h = MHeader { uri: "rsync://example.com/test/test.mft".into(), notify: Some("https://example.com/notification.xml".into()), success, secs: 1_700_000_000 };
        let enc = enc_header(&h).data;
        let v = StoredPointHeader::read(&mut enc.as_slice()).map_err(|e| format!("reference header rejected: {}", e))?;
        let mut b = Vec::new();
        v.write(&mut b).map_err(|e| e.to_string())?;
        let again = StoredPointHeader::read(&mut b.as_slice());
        if matches!(again, Ok(ref a) if *a == v) && b != enc {
            return Err("reference header encoding differs from StoredPointHeader::write (which round-trips)".into());
        }
    }
    Ok(())
}

pub fn run(ctx: &Ctx, rep: &mut Report, replay: Option<&serde_json::Value>) {
    rep.rule("sequences of 1..=4 records (stored point header incl. one from the public constructor, stored manifest, stored object, store status, RRDP repository state) over rsync/https URIs from rpki's grammar (any-case scheme, all legal punctuation, up to 300 segments), times over chrono's whole range with and without sub-second part, serials up to 2^159-1, optional fields, ETags (strong, weak, empty, arbitrary bytes), delta maps of 0..500 entries (and, less often, up to 3000: the count is bounded only by the configurable rrdp-max-delta-list-len), contents of 0..70000 bytes; written into one buffer and read back in sequence; plus stored-point files written by the writers or through StoredPoint::update (real Store) and read by load_quietly, including 330 enumerated files in which the second object's record starts within 16 bytes of file offset 4/8/16/32/64 KiB (buffered-reader boundaries); plus mutated valid encodings for the decode-encode-decode fix-point; non-trivial = at least one optional field present and one absent, or a delta map with >= 2 entries (files: >= 2 objects with mixed hash presence or a notify URI; bytes: some decoder accepted the input); distinct by serialised case");
    rep.assume("Time values are compared at the whole second the format stores by design (DESIGN §3); sub-second loss is counted as class subsecond_part_dropped_by_format, never as a failure");
    rep.assume("manifest hashes of stored objects are 32 bytes (objects are stored only after their SHA-256 manifest hash was verified); headers with an arbitrary update status are obtained by decoding the harness' reference encoding because the status type is private");
    if let Err(e) = preamble() {
        eprintln!("C28 preamble failed (harness out of date, not a verdict): {}", e);
        std::process::exit(2);
    }
    let scratch = ctx.scratch();
    let dir = scratch.path().to_path_buf();
    let config = Config::default_with_paths(dir.join("routinator.conf"), dir.join("cache"));
    let store = match Store::new(&config) {
        Ok(s) => s,
        Err(_) => {
            eprintln!("C28: cannot create store in scratch dir");
            std::process::exit(2);
        }
    };
    let point = |p: &MPoint, i: &mut CaseInfo| judge_point(&dir, &store, p, i);
    if let Some(v) = replay {
        let t: Tagged<serde_json::Value> = serde_json::from_value(v.clone()).expect("replay");
        match t.sub.as_str() {
            "sequence" | "big" => run_case(ctx, rep, &t.sub, &serde_json::from_value::<Vec<AnyRec>>(t.case).expect("case"), |c, i| judge_sequence(c, i)),
            "point" | "point-boundary" => run_case(ctx, rep, &t.sub, &serde_json::from_value::<MPoint>(t.case).expect("case"), point),
            "bytes" => run_case(ctx, rep, &t.sub, &serde_json::from_value::<Hex>(t.case).expect("case"), |d, i| judge_bytes(&d.0, i)),
            other if other.starts_with("fuzz:") || other.starts_with("corpus:") => run_case(ctx, rep, other, &serde_json::from_value::<Hex>(t.case).expect("case"), |d, i| judge_bytes(&d.0, i)),
            other => panic!("unknown sub {}", other),
        }
        return;
    }
    // how often the URI generators had to fall back (must stay rare)
    let sample = sample_strategy(&(rsync_uri_strategy(300), https_uri_strategy(20)), ctx.seed_for("uri-sample"), 2000);
    let fb = sample.iter().filter(|(r, h)| r.contains("fallback.example") || h.contains("fallback.example")).count();
    rep.extra.insert("uri_generator_fallbacks_per_2000".into(), serde_json::json!(fb));
    run_prop(ctx, rep, "sequence", ctx.tier.pick(30_000, 400_000), prop::collection::vec(anyrec_strategy(3_000), 1..=4), |c, i| judge_sequence(c, i));
    run_prop(ctx, rep, "big", ctx.tier.pick(300, 6_000), prop::collection::vec(anyrec_strategy(70_000), 1..=3), |c, i| judge_sequence(c, i));
    let point_strategy = (header_strategy(), manifest_strategy(3_000), prop::collection::vec(object_strategy(3_000), 0..6), any::<bool>()).prop_map(|(header, manifest, objects, via_update)| MPoint { header, manifest, objects, via_update });
    run_prop(ctx, rep, "point", ctx.tier.pick(5_000, 60_000), point_strategy, point);
    for p in boundary_points() {
        if rep.violated() {
            break;
        }
        run_case(ctx, rep, "point-boundary", &p, point);
    }
    run_prop(ctx, rep, "bytes", ctx.tier.pick(20_000, 300_000), mutated_valid_strategy(), |d, i| judge_bytes(&d.0, i));
    crate::fz::replay_corpus(ctx, rep, "rt_records", |d, i| judge_bytes(d, i));
    if ctx.tier == Tier::Thorough {
        crate::fz::campaign(ctx, rep, "rt_records", 3_000_000, 4096, |d, i| judge_bytes(d, i));
    }
}
