//! C21 Output formats list exactly the selected payload, well-formed.
//!
//! A data set with generated trust-anchor names / exception comments is rendered in all 13
//! formats under a generated selection (built the way the `vrps` command builds it, from a query
//! string, or through the real HTTP dispatcher). Each document is parsed by the independent
//! parsers of `parsers.rs` and compared with an own selection reference on address bits.

use std::cell::RefCell;
use std::collections::BTreeMap;
use std::net::IpAddr;
use std::path::Path;
use std::str::FromStr;
use std::sync::Arc;

use proptest::prelude::*;
use routinator::metrics::{Metrics, TalMetrics};
use routinator::output::{Output, OutputFormat, Selection};
use routinator::payload::{PayloadInfo, PayloadSnapshot};
use routinator::slurm::{ExceptionInfo, LocalExceptions};
use rpki::repository::tal::TalInfo;
use rpki::repository::x509::{Time, Validity};
use rpki::resources::addr::Prefix;
use rpki::resources::asn::Asn;
use serde::{Deserialize, Serialize};

use crate::core::*;
use crate::fmtx::*;
use crate::parsers::*;
use crate::pay::*;

pub const KEY_JSON: &str = "C21/json/tal-name-unescaped";
pub const KEY_SLURM: &str = "C21/slurm/tal-name-unescaped";
pub const KEY_SLURM2: &str = "C21/slurm2/tal-name-unescaped";
pub const KEY_JSONEXT: &str = "C21/jsonext/control-char-unescaped";

#[derive(Serialize, Deserialize, Clone, Debug, PartialEq)]
pub enum InfoSpec {
    Exception { comment: Option<String>, path: Option<String> },
    Published { tal: String, uri: Option<String> },
}

impl InfoSpec {
    /// The trust-anchor field of csv / json / slurm ("N/A" for local exceptions).
    fn ta(&self) -> String {
        match self {
            InfoSpec::Exception { .. } => "N/A".into(),
            InfoSpec::Published { tal, .. } => tal.clone(),
        }
    }
    fn strings(&self) -> Vec<&str> {
        match self {
            InfoSpec::Exception { comment, path } => comment.iter().chain(path.iter()).map(|s| s.as_str()).collect(),
            InfoSpec::Published { tal, .. } => vec![tal.as_str()],
        }
    }
    fn to_info(&self) -> PayloadInfo {
        match self {
            InfoSpec::Exception { comment, path } => PayloadInfo::from(Arc::new(ExceptionInfo { path: path.as_ref().map(|p| Arc::from(Path::new(p))), comment: comment.clone() })),
            InfoSpec::Published { tal, uri } => {
                let v = Validity::new(Time::utc(2024, 1, 2, 3, 4, 5), Time::utc(2031, 6, 7, 8, 9, 10));
                routinator::payload::verif_published_info(
                    TalInfo::from_name(tal.clone()).into_arc(),
                    uri.as_ref().map(|u| rpki::uri::Rsync::from_string(u.clone()).expect("generated rsync uri")),
                    v,
                    v,
                    Time::utc(2030, 1, 1, 0, 0, 0),
                )
            }
        }
    }
    /// What the history path can carry: no object URI (the harness trust anchor has none), no
    /// exceptions-file path.
    fn served(&self) -> InfoSpec {
        match self {
            InfoSpec::Exception { comment, .. } => InfoSpec::Exception { comment: comment.clone(), path: None },
            InfoSpec::Published { tal, .. } => InfoSpec::Published { tal: tal.clone(), uri: None },
        }
    }
}

#[derive(Serialize, Deserialize, Clone, Debug)]
pub struct AsnSel {
    /// 0 an origin's AS, 1 a router key's AS, 2 an ASPA customer, 3 an ASPA provider, 4 random
    pub kind: u8,
    pub idx: usize,
    pub rnd: u32,
    /// written without the "AS" prefix in query strings
    pub bare: bool,
}

#[derive(Serialize, Deserialize, Clone, Debug)]
pub struct PrefixSel {
    pub idx: usize,
    /// 0 equal, 1 more specific, 2 less specific, 3 sibling, 4 random, 5 other family /0
    pub rel: u8,
    pub k: u8,
    pub bits: u128,
}

#[derive(Serialize, Deserialize, Clone, Debug)]
pub struct Case {
    pub origins: Vec<(MOrigin, InfoSpec)>,
    pub keys: Vec<(MKey, InfoSpec)>,
    pub aspas: Vec<(MAspa, InfoSpec)>,
    /// number of additional fixed-width exception origins (to make the stream span chunks)
    pub fill: u32,
    pub asns: Vec<AsnSel>,
    pub prefixes: Vec<PrefixSel>,
    pub more_specifics: bool,
    /// exclude route origins / router keys / ASPAs
    pub excl: (bool, bool, bool),
    /// 0 Selection built like the vrps command, 1 Output::from_query, 2 HTTP dispatcher
    pub via: u8,
    pub alias: bool,
    pub comma_exclude: bool,
}

//------------------------------------------------------------------------------------------
// Reference selection

fn bits_of(addr: IpAddr) -> u128 {
    match addr {
        IpAddr::V4(a) => (u32::from(a) as u128) << 96,
        IpAddr::V6(a) => u128::from(a),
    }
}

/// Does prefix a (addr, len) cover prefix b?
fn pfx_covers(a: (IpAddr, u8), b: (IpAddr, u8)) -> bool {
    if a.0.is_ipv4() != b.0.is_ipv4() || a.1 > b.1 {
        return false;
    }
    a.1 == 0 || (bits_of(a.0) ^ bits_of(b.0)) >> (128 - a.1 as u32) == 0
}

fn pfx_from_bits(v4: bool, bits: u128, len: u8) -> (IpAddr, u8) {
    let fam = if v4 { 32 } else { 128 };
    let len = len.min(fam);
    let m = if len == 0 { 0 } else { u128::MAX << (128 - len as u32) };
    let b = bits & m;
    if v4 {
        (IpAddr::from(((b >> 96) as u32).to_be_bytes()), len)
    } else {
        (IpAddr::from(b.to_be_bytes()), len)
    }
}

pub struct Resolved {
    pub origins: Vec<(MOrigin, InfoSpec)>,
    pub keys: Vec<(MKey, InfoSpec)>,
    pub aspas: Vec<(MAspa, InfoSpec)>,
    pub sel_asns: Vec<(u32, bool)>,
    pub sel_prefixes: Vec<(IpAddr, u8)>,
}

fn resolve(case: &Case) -> Resolved {
    // distinct payload keys (precondition of PayloadSnapshot::new): first occurrence wins
    let mut origins: Vec<(MOrigin, InfoSpec)> = Vec::new();
    for (o, i) in &case.origins {
        if !origins.iter().any(|(x, _)| x == o) {
            origins.push((o.clone(), i.clone()));
        }
    }
    for n in 0..case.fill {
        let f = crate::c18::filler(n);
        if !origins.iter().any(|(x, _)| *x == f) {
            origins.push((f, InfoSpec::Exception { comment: None, path: None }));
        }
    }
    let mut keys: Vec<(MKey, InfoSpec)> = Vec::new();
    for (k, i) in &case.keys {
        if !keys.iter().any(|(x, _)| x == k) {
            keys.push((k.clone(), i.clone()));
        }
    }
    let mut aspas: Vec<(MAspa, InfoSpec)> = Vec::new();
    for (a, i) in &case.aspas {
        let a = servable_aspa(a);
        if !aspas.iter().any(|(x, _)| x.customer == a.customer) {
            aspas.push((a, i.clone()));
        }
    }
    if case.via == 2 {
        // what can be installed through the validation report + SLURM path
        for (_, i) in origins.iter_mut() {
            *i = i.served();
        }
        for (_, i) in keys.iter_mut() {
            *i = InfoSpec::Exception { comment: i.strings().first().map(|s| s.to_string()), path: None };
        }
        for (a, i) in aspas.iter_mut() {
            // ASPAs can only be published; a 0-provider ASPA cannot come out of a decoded object
            let tal = i.strings().first().map(|s| s.to_string()).unwrap_or_default();
            *i = InfoSpec::Published { tal, uri: None };
            let _ = a;
        }
    }
    let sel_asns = case
        .asns
        .iter()
        .map(|s| {
            let pick = |n: usize, f: &dyn Fn(usize) -> u32| if n == 0 { s.rnd } else { f(s.idx % n) };
            let asn = match s.kind {
                0 => pick(origins.len(), &|i| origins[i].0.asn),
                1 => pick(keys.len(), &|i| keys[i].0.asn),
                2 => pick(aspas.len(), &|i| aspas[i].0.customer),
                3 => pick(aspas.len(), &|i| aspas[i].0.providers.first().cloned().unwrap_or(s.rnd)),
                _ => s.rnd,
            };
            (asn, s.bare)
        })
        .collect();
    let sel_prefixes = case
        .prefixes
        .iter()
        .map(|s| {
            if origins.is_empty() || s.rel == 4 {
                return pfx_from_bits(s.k % 2 == 0, s.bits, s.k % if s.k % 2 == 0 { 33 } else { 129 });
            }
            let o = &origins[s.idx % origins.len()].0;
            let v4 = o.is_v4();
            let low = if o.len == 0 { s.bits } else if o.len >= 128 { 0 } else { s.bits >> o.len as u32 };
            match s.rel {
                0 => pfx_from_bits(v4, o.bits(), o.len),
                1 => pfx_from_bits(v4, o.bits() | low, o.len.saturating_add(1 + s.k % 8)),
                2 => pfx_from_bits(v4, o.bits(), o.len.saturating_sub(1 + s.k % 8)),
                3 => {
                    if o.len == 0 {
                        pfx_from_bits(v4, 0, 0)
                    } else {
                        pfx_from_bits(v4, o.bits() ^ (1u128 << (128 - o.len as u32)), o.len)
                    }
                }
                _ => pfx_from_bits(!v4, 0, 0),
            }
        })
        .collect();
    Resolved { origins, keys, aspas, sel_asns, sel_prefixes }
}

pub struct Expected {
    pub origins: Vec<(MOrigin, InfoSpec)>,
    pub keys: Vec<(MKey, InfoSpec)>,
    pub aspas: Vec<(MAspa, InfoSpec)>,
    pub rejected: usize,
}

/// The documented selection: selectors combine as "or"; an ASN selects origins of that AS (and
/// keys / ASPAs of that AS / customer), a prefix selects origins whose prefix covers it and,
/// with more-specifics, origins it covers; without selectors everything is selected; excluded
/// payload types are dropped.
fn expected(case: &Case, r: &Resolved) -> Expected {
    let has_sel = !r.sel_asns.is_empty() || !r.sel_prefixes.is_empty();
    let asn_hit = |a: u32| r.sel_asns.iter().any(|(s, _)| *s == a);
    let mut rejected = 0usize;
    let origins = r
        .origins
        .iter()
        .filter(|(o, _)| {
            let hit = !has_sel || asn_hit(o.asn) || r.sel_prefixes.iter().any(|p| pfx_covers((o.addr, o.len), *p) || (case.more_specifics && pfx_covers(*p, (o.addr, o.len))));
            if !hit {
                rejected += 1;
            }
            hit && !case.excl.0
        })
        .cloned()
        .collect();
    let keys = r
        .keys
        .iter()
        .filter(|(k, _)| {
            let hit = !has_sel || asn_hit(k.asn);
            if !hit {
                rejected += 1;
            }
            hit && !case.excl.1
        })
        .cloned()
        .collect();
    let aspas = r
        .aspas
        .iter()
        .filter(|(a, _)| {
            let hit = !has_sel || asn_hit(a.customer);
            if !hit {
                rejected += 1;
            }
            hit && !case.excl.2
        })
        .cloned()
        .collect();
    Expected { origins, keys, aspas, rejected }
}

fn query_string(case: &Case, r: &Resolved) -> Option<String> {
    let mut parts: Vec<String> = Vec::new();
    let (ka, kp) = if case.alias { ("filter-asn", "filter-prefix") } else { ("select-asn", "select-prefix") };
    // interleave so that order does not matter
    for (i, (a, bare)) in r.sel_asns.iter().enumerate() {
        parts.push(format!("{}={}", ka, if *bare { a.to_string() } else { format!("AS{}", a) }));
        if let Some(p) = r.sel_prefixes.get(i) {
            parts.push(format!("{}={}", kp, pct(&format!("{}/{}", p.0, p.1))));
        }
    }
    for p in r.sel_prefixes.iter().skip(r.sel_asns.len()) {
        parts.push(format!("{}={}", kp, pct(&format!("{}/{}", p.0, p.1))));
    }
    if case.more_specifics {
        parts.push("include=more-specifics".into());
    }
    let ex: Vec<&str> = [(case.excl.0, "routeOrigins"), (case.excl.1, "routerKeys"), (case.excl.2, "aspas")].iter().filter(|e| e.0).map(|e| e.1).collect();
    if !ex.is_empty() {
        if case.comma_exclude {
            parts.push(format!("exclude={}", ex.join(",")));
        } else {
            for e in ex {
                parts.push(format!("exclude={}", e));
            }
        }
    }
    if parts.is_empty() {
        None
    } else {
        Some(parts.join("&"))
    }
}

//------------------------------------------------------------------------------------------
// Judging one document

fn msort<T: Ord + Clone>(v: &[T]) -> Vec<T> {
    let mut v = v.to_vec();
    v.sort();
    v
}

/// The known-finding key this (format, listed items) combination falls under, if any.
fn known_shape(format: &str, exp: &Expected) -> Option<&'static str> {
    let bad_ta = |i: &InfoSpec| matches!(i, InfoSpec::Published { tal, .. } if needs_json_escape(tal));
    let o = exp.origins.iter().any(|(_, i)| bad_ta(i));
    let k = exp.keys.iter().any(|(_, i)| bad_ta(i));
    let a = exp.aspas.iter().any(|(_, i)| bad_ta(i));
    match format {
        "json" if o || k || a => Some(KEY_JSON),
        "slurm" if o || k => Some(KEY_SLURM),
        "slurm2" if o || k || a => Some(KEY_SLURM2),
        "jsonext" => {
            let ctl = |i: &InfoSpec| i.strings().iter().any(|s| has_json_ctl(s));
            if exp.origins.iter().any(|(_, i)| ctl(i)) || exp.keys.iter().any(|(_, i)| ctl(i)) || exp.aspas.iter().any(|(_, i)| ctl(i)) {
                Some(KEY_JSONEXT)
            } else {
                None
            }
        }
        _ => None,
    }
}

fn judge_doc(format: &str, body: &[u8], case: &Case, exp: &Expected) -> Result<(), (String, String)> {
    let shape = known_shape(format, exp);
    let key = |k: &str| shape.map(|s| s.to_string()).unwrap_or_else(|| format!("C21/{}/{}", format, k));
    let listed = parse_output(format, body).map_err(|e| (key("malformed"), format!("{} output does not parse: {}; output: {:?}", format, e, truncate(&String::from_utf8_lossy(body), 600))))?;
    let lists_keys = matches!(format, "json" | "jsonext" | "slurm" | "slurm2");
    let lists_aspas = matches!(format, "json" | "jsonext" | "slurm2");
    let lists_origins = !matches!(format, "summary" | "none");
    // items, each once
    let want_o: Vec<MOrigin> = if lists_origins { exp.origins.iter().map(|(o, _)| if listed.without_maxlen { MOrigin { max_len: o.len, ..o.clone() } } else { o.clone() }).collect() } else { vec![] };
    let got_o: Vec<MOrigin> = listed.origins.iter().map(|(o, _)| o.clone()).collect();
    if msort(&got_o) != msort(&want_o) {
        let only_got: Vec<&MOrigin> = got_o.iter().filter(|o| !want_o.contains(o)).take(3).collect();
        let only_want: Vec<&MOrigin> = want_o.iter().filter(|o| !got_o.contains(o)).take(3).collect();
        return Err((key("origins-differ"), format!("{}: {} origins listed, {} expected; listed but not selected: {:?}; selected but not listed: {:?}", format, got_o.len(), want_o.len(), only_got, only_want)));
    }
    let want_k: Vec<MKey> = if lists_keys { exp.keys.iter().map(|(k, _)| k.clone()).collect() } else { vec![] };
    let got_k: Vec<MKey> = listed.keys.iter().map(|(k, _)| k.clone()).collect();
    if msort(&got_k) != msort(&want_k) {
        return Err((key("router-keys-differ"), format!("{}: router keys listed {:?}, expected {:?}", format, got_k, want_k)));
    }
    let want_a: Vec<MAspa> = if lists_aspas { exp.aspas.iter().map(|(a, _)| a.clone()).collect() } else { vec![] };
    let got_a: Vec<MAspa> = listed.aspas.iter().map(|(a, _)| a.clone()).collect();
    if msort(&got_a) != msort(&want_a) {
        return Err((key("aspas-differ"), format!("{}: ASPAs listed {:?}, expected {:?}", format, got_a, want_a)));
    }
    // members present exactly for the types that are not excluded (manual, json / jsonext)
    if matches!(format, "json" | "jsonext") && listed.members != (!case.excl.0, !case.excl.1, !case.excl.2) {
        return Err((key("members"), format!("{}: members (roas, routerKeys, aspas) present = {:?} with exclusions {:?}", format, listed.members, case.excl)));
    }
    // trust-anchor / comment strings decode to the injected ones
    match format {
        "csv" | "csvcompat" | "json" | "slurm" | "slurm2" => {
            let want: Vec<(MOrigin, String)> = exp.origins.iter().map(|(o, i)| (o.clone(), i.ta())).collect();
            let got: Vec<(MOrigin, String)> = listed.origins.iter().map(|(o, t)| (o.clone(), t.clone().unwrap_or_default())).collect();
            if msort(&got) != msort(&want) {
                return Err((key("ta-field"), format!("{}: origin trust-anchor fields {:?}, expected {:?}", format, got.iter().map(|g| &g.1).take(6).collect::<Vec<_>>(), want.iter().map(|g| &g.1).take(6).collect::<Vec<_>>())));
            }
            if lists_keys {
                let want: Vec<(MKey, String)> = exp.keys.iter().map(|(o, i)| (o.clone(), i.ta())).collect();
                let got: Vec<(MKey, String)> = listed.keys.iter().map(|(o, t)| (o.clone(), t.clone().unwrap_or_default())).collect();
                if msort(&got) != msort(&want) {
                    return Err((key("ta-field"), format!("{}: router key trust-anchor fields differ", format)));
                }
            }
            if lists_aspas {
                let want: Vec<(MAspa, String)> = exp.aspas.iter().map(|(o, i)| (o.clone(), i.ta())).collect();
                let got: Vec<(MAspa, String)> = listed.aspas.iter().map(|(o, t)| (o.clone(), t.clone().unwrap_or_default())).collect();
                if msort(&got) != msort(&want) {
                    return Err((key("ta-field"), format!("{}: ASPA trust-anchor fields differ", format)));
                }
            }
        }
        "csvext" => {
            let want: Vec<(MOrigin, String)> = exp.origins.iter().map(|(o, i)| (o.clone(), match i { InfoSpec::Published { uri: Some(u), .. } => u.clone(), _ => "N/A".into() })).collect();
            let got: Vec<(MOrigin, String)> = listed.origins.iter().map(|(o, t)| (o.clone(), t.clone().unwrap_or_default())).collect();
            if msort(&got) != msort(&want) {
                return Err((key("uri-field"), format!("csvext: URI fields {:?}, expected {:?}", got.iter().map(|g| &g.1).take(4).collect::<Vec<_>>(), want.iter().map(|g| &g.1).take(4).collect::<Vec<_>>())));
            }
        }
        "jsonext" => {
            let src = |kind: &str, i: &InfoSpec| match i {
                InfoSpec::Published { tal, .. } => vec![(kind.to_string(), Some(tal.clone()))],
                InfoSpec::Exception { comment, .. } => vec![("exception".to_string(), comment.clone())],
            };
            let mut want: Vec<(MItem, Vec<(String, Option<String>)>)> = Vec::new();
            want.extend(exp.origins.iter().map(|(o, i)| (MItem::Origin(o.clone()), src("roa", i))));
            want.extend(exp.keys.iter().map(|(o, i)| (MItem::Key(o.clone()), src("cer", i))));
            want.extend(exp.aspas.iter().map(|(o, i)| (MItem::Aspa(o.clone()), src("aspa", i))));
            let items: Vec<MItem> = listed.origins.iter().map(|(o, _)| MItem::Origin(o.clone())).chain(listed.keys.iter().map(|(o, _)| MItem::Key(o.clone()))).chain(listed.aspas.iter().map(|(o, _)| MItem::Aspa(o.clone()))).collect();
            let got: Vec<(MItem, Vec<(String, Option<String>)>)> = items.into_iter().zip(listed.sources.iter().cloned()).collect();
            if msort(&got) != msort(&want) {
                return Err((key("source-field"), format!("jsonext: source entries differ from the injected infos (first listed: {:?})", got.first())));
            }
        }
        _ => {}
    }
    // SLURM output must be accepted by the SLURM readers with exactly these assertions
    if format == "slurm" || format == "slurm2" {
        let text = String::from_utf8_lossy(body);
        let le = LocalExceptions::from_json(&text, true).map_err(|e| (key("not-a-slurm-file"), format!("{} output rejected by LocalExceptions::from_json: {}", format, e)))?;
        let got: Vec<(MOrigin, Option<String>)> = le.origin_assertions().map(|(o, i)| (MOrigin::from_rpki(o), i.comment.clone())).collect();
        let want: Vec<(MOrigin, Option<String>)> = exp.origins.iter().map(|(o, i)| (o.clone(), Some(i.ta()))).collect();
        if msort(&got) != msort(&want) {
            return Err((key("slurm-assertions"), format!("{}: prefix assertions read back differ from the listed origins", format)));
        }
        let got: Vec<(MKey, Option<String>)> = le.router_key_assertions().map(|(k, i)| (MKey::from_rpki(&k), i.comment.clone())).collect();
        let want: Vec<(MKey, Option<String>)> = exp.keys.iter().map(|(o, i)| (o.clone(), Some(i.ta()))).collect();
        if msort(&got) != msort(&want) {
            return Err((key("slurm-assertions"), format!("{}: bgpsec assertions read back differ from the listed keys", format)));
        }
        let file = rpki::slurm::SlurmFile::from_str(&text).map_err(|e| (key("not-a-slurm-file"), format!("{} output rejected by rpki SlurmFile: {}", format, e)))?;
        let got: Vec<(MAspa, Option<String>)> = file.assertions.aspa.iter().flatten().map(|a| (MAspa { customer: a.customer_asn.into_u32(), providers: a.provider_asns.iter().map(|p| p.into_u32()).collect() }, a.comment.clone())).collect();
        let want: Vec<(MAspa, Option<String>)> = if format == "slurm2" { exp.aspas.iter().map(|(o, i)| (o.clone(), Some(i.ta()))).collect() } else { vec![] };
        if msort(&got) != msort(&want) {
            return Err((key("slurm-assertions"), format!("{}: ASPA assertions read back {:?}, expected {:?}", format, got, want)));
        }
    }
    Ok(())
}

//------------------------------------------------------------------------------------------
// The property

pub struct Env<'a> {
    pub kit: &'a Kit,
    pub rt: &'a tokio::runtime::Runtime,
    pub ctx: &'a Ctx,
    pub exclude: bool,
    pub excluded: RefCell<BTreeMap<&'static str, u64>>,
}

fn build_output(case: &Case, r: &Resolved) -> Result<Output, String> {
    if case.via == 0 {
        let mut out = Output::new();
        if !r.sel_asns.is_empty() || !r.sel_prefixes.is_empty() {
            let mut sel = Selection::new();
            for p in &r.sel_prefixes {
                sel.push_prefix(Prefix::new(p.0, p.1).map_err(|e| e.to_string())?);
            }
            for (a, _) in &r.sel_asns {
                sel.push_asn(Asn::from_u32(*a));
            }
            sel.set_more_specifics(case.more_specifics);
            out.set_selection(sel);
        }
        if case.excl.0 {
            out.no_route_origins();
        }
        if case.excl.1 {
            out.no_router_keys();
        }
        if case.excl.2 {
            out.no_aspas();
        }
        Ok(out)
    } else {
        Output::from_query(query_string(case, r).as_deref()).map_err(|e| format!("well-formed query {:?} rejected: {}", query_string(case, r), e))
    }
}

fn snapshot_of(r: &Resolved) -> PayloadSnapshot {
    PayloadSnapshot::new(
        r.origins.iter().map(|(o, i)| (o.to_rpki(false), i.to_info())),
        r.keys.iter().map(|(k, i)| (k.to_rpki(), i.to_info())),
        r.aspas.iter().map(|(a, i)| (a.to_rpki(), i.to_info())),
        None,
    )
}

fn metrics_for(r: &Resolved) -> Metrics {
    let mut m = Metrics::new();
    let mut names: Vec<String> = r.origins.iter().map(|(_, i)| i).chain(r.keys.iter().map(|(_, i)| i)).chain(r.aspas.iter().map(|(_, i)| i)).filter_map(|i| if let InfoSpec::Published { tal, .. } = i { Some(tal.clone()) } else { None }).collect();
    names.sort();
    names.dedup();
    for n in names.into_iter().take(3) {
        m.tals.push(TalMetrics::new(TalInfo::from_name(n).into_arc()));
    }
    m
}

fn install_served(env: &Env, r: &Resolved) -> Served {
    let served = Served::new(env.ctx.scratch(), 2, false);
    let mut pubs: BTreeMap<String, PubSpec> = BTreeMap::new();
    let mut local = LocalSpec::default();
    for (o, i) in &r.origins {
        match i {
            InfoSpec::Published { tal, .. } => pubs.entry(tal.clone()).or_insert_with(|| PubSpec { tal_name: tal.clone(), ..Default::default() }).origins.push(o.clone()),
            InfoSpec::Exception { comment, .. } => local.origins.push((o.clone(), comment.clone())),
        }
    }
    for (k, i) in &r.keys {
        if let InfoSpec::Exception { comment, .. } = i {
            local.keys.push((k.clone(), comment.clone()));
        }
    }
    for (a, i) in &r.aspas {
        if let InfoSpec::Published { tal, .. } = i {
            pubs.entry(tal.clone()).or_insert_with(|| PubSpec { tal_name: tal.clone(), ..Default::default() }).aspas.push(a.clone());
        }
    }
    let pubs: Vec<PubSpec> = pubs.into_values().collect();
    served.update(env.kit, &pubs, &local, Metrics::new());
    served
}

pub fn prop(env: &Env, case: &Case, info: &mut CaseInfo) -> Verdict {
    let r = resolve(case);
    let exp = expected(case, &r);
    let listed_total = exp.origins.len() + exp.keys.len() + exp.aspas.len();
    let has_sel = !r.sel_asns.is_empty() || !r.sel_prefixes.is_empty();
    let selective = has_sel && listed_total > 0 && exp.rejected > 0;
    info.class(format!("via={}", case.via));
    if has_sel {
        info.class(if selective { "selection_splits_data" } else if exp.rejected == 0 { "selection_admits_all" } else { "selection_admits_none" });
    }
    if case.more_specifics && !r.sel_prefixes.is_empty() {
        info.class("more_specifics");
    }
    if case.excl != (false, false, false) {
        info.class("type_excluded");
    }
    let all_strings: Vec<&str> = exp.origins.iter().map(|(_, i)| i).chain(exp.keys.iter().map(|(_, i)| i)).chain(exp.aspas.iter().map(|(_, i)| i)).flat_map(|i| i.strings()).collect();
    if all_strings.iter().any(|s| needs_json_escape(s)) {
        info.class("listed_string_needs_json_escape");
    }
    if all_strings.iter().any(|s| !s.is_ascii()) {
        info.class("listed_string_non_ascii");
    }
    // render
    let mut docs: Vec<(&str, Vec<u8>, usize)> = Vec::new();
    if case.via == 2 {
        let served = install_served(env, &r);
        let q = query_string(case, &r).map(|q| format!("?{}", q)).unwrap_or_default();
        for f in FORMATS.iter().cloned().chain(std::iter::once("origins-api")) {
            let uri = if f == "origins-api" { format!("/api/v1/origins/{}", q) } else { format!("/{}{}", f, q) };
            let resp = get(env.rt, &served.handler, &uri);
            if resp.status != 200 {
                return Verdict::fail(format!("C21/{}/http-status", f), format!("GET {} -> {} {:?}", uri, resp.status, String::from_utf8_lossy(&resp.body())));
            }
            docs.push((if f == "origins-api" { "json" } else { f }, resp.body(), resp.chunks.len()));
        }
    } else {
        let output = match build_output(case, &r) {
            Ok(o) => o,
            Err(e) => return Verdict::fail("C21/query-rejected", e),
        };
        let snapshot = Arc::new(snapshot_of(&r));
        let metrics = Arc::new(metrics_for(&r));
        for f in FORMATS {
            let format = OutputFormat::from_str(f).expect("format name");
            let chunks: Vec<bytes::Bytes> = output.clone().stream(snapshot.clone(), metrics.clone(), format).collect();
            let body: Vec<u8> = chunks.iter().flat_map(|c| c.iter().cloned()).collect();
            if *f != "rpsl" {
                let mut written = Vec::new();
                output.clone().write(snapshot.clone(), metrics.clone(), format, &mut written).expect("write to vec");
                if written != body {
                    return Verdict::fail(format!("C21/{}/stream-vs-write", f), format!("{}: Output::stream ({} bytes in {} chunks) and Output::write ({} bytes) differ", f, body.len(), chunks.len(), written.len()));
                }
            }
            docs.push((f, body, chunks.len()));
        }
    }
    let mut judged_escape = false;
    for (f, body, nchunks) in &docs {
        if *nchunks >= 2 {
            info.class("multi_chunk_document");
        }
        if let Some(k) = known_shape(f, &exp) {
            if env.exclude && env.ctx.known_key(k).is_some() && !env.ctx.strict {
                *env.excluded.borrow_mut().entry(k).or_default() += 1;
                info.class(format!("{}_not_judged(known shape)", f));
                continue;
            }
        }
        if matches!(*f, "json" | "jsonext" | "slurm" | "slurm2") && all_strings.iter().any(|s| needs_json_escape(s) || !s.is_ascii()) {
            judged_escape = true;
        }
        if let Err((key, msg)) = judge_doc(f, body, case, &exp) {
            return Verdict::fail(key, msg);
        }
    }
    info.nt(selective || judged_escape);
    Verdict::Pass
}

//------------------------------------------------------------------------------------------
// Generators

fn info_strategy(class: StrClass) -> BoxedStrategy<InfoSpec> {
    let uri = prop::option::of((0u32..40).prop_map(|n| format!("rsync://repo.test/mod/obj-{}.roa", n)));
    prop_oneof![
        3 => (text_strategy(class, 10), uri).prop_map(|(tal, uri)| InfoSpec::Published { tal, uri }),
        1 => Just(InfoSpec::Published { tal: "ripe".into(), uri: None }),
        2 => (prop::option::of(text_strategy(class, 12)), prop::option::weighted(0.3, text_strategy(class, 10).prop_map(|s| format!("/etc/{}", s.replace('\0', ""))))).prop_map(|(comment, path)| InfoSpec::Exception { comment, path }),
    ]
    .boxed()
}

fn case_of_class(class: StrClass) -> BoxedStrategy<Case> {
    let asn_sel = (prop_oneof![4 => Just(0u8), 2 => Just(1u8), 2 => Just(2u8), 1 => Just(3u8), 1 => Just(4u8)], any::<usize>(), asn_strategy(), any::<bool>()).prop_map(|(kind, idx, rnd, bare)| AsnSel { kind, idx, rnd, bare });
    let pfx_sel = (any::<usize>(), prop_oneof![3 => Just(0u8), 3 => Just(1u8), 3 => Just(2u8), 1 => Just(3u8), 1 => Just(4u8), 1 => Just(5u8)], any::<u8>(), any::<u128>()).prop_map(|(idx, rel, k, bits)| PrefixSel { idx, rel, k, bits });
    (
        (prop::collection::vec((origin_strategy(), info_strategy(class)), 0..=16), prop::collection::vec((key_strategy(), info_strategy(class)), 0..=5), prop::collection::vec((aspa_strategy(), info_strategy(class)), 0..=5)),
        prop_oneof![30 => Just(0u32), 1 => 480u32..620],
        (prop::collection::vec(asn_sel, 0..=3), prop::collection::vec(pfx_sel, 0..=3), any::<bool>()),
        (prop::bool::weighted(0.15), prop::bool::weighted(0.2), prop::bool::weighted(0.2)),
        (0u8..3, any::<bool>(), any::<bool>()),
    )
        .prop_map(|((origins, keys, aspas), fill, (asns, prefixes, more_specifics), excl, (via, alias, comma_exclude))| Case { origins, keys, aspas, fill, asns, prefixes, more_specifics, excl, via, alias, comma_exclude })
        .boxed()
}

fn case_strategy() -> BoxedStrategy<Case> {
    prop_oneof![
        2 => case_of_class(StrClass::Plain),
        6 => case_of_class(StrClass::Tame),
        3 => case_of_class(StrClass::Quoted),
        2 => case_of_class(StrClass::Ctl),
        2 => case_of_class(StrClass::Wild),
    ]
    .boxed()
}

//------------------------------------------------------------------------------------------
// Parser self-test against routinator's own fixtures

fn selftest() -> Result<(), String> {
    let o = MOrigin::new("12.34.56.0".parse().unwrap(), 24, None, 1234);
    let k = MKey { ski: [0u8; 20], asn: 1234, info: vec![0u8; 64] };
    let a = MAspa::new(1234, [1, 2, 3, 4]);
    let dir = Path::new("/repo/test/output");
    let mut n = 0;
    for f in FORMATS.iter().filter(|f| **f != "rpsl") {
        for bits in 0..8u8 {
            let (ro, rk, ra) = (bits & 4 != 0, bits & 2 != 0, bits & 1 != 0);
            let path = dir.join(format!("{}{}{}.{}", ro as u8, rk as u8, ra as u8, f));
            let data = std::fs::read(&path).map_err(|e| format!("{}: {}", path.display(), e))?;
            let listed = parse_output(f, &data).map_err(|e| format!("fixture {} rejected by the {} parser: {}", path.display(), f, e))?;
            let lists_keys = matches!(*f, "json" | "jsonext" | "slurm" | "slurm2");
            let lists_aspas = matches!(*f, "json" | "jsonext" | "slurm2");
            let lists_origins = !matches!(*f, "summary" | "none");
            let want_o = if ro && lists_origins { vec![o.clone(), o.clone()] } else { vec![] };
            let want_k = if rk && lists_keys { vec![k.clone(), k.clone()] } else { vec![] };
            let want_a = if ra && lists_aspas { vec![a.clone(), a.clone()] } else { vec![] };
            if listed.origins.iter().map(|x| x.0.clone()).collect::<Vec<_>>() != want_o || listed.keys.iter().map(|x| x.0.clone()).collect::<Vec<_>>() != want_k || listed.aspas.iter().map(|x| x.0.clone()).collect::<Vec<_>>() != want_a {
                return Err(format!("fixture {}: parser lists {:?}", path.display(), listed));
            }
            if matches!(*f, "csv" | "csvcompat" | "json" | "slurm" | "slurm2") && listed.origins.iter().any(|x| x.1.as_deref() != Some("N/A")) {
                return Err(format!("fixture {}: trust-anchor field not decoded as N/A", path.display()));
            }
            if matches!(*f, "json" | "jsonext") && listed.members != (ro, rk, ra) {
                return Err(format!("fixture {}: members {:?}", path.display(), listed.members));
            }
            n += 1;
        }
    }
    if n != 96 {
        return Err(format!("{} fixtures checked, expected 96", n));
    }
    // hand-written samples
    let rpsl = "\nroute: 93.175.147.0/24\norigin: AS196615\ndescr: RPKI attestation\nmnt-by: NA\ncreated: 2021-05-07T14:28:17Z\nlast-modified: 2021-05-07T14:28:17Z\nsource: ROA-RIPE-RPKI-ROOT\n\n\nroute6: 2001:7fb:fd03::/48\norigin: AS196615\ndescr: RPKI attestation\nmnt-by: NA\ncreated: 2021-05-07T14:28:17Z\nlast-modified: 2021-05-07T14:28:17Z\nsource: ROA-MY\nTAL-RPKI-ROOT\n\n";
    let l = parse_output("rpsl", rpsl.as_bytes()).map_err(|e| format!("rpsl sample rejected: {}", e))?;
    if l.origins.len() != 2 || l.origins[0].1.as_deref() != Some("RIPE") || l.origins[1].0.asn != 196615 {
        return Err(format!("rpsl sample parsed as {:?}", l.origins));
    }
    let csv = "ASN,IP Prefix,Max Length,Trust Anchor\nAS1,10.0.0.0/8,8,a,b\nc\nAS2,::/0,128,x\n";
    let l = parse_output("csv", csv.as_bytes()).map_err(|e| format!("csv sample rejected: {}", e))?;
    if l.origins.len() != 2 || l.origins[0].1.as_deref() != Some("a,b\nc") {
        return Err(format!("csv sample parsed as {:?}", l.origins));
    }
    let compat = "\"ASN\",\"IP Prefix\",\"Max Length\",\"Trust Anchor\"\n\"AS1\",\"10.0.0.0/8\",\"8\",\"a\"b\"\n";
    let l = parse_output("csvcompat", compat.as_bytes()).map_err(|e| format!("csvcompat sample rejected: {}", e))?;
    if l.origins.len() != 1 || l.origins[0].1.as_deref() != Some("a\"b") {
        return Err(format!("csvcompat sample parsed as {:?}", l.origins));
    }
    let bad: &[(&str, &str)] = &[
        ("json", "{ \"metadata\": { \"generated\": 0, \"generatedTime\": \"x\" }, \"roas\": [ { \"asn\": \"AS1\", \"prefix\": \"10.0.0.0/8\", \"maxLength\": 8, \"ta\": \"a\"b\" } ] }"),
        ("json", "{ \"metadata\": { \"generated\": 0, \"generatedTime\": \"x\" }, \"roas\": [ { \"asn\": \"AS1\", \"prefix\": \"10.0.0.0/8\", \"maxLength\": 8, \"ta\": \"a\" } { \"asn\": \"AS1\", \"prefix\": \"10.0.0.0/8\", \"maxLength\": 8, \"ta\": \"a\" } ] }"),
        ("json", "{ \"metadata\": { \"generated\": 0, \"generatedTime\": \"x\" }, \"roas\": [ { \"asn\": \"AS1\", \"prefix\": \"10.0.0.1/8\", \"maxLength\": 8, \"ta\": \"a\" } ] }"),
        ("jsonext", "{ \"metadata\": { \"generated\": 0, \"generatedTime\": \"x\" }, \"roas\": [ { \"asn\": \"AS1\", \"prefix\": \"10.0.0.0/8\", \"maxLength\": 8, \"source\": [ { \"type\": \"exception\", \"path\": null, \"comment\": \"tab\there\" } ] } ] }"),
        ("slurm", "{ \"slurmVersion\": 2, \"validationOutputFilters\": { \"prefixFilters\": [ ], \"bgpsecFilters\": [ ] }, \"locallyAddedAssertions\": { \"prefixAssertions\": [ ], \"bgpsecAssertions\": [ ] } }"),
        ("slurm2", "{ \"slurmVersion\": 2, \"validationOutputFilters\": { \"prefixFilters\": [ ], \"bgpsecFilters\": [ ], \"aspaFilters\": [ ] }, \"locallyAddedAssertions\": { \"prefixAssertions\": [ { \"asn\": 1, \"prefix\": \"10.0.0.0/8\", \"comment\": \"x\" }, ], \"bgpsecAssertions\": [ ], \"aspaAssertions\": [ ] } }"),
        ("csv", "ASN,IP Prefix,Max Length\nAS1,10.0.0.0/8,8,x\n"),
        ("csv", "ASN,IP Prefix,Max Length,Trust Anchor\ngarbage\n"),
        ("csvext", "URI,ASN,IP Prefix,Max Length,Not Before,Not After\nN/A,AS1,10.0.0.0/8,8,N/A\n"),
        ("bird1", "roa 10.0.0.0/8 max 8 as 1\n"),
        ("bird2", "roa 10.0.0.0/8 max 8 as 1;\n"),
        ("openbgpd", "roa-set {\n    10.0.0.0/8 source-as 1\n"),
        ("openbgpd", "roa-set {\n    10.0.0.0/8 maxlen 8 source-as 1\n}\n"),
        ("none", "x"),
    ];
    for (f, text) in bad {
        if parse_output(f, text.as_bytes()).is_ok() {
            return Err(format!("malformed {} sample accepted: {:?}", f, text));
        }
    }
    Ok(())
}

fn directed_case(tal: &str, comment: Option<&str>) -> Case {
    Case {
        origins: vec![
            (MOrigin::new("192.0.2.0".parse().unwrap(), 24, None, 64496), InfoSpec::Published { tal: tal.into(), uri: None }),
            (MOrigin::new("2001:db8::".parse().unwrap(), 32, Some(48), 64497), InfoSpec::Exception { comment: comment.map(|s| s.to_string()), path: None }),
        ],
        keys: vec![(MKey { ski: [7; 20], asn: 64496, info: vec![1, 2, 3] }, InfoSpec::Published { tal: tal.into(), uri: None })],
        aspas: vec![(MAspa::new(64496, [64497, 64498]), InfoSpec::Published { tal: tal.into(), uri: None })],
        fill: 0,
        asns: vec![],
        prefixes: vec![],
        more_specifics: false,
        excl: (false, false, false),
        via: 0,
        alias: false,
        comma_exclude: false,
    }
}

pub fn run(ctx: &Ctx, rep: &mut Report, replay: Option<&serde_json::Value>) {
    rep.rule(
        "data sets of 0..=16 origins, 0..=5 router keys, 0..=5 ASPAs (plus, in ~3% of cases, 480..620 fixed-width origins so the stream spans chunks), each item with a published-object info (TAL name, optional rsync URI) or a local-exception info (optional comment, optional path); every free-text string of a case from one class (plain / no quote, backslash, C0 control / with quote+backslash / with C0 controls / anything; no ASCII digits); 0..=3 ASN selectors (an origin's, key's, ASPA customer's or provider's AS, random) and 0..=3 prefix selectors derived from the origins (equal, more specific, less specific, sibling, random, other family), more-specifics on/off, each payload type excluded with p=0.15..0.2; built like the vrps command (Selection), via Output::from_query (select-*/filter-* aliases, exclude comma or repeated) or fetched from the real dispatcher (/FORMAT?query and /api/v1/origins/); all 13 formats per case; non-trivial = selection admits some and rejects some items, or a judged JSON/SLURM document renders a string needing escaping or non-ASCII; distinct by serialised case",
    );
    rep.assume("router keys and ASPAs are selected by select-asn (key AS / customer AS) only; prefix selectors never select them");
    rep.assume("csv, csvcompat and rpsl are parsed record-wise with trust-anchor names allowed to span lines (names contain no digits, so they cannot imitate a record head); their well-formedness for such names is not demanded by the property");
    rep.assume("via the HTTP dispatcher infos are limited to what a validation run can produce with the harness trust anchor: published origins/ASPAs without object URI, router keys and commented origins as SLURM assertions");
    if let Err(e) = selftest() {
        eprintln!("C21 preamble failed: {}", e);
        std::process::exit(2);
    }
    let kit = Kit::new();
    let rt = runtime();
    let env = Env { kit: &kit, rt: &rt, ctx, exclude: true, excluded: RefCell::new(BTreeMap::new()) };
    if let Some(v) = replay {
        let t: Tagged<Case> = serde_json::from_value(v.clone()).expect("replay");
        run_case(ctx, rep, &t.sub, &t.case, |c, i| prop(&env, c, i));
        return;
    }
    // Directed representatives: one per known key (each judged on the one format of its key),
    // and neighbours that must pass.
    let all = Env { kit: &kit, rt: &rt, ctx, exclude: false, excluded: RefCell::new(BTreeMap::new()) };
    let only = |fmt: &'static str| {
        move |c: &Case, i: &mut CaseInfo| {
            let r = resolve(c);
            let exp = expected(c, &r);
            let output = build_output(c, &r).expect("output");
            let mut body = Vec::new();
            output.write(Arc::new(snapshot_of(&r)), Arc::new(metrics_for(&r)), OutputFormat::from_str(fmt).unwrap(), &mut body).unwrap();
            i.nt(true);
            i.class(format!("directed:{}", fmt));
            match judge_doc(fmt, &body, c, &exp) {
                Ok(()) => Verdict::Pass,
                Err((k, m)) => Verdict::fail(k, m),
            }
        }
    };
    run_case(ctx, rep, "directed-json", &directed_case("my \"own\" tal", None), only("json"));
    run_case(ctx, rep, "directed-slurm", &directed_case("dir\\tal", None), only("slurm"));
    run_case(ctx, rep, "directed-slurm2", &directed_case("tab\ttal", None), only("slurm2"));
    run_case(ctx, rep, "directed-jsonext", &directed_case("ripe", Some("added by\u{1b}[1m ops\r\n")), only("jsonext"));
    // neighbours: quotes / backslashes in jsonext (escaped there), non-ASCII names, quotes in comments
    run_case(ctx, rep, "directed-jsonext", &directed_case("my \"own\" \\ tal", Some("say \"hi\" \\o/")), only("jsonext"));
    run_case(ctx, rep, "all", &directed_case("ta-ünï-😀, {x}", Some("ok")), |c, i| prop(&all, c, i));
    run_prop(ctx, rep, "all", ctx.tier.pick(5000, 120_000), case_strategy(), |c, i| prop(&env, c, i));
    for (k, n) in env.excluded.borrow().iter() {
        for _ in 0..*n {
            rep.exclude_known(k);
        }
    }
}
