//! C27, whole-engine leg: corrupt files placed in a real cache directory, followed by a full
//! validation run in a child process. The run may succeed (data discarded and re-fetched / stored
//! copy ignored) or end with a reported error; it must not die from a signal, panic, or ask the
//! allocator for a block far beyond anything in the cache.

use std::path::{Path, PathBuf};

use proptest::prelude::*;
use serde::{Deserialize, Serialize};

use crate::core::*;
use crate::crash::*;
use crate::erpki::*;
use crate::erun::scratch_base;
use crate::escen::*;

#[derive(Serialize, Deserialize, Clone, Debug)]
pub struct ECase {
    pub sc: Scenario,
    /// which file under cache/stored (index into the sorted list, modulo)
    pub file_sel: u16,
    /// 0 truncate at pos, 1 flip a bit at pos, 2 eight 0xff bytes at pos, 3 four bytes 7f ff ff ff at pos,
    /// 4 empty file, 5 append garbage, 6 replace by pseudo-random bytes of the same length,
    /// 7 eight bytes 00 00 00 00 00 10 00 00 (1 MiB length) at pos
    pub kind: u8,
    /// position in per-mille of the file length
    pub pos: u16,
    pub bit: u8,
    pub second_run_offline: bool,
    pub second_run_fail_modules: bool,
}

fn case(words: &[u16]) -> ECase {
    let p = Profile { max_cas: 5, max_tals: 2, max_objs: 4, versions: 2, fault_16: 0, obj_faults: false, cert_faults: false, pp_faults: false, vary_cfg: true, modules: 2, rrdp_16: 0, rrdp_repos: 2 };
    let mut sc = single_run(words, &p);
    let n = sc.cas.len();
    sc.steps.push(Step { publish: vec![1; n], fail_modules: vec![], offline: false, stale: None, foreign_tal_key: vec![], ta_serve: vec![], fail_rrdp: vec![] });
    // regular numbering for the second version
    for ca in sc.cas.iter_mut() {
        if ca.versions.len() > 1 {
            ca.versions[1].number = ca.versions[0].number + 10;
            ca.versions[1].this_off = ca.versions[0].this_off + 600;
        }
    }
    let mut d = D::new(words);
    for _ in 0..19 {
        d.next();
    }
    ECase { sc, file_sel: d.next(), kind: d.below(8) as u8, pos: d.below(1001) as u16, bit: d.below(8) as u8, second_run_offline: d.chance(1, 3), second_run_fail_modules: d.chance(1, 3) }
}

fn files_under(dir: &Path) -> Vec<PathBuf> {
    let mut out = Vec::new();
    fn walk(p: &Path, out: &mut Vec<PathBuf>) {
        if let Ok(rd) = std::fs::read_dir(p) {
            for e in rd.flatten() {
                let p = e.path();
                if p.is_dir() {
                    walk(&p, out)
                } else {
                    out.push(p)
                }
            }
        }
    }
    walk(dir, &mut out);
    out.sort();
    out
}

fn corrupt(data: &[u8], c: &ECase) -> Vec<u8> {
    let len = data.len();
    let pos = (len * c.pos as usize) / 1000;
    let mut v = data.to_vec();
    let put = |v: &mut Vec<u8>, pos: usize, bytes: &[u8]| {
        for (i, b) in bytes.iter().enumerate() {
            if pos + i < v.len() {
                v[pos + i] = *b;
            }
        }
    };
    match c.kind {
        0 => v.truncate(pos),
        1 => {
            if len > 0 {
                let p = pos.min(len - 1);
                v[p] ^= 1 << (c.bit % 8);
            }
        }
        2 => put(&mut v, pos, &[0xff; 8]),
        3 => put(&mut v, pos, &[0x7f, 0xff, 0xff, 0xff]),
        4 => v.clear(),
        5 => v.extend_from_slice(b"\xde\xad\xbe\xef trailing garbage"),
        6 => {
            let mut x: u32 = 0x9E37_79B9 ^ (c.pos as u32);
            for b in v.iter_mut() {
                x ^= x << 13;
                x ^= x >> 17;
                x ^= x << 5;
                *b = x as u8;
            }
        }
        _ => put(&mut v, pos, &[0, 0, 0, 0, 0, 0x10, 0, 0]),
    }
    v
}

fn prop(c: &ECase, info: &mut CaseInfo) -> Verdict {
    let mut world = World::new(&c.sc, scratch_base());
    let ex = empty_exceptions();
    world.publish(&c.sc.steps[0]);
    if let Err(e) = world.run(false, &ex) {
        return Verdict::fail("C27/engine/clean-first-run-failed", e);
    }
    let files = files_under(&world.cache().join("stored"));
    if files.is_empty() {
        return Verdict::Dropped("nothing_stored".into());
    }
    let target = files[c.file_sel as usize % files.len()].clone();
    let rel = target.strip_prefix(world.cache()).unwrap().display().to_string();
    let class = if rel.ends_with("status.bin") {
        "status"
    } else if rel.starts_with("stored/ta/") {
        "trust-anchor"
    } else if rel.starts_with("stored/rsync/") || rel.starts_with("stored/rrdp/") {
        "stored-point"
    } else {
        "other"
    };
    let data = std::fs::read(&target).unwrap_or_default();
    let bad = corrupt(&data, c);
    if bad == data {
        return Verdict::Dropped("corruption_is_identity".into());
    }
    std::fs::write(&target, &bad).unwrap();
    info.class(format!("file={}", class));
    info.class(format!("kind={}", c.kind));
    info.nt(class != "other" && !data.is_empty() && (c.kind == 4 || (data.len() * c.pos as usize) / 1000 >= 1));
    // second run in a child process
    let mut step = c.sc.steps[1].clone();
    step.offline = c.second_run_offline;
    if c.second_run_fail_modules {
        step.fail_modules = (0..4).collect();
    }
    world.publish(&step);
    let dir = world.dir.path().join("victim");
    let job = VictimJob { cfg: c.sc.cfg.clone(), paths: world.paths(), offline: step.offline, out: dir.join("result.json") };
    std::env::set_var("RV_ALLOC_LIMIT", (64usize << 20).to_string());
    let res = match spawn_victim(&job, &dir, None) {
        Ok(r) => r,
        Err(e) => return Verdict::Dropped(format!("spawn_failed:{}", truncate(&e, 60))),
    };
    if res.watchdog {
        return Verdict::Dropped("watchdog".into());
    }
    let what = format!("{} ({} bytes) corrupted with kind {} at per-mille {}; second run offline={} modules_fail={}", rel, data.len(), c.kind, c.pos, step.offline, c.second_run_fail_modules);
    match (res.code, res.signal) {
        (Some(0), _) | (Some(3), _) => Verdict::Pass,
        (Some(77), _) => Verdict::fail(format!("C27/engine/allocation-over-limit/file={}", class), format!("{}: a single allocation above 64 MiB was requested; stderr: {}", what, truncate(&String::from_utf8_lossy(&res.stderr), 400))),
        (Some(101), _) => Verdict::fail(format!("C27/engine/panic/file={}", class), format!("{}: the run panicked: {}", what, truncate(&String::from_utf8_lossy(&res.stderr), 600))),
        (Some(code), _) => Verdict::fail(format!("C27/engine/unexpected-exit/file={}", class), format!("{}: exit code {}: {}", what, code, truncate(&String::from_utf8_lossy(&res.stderr), 400))),
        (None, sig) => Verdict::fail(format!("C27/engine/died/file={}", class), format!("{}: killed by signal {:?}: {}", what, sig, truncate(&String::from_utf8_lossy(&res.stderr), 600))),
    }
}

pub fn run(ctx: &Ctx, rep: &mut Report, replay: Option<&serde_json::Value>) {
    rep.rule("engine leg: an E-rpki world is validated once (store, status file, trust anchors written by routinator itself), then one file under cache/stored is corrupted (truncation at a generated position, bit flip, 0xff / 0x7fffffff / 1 MiB length patterns, emptied, garbage appended, replaced by noise) and a second validation run (online, offline, or with every module unreachable) is executed in a child process with a 64 MiB cap on any single allocation; oracle: the child exits 0 or with the reported run error, never by signal / panic / allocation cap; non-trivial = a stored point, status or trust-anchor file corrupted past its first byte");
    if let Some(v) = replay {
        let t: Tagged<ECase> = serde_json::from_value(v.clone()).expect("replay");
        run_case(ctx, rep, "engine", &t.case, prop);
        return;
    }
    let saved = ctx.shrink_iters.load(std::sync::atomic::Ordering::Relaxed);
    ctx.shrink_iters.store(60, std::sync::atomic::Ordering::Relaxed);
    run_prop_par(ctx, rep, "engine", ctx.tier.pick(240, 6000), 8, || genome(200).prop_map(|w| case(&w)), prop);
    ctx.shrink_iters.store(saved, std::sync::atomic::Ordering::Relaxed);
}
