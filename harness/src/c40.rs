//! C40 Cleanup keeps everything still needed.
//!
//! E-rpki histories of 2-5 runs in which CAs appear in / vanish from their parent's manifest, move
//! between rsync modules (same key re-certified with a SIA in another module), never succeed, and
//! in which modules are unreachable, runs are offline, `dirty` is on or off and failing runs are
//! interleaved (forced outcome; initial quick run that meets a new point; a stored point path that
//! cannot be read). After each successful run:
//!  (a) every stored point of the model (its manifest EE certificate is unexpired) still exists,
//!      read with routinator's reader, byte-identical;
//!  (b) the rsync module copies the model retains (attempted in this run or hosting a retained
//!      stored point) exist with the files of the version last transferred (directory listing);
//!  (c) a probe run over a copy of the cache with every module unreachable reproduces the model's
//!      payload from the cache alone;
//!  dirty => nothing that existed before the run is gone; failed run => nothing is gone.
//! Thorough tier only: manifests whose EE certificate expires 4 s after issuing, second run after
//! the expiry (wide margins, dropped when the machine is too slow).

use std::collections::BTreeSet;
use std::path::PathBuf;

use proptest::strategy::Strategy;
use serde::{Deserialize, Serialize};

use crate::core::*;
use crate::crash::{copy_tree, list_tree};
use crate::erpki::*;
use crate::erun::scratch_base;
use crate::escen::*;

#[derive(Serialize, Deserialize, Clone, Copy, Debug, PartialEq, Eq)]
pub enum Mode {
    Normal,
    /// `ValidationReport::process` fails before the run (verif hook), retryable / fatal
    ForcedRetry,
    ForcedFatal,
    /// initial quick run (`initial = true`, no collector): fails when it meets a new point
    Initial,
    /// the stored point path of the CA (index modulo the attempted ones) is a directory: the run
    /// fails while opening it
    PointBlocked(u8),
}

#[derive(Serialize, Deserialize, Clone, Debug)]
pub struct Case {
    pub sc: Scenario,
    pub modes: Vec<Mode>,
    /// seconds to sleep before step i (expiry cases only)
    #[serde(default)]
    pub sleep_before: Vec<u64>,
}

const MODULES: usize = 3;

pub fn case(words: &[u16]) -> Case {
    let mut d = D::new(words);
    let p = Profile { max_objs: 3, obj_faults: false, pp_faults: false, cert_faults: false, ..Default::default() };
    let mut cfg = Cfg { threads: d.pick(&[2usize, 1, 4]), ..Default::default() };
    cfg.dirty = d.chance(1, 4);
    cfg.unsafe_vrps = d.pick(&[2u8, 0]);
    let nsteps = 2 + d.below(4);
    let nver = nsteps.min(3);
    let ntals = 1 + d.below(2);
    let ncas = ntals + 2 + d.below(4);
    let mut cas: Vec<Ca> = Vec::new();
    // presence[i][v]: is CA i's certificate published by version v of its parent
    let mut presence: Vec<Vec<bool>> = Vec::new();
    let patterns: [[bool; 3]; 6] = [[true, true, true], [true, false, false], [false, true, true], [true, true, false], [true, false, true], [false, false, true]];
    for i in 0..ncas {
        let parent = if i < ntals { None } else { Some(d.below(i)) };
        let module = d.below(MODULES);
        let never_ok = parent.is_some() && d.chance(1, 6);
        let versions: Vec<Version> = (0..nver)
            .map(|v| {
                let mut ver = decode_version(&mut d, &p, v);
                if ver.objs.is_empty() {
                    ver.objs.push(decode_obj(&mut d, &p));
                }
                ver.number = 100 + 10 * v as u64;
                ver.this_off = -40_000 + 600 * v as i64;
                if never_ok {
                    ver.fault = Some(PpFault::MftBadSig);
                }
                ver
            })
            .collect();
        cas.push(Ca { parent, key: i, module, not_after: 86400 * 365, cert_fault: None, versions, extra_res: None, ta_alt: vec![], sia_under_parent_mft: false, rrdp: None });
        presence.push(if parent.is_some() && d.chance(1, 2) { patterns[d.below(6)].to_vec() } else { vec![true; 3] });
    }
    // a moved CA: same key and parent as an existing non-root CA, another module, complementary presence
    if ncas > ntals && d.chance(1, 2) && cas.len() < 10 {
        let j = ntals + d.below(ncas - ntals);
        let mut moved = cas[j].clone();
        moved.module = (cas[j].module + 1 + d.below(MODULES - 1)) % MODULES;
        let at = 1 + d.below(nver.max(2) - 1);
        presence[j] = (0..3).map(|v| v < at).collect();
        presence.push((0..3).map(|v| v >= at).collect());
        cas.push(moved);
    }
    for i in 0..cas.len() {
        if let Some(pa) = cas[i].parent {
            for v in 0..cas[pa].versions.len() {
                if !presence[i][v.min(2)] {
                    cas[pa].versions[v].omit_children.push(i);
                }
            }
        }
    }
    let mut steps = Vec::new();
    let mut modes = Vec::new();
    for s in 0..nsteps {
        let publish = cas.iter().map(|ca| s.min(ca.versions.len() - 1)).collect();
        let fail_modules = (0..MODULES).filter(|_| d.chance(1, 8)).collect();
        let offline = s > 0 && d.chance(1, 10);
        steps.push(Step { publish, fail_modules, offline, stale: None, foreign_tal_key: vec![], ta_serve: vec![], fail_rrdp: vec![] });
        let mode = if s == 0 || !d.chance(1, 3) { Mode::Normal } else { d.pick(&[Mode::ForcedRetry, Mode::ForcedFatal, Mode::Initial, Mode::PointBlocked(0), Mode::PointBlocked(1), Mode::PointBlocked(2)]) };
        modes.push(match mode {
            Mode::PointBlocked(_) => Mode::PointBlocked(d.below(8) as u8),
            m => m,
        });
    }
    Case { sc: Scenario { cfg, cas, steps }, modes, sleep_before: vec![] }
}

/// Thorough tier: some CAs carry manifests whose EE certificate expires 4 s after the world was
/// created; the second run starts after the expiry.
pub fn expiry_case(words: &[u16]) -> Case {
    let mut c = case(words);
    let mut d = D::new(words);
    for _ in 0..7 {
        d.next();
    }
    c.sc.cfg.dirty = false;
    c.sc.steps.truncate(2);
    c.modes = vec![Mode::Normal, Mode::Normal];
    for s in c.sc.steps.iter_mut() {
        s.offline = false;
    }
    let n = c.sc.cas.len();
    let mut any = false;
    for i in 0..n {
        let leaf = !c.sc.cas.iter().any(|x| x.parent == Some(i));
        if leaf && (d.chance(1, 2) || (!any && i == n - 1)) {
            for v in c.sc.cas[i].versions.iter_mut() {
                v.ee_after_off = SHORT_EE;
            }
            any = true;
        }
    }
    c.sleep_before = vec![0, 1];
    c
}

const SHORT_EE: i64 = 4;

fn ca_expires(sc: &Scenario, ca: usize) -> bool {
    sc.cas[ca].versions.iter().any(|v| v.ee_after_off == SHORT_EE)
}

/// The run of one step in the given mode. Ok(Some(output)) = successful run.
fn run_step(world: &World, step: &Step, mode: Mode) -> Result<RunOutput, String> {
    use routinator::engine::Engine;
    use routinator::payload::ValidationReport;
    let config = world.config();
    let ex = empty_exceptions();
    match mode {
        Mode::Normal | Mode::PointBlocked(_) => {
            let _g = RUNS.read().unwrap_or_else(|e| e.into_inner());
            run_config(&config, step.offline, &ex)
        }
        Mode::ForcedRetry | Mode::ForcedFatal => {
            // the hook is process-global: a forced run excludes every other run of this check
            let _g = RUNS.write().unwrap_or_else(|e| e.into_inner());
            let o = if mode == Mode::ForcedRetry { routinator::verif::Outcome::Retry } else { routinator::verif::Outcome::Fatal };
            routinator::verif::set_forced_outcomes(vec![o], routinator::verif::Outcome::Ok, 1_000_000);
            let r = run_config(&config, step.offline, &ex);
            routinator::verif::clear_forced_outcomes();
            r
        }
        Mode::Initial => {
            let _g = RUNS.read().unwrap_or_else(|e| e.into_inner());
            let mut engine = Engine::new(&config, !step.offline).map_err(|_| "Engine::new failed".to_string())?;
            engine.ignite().map_err(|_| "ignite failed".to_string())?;
            let started = std::time::Instant::now();
            let (report, mut metrics) = ValidationReport::process(&engine, &config, true).map_err(|e| format!("run failed (fatal={})", e.is_fatal()))?;
            let snapshot = report.into_snapshot(&ex, &mut metrics);
            let payload = crate::pay::MSet::from_snapshot(&snapshot).map_err(|e| format!("snapshot has duplicates: {}", e))?;
            Ok(RunOutput { payload, refresh: snapshot.refresh(), snapshot, metrics, elapsed: started.elapsed() })
        }
    }
}

/// Forced outcomes (process-global hook) take this lock exclusively, all other runs shared.
static RUNS: std::sync::RwLock<()> = std::sync::RwLock::new(());

/// Paths that existed before and are gone now, ignoring what a transfer may legitimately change.
fn gone(before: &BTreeSet<String>, after: &BTreeSet<String>, transferred: &BTreeSet<usize>) -> Vec<String> {
    before
        .difference(after)
        .filter(|p| {
            if p.starts_with("stored/tmp/") {
                return false;
            }
            // inside a module copy that rsync mirrored in this run (the mirror deletes what the server no longer has)
            for m in transferred {
                let inside = format!("rsync/{}/repo/", host(*m));
                if p.starts_with(&inside) && p.len() > inside.len() {
                    return false;
                }
            }
            true
        })
        .cloned()
        .collect()
}

fn modules_in_log(world: &World, from_line: usize) -> BTreeSet<usize> {
    let mut res = BTreeSet::new();
    for line in parse_rsync_log(&world.rsync_log()).iter().skip(from_line) {
        for m in 0..MODULES {
            if line.starts_with(&format!("{}/", host(m))) || *line == host(m) {
                res.insert(m);
            }
        }
    }
    res
}

fn vanished_while_stored(sc: &Scenario, exp: &Expected, state: &ModelState) -> bool {
    state.stored.keys().any(|j| match sc.cas[*j].parent {
        Some(p) => exp.skipped.contains(j) && exp.accepted.get(&p).map(|(pv, _)| sc.cas[p].versions[*pv].omit_children.contains(j)).unwrap_or(false),
        None => false,
    })
}

fn prop(c: &Case, info: &mut CaseInfo) -> Verdict {
    let sc = &c.sc;
    let expiry = !c.sleep_before.is_empty();
    let mut world = World::new(sc, scratch_base());
    let t0 = std::time::Instant::now();
    let mut state = ModelState::default();
    let dead_srv = world.dir.path().join("srv-dead");
    for m in 0..MODULES {
        std::fs::create_dir_all(dead_srv.join(host(m))).unwrap();
        std::fs::write(dead_srv.join(host(m)).join("repo.fail"), b"").unwrap();
    }
    info.class(if sc.cfg.dirty { "dirty" } else { "clean_up" });
    if expiry {
        info.class("short_expiry");
    }
    let mut verdict = Verdict::Pass;
    let mut sc_eff = sc.clone();
    'steps: for (n, step) in sc.steps.iter().enumerate() {
        let mode = c.modes.get(n).copied().unwrap_or(Mode::Normal);
        if expiry && n == 1 {
            // start after the expiry with a margin of 2 s
            let target = std::time::Duration::from_secs(SHORT_EE as u64 + 2);
            if t0.elapsed() < target {
                std::thread::sleep(target - t0.elapsed());
            }
            for i in 0..sc.cas.len() {
                if ca_expires(sc, i) {
                    for v in sc_eff.cas[i].versions.iter_mut() {
                        v.ee_after_off = -1;
                    }
                    // an expired stored manifest is as good as none (and may be removed)
                    state.stored.remove(&i);
                }
            }
        }
        world.publish(step);
        let before = list_tree(&world.cache());
        let log_from = parse_rsync_log(&world.rsync_log()).len();
        // which CAs would this run attempt (for PointBlocked)
        let mut probe_state = state.clone();
        let exp_probe = model_step(&sc_eff, step, &mut probe_state);
        let mut blocked: Option<(PathBuf, Option<Vec<u8>>)> = None;
        let mut mode = mode;
        if let Mode::PointBlocked(k) = mode {
            let attempted: Vec<usize> = exp_probe.accepted.keys().chain(exp_probe.rejected.iter()).copied().filter(|j| !sc.cas[*j].versions.is_empty()).collect::<BTreeSet<_>>().into_iter().collect();
            if attempted.is_empty() {
                mode = Mode::Normal;
            } else {
                let j = attempted[k as usize % attempted.len()];
                let path = world.stored_path(j);
                let old = std::fs::read(&path).ok();
                let _ = std::fs::remove_file(&path);
                std::fs::create_dir_all(&path).unwrap();
                blocked = Some((path, old));
            }
        }
        info.class(format!("mode={}", format!("{:?}", mode).split('(').next().unwrap()));
        let res = run_step(&world, step, mode);
        if let Some((path, old)) = blocked.take() {
            let _ = std::fs::remove_dir_all(&path);
            if let Some(old) = old {
                if let Some(parent) = path.parent() {
                    let _ = std::fs::create_dir_all(parent);
                }
                std::fs::write(&path, old).unwrap();
            }
        }
        let after = list_tree(&world.cache());
        let transferred = modules_in_log(&world, log_from);
        match res {
            Err(e) => {
                info.class("failed_run");
                if mode == Mode::Normal {
                    verdict = Verdict::fail("C40/run-failed", format!("step {}: {}", n, e));
                    break 'steps;
                }
                // failed run => nothing deleted
                let lost = gone(&before, &after, &transferred);
                if !lost.is_empty() {
                    verdict = Verdict::fail(format!("C40/failed-run-removed-data/mode={}", format!("{:?}", mode).split('(').next().unwrap()), format!("step {} ({:?}) failed ({}), yet these cache entries are gone: {:?}", n, mode, e, lost.iter().take(8).collect::<Vec<_>>()));
                    break 'steps;
                }
                // bring the model in line with what the aborted run did: transfers happened for the
                // logged modules; stored points are the old or the new complete version
                if !step.offline && mode != Mode::Initial {
                    for m in &transferred {
                        if !step.fail_modules.contains(m) {
                            state.local_modules.insert(*m);
                            for (j, ca) in sc.cas.iter().enumerate() {
                                if ca.module == *m {
                                    state.local.insert(j, step.publish[j].min(ca.versions.len() - 1));
                                }
                            }
                        }
                    }
                    for j in 0..sc.cas.len() {
                        match world.read_stored(j) {
                            Ok(Some(view)) => {
                                // the previous version, what the local copy now holds (an unreachable
                                // module leaves an older copy), or any other complete version
                                let cand: Vec<usize> = state.stored.get(&j).copied().into_iter().chain(state.local.get(&j).copied()).chain(0..sc.cas[j].versions.len()).collect();
                                let mut found = None;
                                for v in cand.into_iter() {
                                    if world.expected_stored(j, v) == view {
                                        found = Some(v);
                                        break;
                                    }
                                }
                                match found {
                                    Some(v) => {
                                        state.stored.insert(j, v);
                                    }
                                    None => {
                                        verdict = Verdict::fail("C40/failed-run-left-unknown-stored-point", format!("step {} ({:?}): after the failed run the stored point of ca{} equals no complete version", n, mode, j));
                                        break 'steps;
                                    }
                                }
                            }
                            Ok(None) => {
                                if state.stored.contains_key(&j) {
                                    verdict = Verdict::fail("C40/failed-run-removed-data/stored-point", format!("step {} ({:?}): stored point of ca{} (version {:?}) is gone after the failed run", n, mode, j, state.stored.get(&j)));
                                    break 'steps;
                                }
                            }
                            Err(e) => {
                                verdict = Verdict::Dropped(format!("stored_unreadable_after_failed_run:{}", truncate(&e, 40)));
                                break 'steps;
                            }
                        }
                    }
                    for r in sc.cas.iter().enumerate().filter(|(_, c)| c.parent.is_none()).map(|(i, _)| i) {
                        if state.local_modules.contains(&sc.cas[r].module) && transferred.contains(&sc.cas[r].module) {
                            // the TA certificate may or may not have been stored; a later online run stores it anyway
                            if after.iter().any(|p| p.starts_with("stored/ta/") && !p.ends_with('/')) {
                                // cannot tell which TA from the hashed name; leave ta_stored as is unless the file count covers all roots
                                let files = after.iter().filter(|p| p.starts_with("stored/ta/") && !p.ends_with('/')).count();
                                if files == sc.cas.iter().filter(|c| c.parent.is_none()).count() {
                                    state.ta_store.insert((r, 0), 0);
                                }
                            }
                        }
                    }
                }
                continue;
            }
            Ok(out) => {
                if matches!(mode, Mode::ForcedRetry | Mode::ForcedFatal) {
                    verdict = Verdict::Dropped("forced_outcome_not_applied".into());
                    break 'steps;
                }
                if matches!(mode, Mode::PointBlocked(_)) {
                    // the blocked point was not reached: the run saw a cache the model does not describe
                    verdict = Verdict::Dropped("blocked_point_not_reached".into());
                    break 'steps;
                }
                if expiry && n == 0 && t0.elapsed() + std::time::Duration::from_millis(1500) > std::time::Duration::from_secs(SHORT_EE as u64) {
                    verdict = Verdict::Dropped("time_guard".into());
                    break 'steps;
                }
                let eff_step = if mode == Mode::Initial { Step { offline: true, ..step.clone() } } else { step.clone() };
                let exp = model_step(&sc_eff, &eff_step, &mut state);
                if out.payload != exp.payload {
                    // C01/C02/C04 own this; here it only means the model and the run disagree
                    verdict = Verdict::Dropped("payload_differs_from_model".into());
                    break 'steps;
                }
                info.nt(vanished_while_stored(&sc_eff, &exp, &state));
                if vanished_while_stored(&sc_eff, &exp, &state) {
                    info.class("ca_vanished_while_stored");
                }
                if sc.cas.iter().enumerate().any(|(i, a)| sc.cas.iter().skip(i + 1).any(|b| a.key == b.key)) {
                    info.class("ca_moved_between_modules");
                }
                // dirty => nothing removed
                if sc.cfg.dirty {
                    let lost = gone(&before, &after, &transferred);
                    if !lost.is_empty() {
                        verdict = Verdict::fail("C40/dirty-run-removed-data", format!("step {}: dirty is set, yet these cache entries are gone after the run: {:?}", n, lost.iter().take(8).collect::<Vec<_>>()));
                        break 'steps;
                    }
                }
                // (a) stored points
                for (j, v) in state.stored.clone() {
                    let want = world.expected_stored(j, v);
                    match world.read_stored(j) {
                        Ok(Some(got)) if got == want => {}
                        Ok(Some(_)) => {
                            verdict = Verdict::Dropped("store_holds_other_version_than_model".into());
                            break 'steps;
                        }
                        Ok(None) => {
                            let reached = exp.accepted.contains_key(&j) || exp.rejected.contains(&j);
                            verdict = Verdict::fail(
                                format!("C40/stored-point-removed/{}", if reached { "in-tree" } else { "not-in-tree" }),
                                format!("step {}: the stored point of ca{} (version {}, manifest EE certificate valid for another {} s) is gone after a successful run; the CA was {} in this run", n, j, v + 1, sc.cas[j].versions[v].ee_after_off, if reached { "processed" } else { "not reached (vanished from its parent's manifest / parent rejected)" }),
                            );
                            break 'steps;
                        }
                        Err(e) => {
                            verdict = Verdict::fail("C40/stored-point-unreadable", format!("step {}: ca{}: {}", n, j, e));
                            break 'steps;
                        }
                    }
                }
                // (b) rsync module copies
                for m in &state.local_modules {
                    let dir = world.cache().join("rsync").join(host(*m)).join("repo");
                    if !dir.is_dir() {
                        let used_now = transferred.contains(m);
                        let hosts: Vec<usize> = state.stored.keys().filter(|j| sc.cas[**j].module == *m).copied().collect();
                        verdict = Verdict::fail(
                            format!("C40/rsync-module-removed/{}", if used_now { "used-by-this-run" } else { "hosts-stored-point" }),
                            format!("step {}: the local copy of module {} is gone after a successful run; transferred in this run: {}; unexpired stored points published there: {:?}", n, module_uri(*m), used_now, hosts),
                        );
                        break 'steps;
                    }
                }
                for (j, v) in state.local.clone() {
                    if !state.local_modules.contains(&sc.cas[j].module) {
                        continue;
                    }
                    let dir = world.cache().join("rsync").join(host(sc.cas[j].module)).join("repo").join(format!("ca{}", j));
                    let files = world.point(j, v).files.clone();
                    for (name, data) in files {
                        if std::fs::read(dir.join(&name)).ok().as_deref() != Some(data.as_ref()) {
                            verdict = Verdict::fail("C40/rsync-copy-incomplete", format!("step {}: file {} of ca{} (version {}) is missing from / differs in the retained module copy {}", n, name, j, v + 1, dir.display()));
                            break 'steps;
                        }
                    }
                }
                // (c) probe: every module unreachable, copy of the cache
                let pdir = world.dir.path().join(format!("probe{}", n));
                if copy_tree(&world.cache(), &pdir.join("cache")).is_err() {
                    verdict = Verdict::Dropped("probe_copy".into());
                    break 'steps;
                }
                let ppaths = WorldPaths { conf: pdir.join("routinator.conf"), cache: pdir.join("cache"), srv: dead_srv.clone(), rsync_log: pdir.join("rsync.log"), ..world.paths() };
                let mut cfg = sc.cfg.clone();
                cfg.dirty = true;
                let probe_step = Step { fail_modules: (0..MODULES).collect(), offline: false, ..step.clone() };
                let mut pstate = state.clone();
                let pexp = model_step(&sc_eff, &probe_step, &mut pstate);
                let probe = {
                    let _g = RUNS.read().unwrap_or_else(|e| e.into_inner());
                    run_config(&config_for(&cfg, &ppaths), false, &empty_exceptions())
                };
                match probe {
                    Err(e) => {
                        verdict = Verdict::fail("C40/probe-run-fails", format!("step {}: a run over a copy of the cache with every module unreachable fails: {}", n, e));
                        break 'steps;
                    }
                    Ok(po) => {
                        if po.payload != pexp.payload {
                            let got: BTreeSet<_> = po.payload.items().into_iter().collect();
                            let want: BTreeSet<_> = pexp.payload.items().into_iter().collect();
                            verdict = Verdict::fail(
                                "C40/cache-alone-does-not-reproduce-payload",
                                format!("step {}: with every module unreachable the cache yields {} items, the model (stored {:?}, local copies {:?}) {}; missing e.g. {:?}, extra e.g. {:?}", n, got.len(), state.stored, state.local, want.len(), want.difference(&got).next(), got.difference(&want).next()),
                            );
                            break 'steps;
                        }
                    }
                }
                let _ = std::fs::remove_dir_all(&pdir);
                if expiry && n == 1 {
                    for i in 0..sc.cas.len() {
                        if ca_expires(sc, i) {
                            info.class(if world.stored_path(i).exists() { "expired_point_still_present" } else { "expired_point_absent" });
                        }
                    }
                }
            }
        }
    }
    if std::env::var_os("RV_KEEP_WORLD").is_some() {
        let p = world.dir.keep();
        eprintln!("world kept at {}", p.display());
    }
    for cl in history_classes(sc) {
        info.class(cl);
    }
    verdict
}

pub fn run(ctx: &Ctx, rep: &mut Report, replay: Option<&serde_json::Value>) {
    rep.rule("E-rpki histories of 2-5 runs over 1-2 TALs, 3-8 CAs, 3 rsync modules: per non-root CA a presence pattern over the parent's versions (always / vanishes / appears / vanishes and re-appears), optionally one CA moved to another module (same key, new SIA, old certificate withdrawn), CAs that never succeed, unreachable modules, offline runs, dirty on (1 in 4) or off, and failing runs (1 in 3 of the later steps: forced retry / fatal outcome, initial quick run, stored point path blocked by a directory); oracle after each successful run: stored points of the model present and byte-identical, retained module copies present with the files last transferred, a probe run with every module unreachable reproduces the model payload from a copy of the cache; dirty or failed run => no cache entry is gone (except temp files and files inside a module rsync mirrored in that run); thorough tier adds histories where manifests expire 4 s after issuing and the second run happens after the expiry; non-trivial = a CA with an unexpired stored point vanished from its parent's accepted manifest; distinct by serialised case");
    rep.assume("reference model Appendix A incl. its rule for rsync module copies (kept when attempted in this run or when a stored point lives in the module)");
    rep.assume("a run that fails inside cleanup itself is not generated");
    rep.assume("forced outcomes use the verif hook and are serialised process-wide");
    ctx.shrink_iters.store(40, std::sync::atomic::Ordering::Relaxed);
    if let Some(v) = replay {
        if v.get("sub").and_then(|s| s.as_str()) == Some("retain-spelling") {
            let t: Tagged<SpellCase> = serde_json::from_value(v.clone()).expect("replay");
            run_case(ctx, rep, &t.sub, &t.case, spelling_prop);
            return;
        }
        if v.get("sub").and_then(|s| s.as_str()) == Some("rrdp-expired") {
            let t: Tagged<Scenario> = serde_json::from_value(v.clone()).expect("replay");
            run_case(ctx, rep, &t.sub, &t.case, rrdp_expired_prop);
            return;
        }
        if v.get("sub").and_then(|s| s.as_str()) == Some("rrdp") {
            let t: Tagged<Scenario> = serde_json::from_value(v.clone()).expect("replay");
            run_case(ctx, rep, &t.sub, &t.case, rrdp_prop);
            return;
        }
        let t: Tagged<Case> = serde_json::from_value(v.clone()).expect("replay");
        run_case(ctx, rep, &t.sub, &t.case, prop);
        return;
    }
    run_prop_par(ctx, rep, "history", ctx.tier.pick(96, 1600), 8, || genome(300).prop_map(|w| case(&w)), prop);
    if ctx.tier == Tier::Thorough {
        run_prop_par(ctx, rep, "expiry", 64, 8, || genome(300).prop_map(|w| expiry_case(&w)), prop);
    }
    rep.rule("(rrdp) E-rpki histories of 2-4 runs in which every CA is published through one of 2 RRDP repositories with chance 1/2, child CAs vanish from / appear in single versions of their parent's manifest (4/16 per child), notifications fail (4/16 per repository and run), modules are unreachable, runs are offline, dirty is on 1 in 8; oracle after every run (shared judge): the stored points of the model are present and byte-identical under the path keyed by rpkiNotify, the payload equals the model's (so the retained data is usable), and the local archive of every RRDP repository the model retains (updated or tried in this run, or referred to by a retained stored point) exists; non-trivial = a repository failed in a run after one that stored a point of one of its CAs, or a CA published through RRDP with a stored point vanished from its parent's manifest");
    run_prop_par(ctx, rep, "rrdp", ctx.tier.pick(80, 1600), 8, || (genome(260), rrdp_genome(), genome(24)).prop_map(|(w, r, k)| rrdp_case(&w, &r, &k)), rrdp_prop);
    if !rep.violated() {
        use proptest::prelude::*;
        rep.rule("(retain-spelling) 1-6 local rsync module copies over 4 hosts x 3 modules, a generated subset retained through Cleanup::add_rsync_module with the host spelled in generated mixed case (as a CA certificate may spell it); oracle: after the collector's cleanup the copy of every retained module still exists; non-trivial = some retained URI spells its host differently from the canonical form");
        run_prop(ctx, rep, "retain-spelling", ctx.tier.pick(300, 5000), prop::collection::vec((0u8..4, 0u8..3, any::<bool>(), any::<u16>()), 1..=6).prop_map(|modules| SpellCase { modules }), spelling_prop);
    }
    if !rep.violated() {
        rep.rule("(rrdp-expired) the same generated RRDP trees, two runs with refresh = rrdp-fallback-time = 1 s: everything fetched, 2.2 s pause (local copies past their best-before), every RRDP server failing in the second run; oracle: the second run succeeds and the archive of every repository to which a stored point with an unexpired manifest is keyed still exists; non-trivial = at least one such repository");
        run_prop_par(ctx, rep, "rrdp-expired", ctx.tier.pick(16, 240), 8, || (genome(260), rrdp_genome(), genome(24)).prop_map(|(w, r, k)| rrdp_case(&w, &r, &k)), rrdp_expired_prop);
    }
    // a run in which most histories could not be judged says nothing: infrastructure failure
    let dropped: u64 = rep.dropped.values().sum();
    if !rep.violated() && dropped * 2 > rep.evaluations {
        eprintln!("C40: {} of {} histories were dropped ({:?}); no verdict", dropped, rep.evaluations, rep.dropped);
        std::process::exit(2);
    }
}

//------------------------------------------------------------------------------------------
// Sub-check "rrdp": retention of RRDP-keyed stored points and local RRDP archives



//------------------------------------------------------------------------------------------
// Sub-check "retain-spelling": the collector's retain set against spellings of one host

/// Per local rsync module copy: (host index, module index, retained?, case mask for the spelling of
/// the host in the retained point's manifest URI).
#[derive(serde::Serialize, serde::Deserialize, Clone, Debug)]
pub struct SpellCase {
    pub modules: Vec<(u8, u8, bool, u16)>,
}

/// The store's cleanup registers the rsync module of every retained point with the URI exactly as
/// the CA certificate spelled it; host names are case-insensitive and the local copy lives under
/// the canonical (lower-case) authority. Whatever the spelling, the copy of a retained point's
/// module must survive the collector's cleanup.
fn spelling_prop(c: &SpellCase, info: &mut CaseInfo) -> Verdict {
    use routinator::collector::{Cleanup, Collector};
    const HOSTS: [&str; 4] = ["rpki.example.net", "repo.rpki-test.example", "a.b", "xn--rpki-9qa.example.org"];
    const MODS: [&str; 3] = ["repo", "Repo2", "m"];
    let dir = tempfile::Builder::new().prefix("c40s-").tempdir_in(crate::erun::scratch_base()).expect("tmp");
    let cache = dir.path().join("cache");
    let mut config = routinator::config::Config::default_with_paths(dir.path().join("routinator.conf"), cache.clone());
    config.disable_rrdp = true;
    config.rsync_command = "true".into();
    let mut collector = match Collector::new(&config) {
        Ok(c) => c,
        Err(_) => return Verdict::Dropped("collector_new_failed".into()),
    };
    if collector.ignite().is_err() {
        return Verdict::Dropped("ignite_failed".into());
    }
    let mut seen = std::collections::BTreeMap::new();
    for (h, m, keep, mask) in &c.modules {
        let e = seen.entry((*h as usize % HOSTS.len(), *m as usize % MODS.len())).or_insert((false, *mask));
        e.0 |= *keep;
    }
    let mut retain = Cleanup::new();
    let mut expect = Vec::new();
    let mut mixed = false;
    for ((h, m), (keep, mask)) in &seen {
        let file = cache.join("rsync").join(HOSTS[*h]).join(MODS[*m]).join("ca").join("ca.mft");
        std::fs::create_dir_all(file.parent().unwrap()).unwrap();
        std::fs::write(&file, b"content").unwrap();
        if *keep {
            let spelled: String = HOSTS[*h].chars().enumerate().map(|(i, ch)| if mask >> (i % 16) & 1 == 1 { ch.to_ascii_uppercase() } else { ch }).collect();
            mixed |= spelled != HOSTS[*h];
            let uri = format!("rsync://{}/{}/ca/ca.mft", spelled, MODS[*m]);
            match rpki::uri::Rsync::from_string(uri.clone()) {
                Ok(u) => retain.add_rsync_module(&u),
                Err(_) => return Verdict::Dropped("uri_not_accepted".into()),
            }
            expect.push((file, uri));
        }
    }
    info.nt(mixed);
    info.class(if mixed { "spelling=mixed-case-host" } else { "spelling=canonical" });
    let run = collector.start();
    if run.cleanup(&mut retain).is_err() {
        return Verdict::fail("C40/retain-spelling/cleanup-failed", "collector cleanup failed".to_string());
    }
    for (file, uri) in expect {
        if !file.exists() {
            return Verdict::fail("C40/rsync-module-removed/host-spelling", format!("the local copy {} of the module of a retained publication point (manifest URI {}) was removed by the collector's cleanup", file.strip_prefix(&cache).unwrap_or(&file).display(), uri));
        }
    }
    Verdict::Pass
}

//------------------------------------------------------------------------------------------
// Sub-check "rrdp-expired": a local RRDP copy past its best-before time is still a collector copy
// the stored points use

/// Two runs over one generated RRDP tree with refresh = rrdp-fallback-time = 1 s (best-before of a
/// local copy: 1-2 s after its update). Run 1 fetches everything; after 2.2 s every RRDP server
/// fails (so the copies are not refreshed and count as expired); run 2 must succeed and its cleanup
/// must keep the archive of every repository a stored point with an unexpired manifest refers to.
fn rrdp_expired_prop(sc: &Scenario, info: &mut CaseInfo) -> Verdict {
    let mut world = World::new(sc, crate::erun::scratch_base());
    let ex = empty_exceptions();
    let step = sc.steps[0].clone();
    let tweak = |c: &mut routinator::config::Config| {
        c.refresh = std::time::Duration::from_secs(1);
        c.rrdp_fallback_time = std::time::Duration::from_secs(1);
    };
    world.publish(&step);
    if let Err(e) = world.run_with(false, &ex, tweak) {
        return Verdict::fail("C40/rrdp-expired/run-failed", format!("first run: {}", e));
    }
    // repositories with an archive and a stored, unexpired point keyed to them
    let mut needed: std::collections::BTreeMap<usize, Vec<usize>> = Default::default();
    for (i, ca) in sc.cas.iter().enumerate() {
        let Some(r) = ca.rrdp else { continue };
        let v = step.publish.get(i).copied().unwrap_or(0).min(ca.versions.len().saturating_sub(1));
        let long_lived = ca.versions.get(v).map(|ver| ver.ee_after_off > 600).unwrap_or(false);
        if long_lived && matches!(world.read_stored(i), Ok(Some(_))) && rrdp_archive_path_in(&world.cache(), r).exists() {
            needed.entry(r).or_default().push(i);
        }
    }
    info.nontrivial = !needed.is_empty();
    info.class(format!("expired/repositories_needed={}", needed.len().min(2)));
    info.class(if sc.cfg.dirty { "dirty" } else { "cleanup_on" });
    if needed.is_empty() {
        return Verdict::Pass;
    }
    std::thread::sleep(std::time::Duration::from_millis(2200));
    for r in rrdp_repos(sc) {
        world.sabotage_rrdp(r, 0);
    }
    if let Err(e) = world.run_with(false, &ex, tweak) {
        return Verdict::fail("C40/rrdp-expired/run-failed", format!("second run: {}", e));
    }
    for (r, cas) in &needed {
        let still_stored: Vec<usize> = cas.iter().copied().filter(|i| matches!(world.read_stored(*i), Ok(Some(_)))).collect();
        if !still_stored.is_empty() && !rrdp_archive_path_in(&world.cache(), *r).exists() {
            return Verdict::fail(
                "C40/rrdp-archive-removed/copy-past-best-before",
                format!("the local archive of RRDP repository {} was removed by the cleanup of a successful run although the store holds points with unexpired manifests keyed to it (CAs {:?}); the copy was 2.2 s old with a best-before of 1-2 s and the server failed in this run; dirty={}", r, still_stored, sc.cfg.dirty),
            );
        }
    }
    Verdict::Pass
}

fn rrdp_case(words: &[u16], rwords: &[u16], kwords: &[u16]) -> Scenario {
    let mut hp = HistProfile::default();
    hp.base.fault_16 = 2;
    hp.base.obj_faults = false;
    hp.base.rrdp_16 = 8;
    hp.fail_rrdp_16 = 4;
    hp.offline_16 = 2;
    let mut sc = history_run_rrdp(words, rwords, &hp);
    let mut d = D::new(kwords);
    sc.cfg.dirty = d.chance(1, 8);
    for j in 0..sc.cas.len() {
        let vanish = d.chance(4, 16);
        let which = d.below(3);
        if let Some(p) = sc.cas[j].parent {
            let nv = sc.cas[p].versions.len();
            if vanish && nv > 0 {
                sc.cas[p].versions[which.min(nv - 1)].omit_children.push(j);
            }
        }
    }
    sc
}

fn rrdp_prop(sc: &Scenario, info: &mut CaseInfo) -> Verdict {
    let j = crate::erun::Judge { id: "C40/rrdp", sound: true, complete: true, store: true, archives: true, ..Default::default() };
    let mut failed_after_stored = false;
    let mut vanished_with_stored = false;
    let (v, _seen) = crate::erun::judge_rrdp(&j, sc, info, |_, obs| {
        for (i, ca) in sc.cas.iter().enumerate() {
            let Some(r) = ca.rrdp else { continue };
            if !obs.state.stored.contains_key(&i) {
                continue;
            }
            if obs.exp.rrdp.get(&r) == Some(&RrdpOutcome::Current) {
                failed_after_stored = true;
            }
            if obs.exp.skipped.contains(&i) && !obs.step.offline {
                vanished_with_stored = true;
            }
        }
        None
    });
    info.nontrivial = failed_after_stored || vanished_with_stored;
    if failed_after_stored {
        info.class("rrdp:failed_after_point_stored");
    }
    if vanished_with_stored {
        info.class("rrdp:ca_with_stored_point_not_reached");
    }
    if sc.cfg.dirty {
        info.class("dirty");
    }
    for c in history_classes(sc) {
        info.class(c);
    }
    v
}
