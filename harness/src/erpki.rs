//! E-rpki: generated RPKI repositories run through the real engine, plus the reference model.
//!
//! A `Scenario` is a serialisable description: a forest of CAs (one tree per TAL), several
//! publication-point *versions* per CA, and a list of *steps*; each step publishes one version per
//! CA to the fake rsync server (or makes a module unreachable) and runs the engine once over a
//! persistent cache. Every payload-bearing object owns a unique slot (prefix / customer / router
//! AS) so that each served item identifies the object it came from.

use std::collections::{BTreeMap, BTreeSet, HashMap};
use std::net::{IpAddr, Ipv4Addr, Ipv6Addr};
use std::path::{Path, PathBuf};
use std::str::FromStr;

use bytes::Bytes;
use routinator::config::{Config, FallbackPolicy, FilterPolicy};
use routinator::engine::Engine;
use routinator::metrics::Metrics;
use routinator::payload::{PayloadSnapshot, ValidationReport};
use routinator::slurm::LocalExceptions;
use rpki::repository::x509::Time;
use rpki::uri;
use serde::{Deserialize, Serialize};

use crate::httpsrv::{HttpsServer, Resp, RrdpServer};
use crate::pay::{MAspa, MItem, MKey, MOrigin, MSet};
use crate::rpkigen::{self as gen, Issuer, Res};

//------------------------------------------------------------------------------------------
// Scenario description

#[derive(Serialize, Deserialize, Clone, Debug, PartialEq, Eq)]
pub struct Cfg {
    pub strict: bool,
    /// 0 reject, 1 warn, 2 accept
    pub stale: u8,
    pub unsafe_vrps: u8,
    pub limit_v4: Option<u8>,
    pub limit_v6: Option<u8>,
    pub bgpsec: bool,
    pub aspa: bool,
    pub max_depth: usize,
    pub threads: usize,
    pub dirty: bool,
    /// `rrdp-fallback` policy: 0 never, 1 stale (routinator's default), 2 new. Only meaningful when
    /// some CA is published through RRDP.
    #[serde(default = "default_rrdp_fallback", skip_serializing_if = "is_default_rrdp_fallback")]
    pub rrdp_fallback: u8,
}

fn default_rrdp_fallback() -> u8 {
    1
}
fn is_default_rrdp_fallback(x: &u8) -> bool {
    *x == 1
}

impl Default for Cfg {
    fn default() -> Self {
        Cfg { strict: false, stale: 0, unsafe_vrps: 2, limit_v4: None, limit_v6: None, bgpsec: true, aspa: true, max_depth: 32, threads: 2, dirty: false, rrdp_fallback: 1 }
    }
}

#[derive(Serialize, Deserialize, Clone, Copy, Debug, PartialEq, Eq, Hash)]
pub enum ObjFault {
    BadSig,
    Garbage,
    Expired,
    NotYetValid,
    Revoked,
    WrongCrlUri,
    Overclaim,
}

#[derive(Serialize, Deserialize, Clone, Copy, Debug, PartialEq, Eq, Hash)]
pub enum CertFault {
    BadSig,
    Garbage,
    Expired,
    NotYetValid,
    Revoked,
    Overclaim,
    NoManifestSia,
    /// Certificate for the key of the ancestor `n` levels up (1 = parent ... ) — a loop.
    LoopKey(u8),
    WrongCrlUri,
    /// Certificate for the key of the ancestor `n` levels up whose SIA points at that ancestor's
    /// publication point — a true cycle in the CA graph.
    CycleTo(u8),
}

#[derive(Serialize, Deserialize, Clone, Copy, Debug, PartialEq, Eq, Hash)]
pub enum PpFault {
    MftBadSig,
    MftGarbage,
    MftMissing,
    MftEeExpired,
    MftWrongCrlUri,
    CrlMissing,
    CrlNotListed,
    CrlBadSig,
    CrlGarbage,
    CrlHashMismatch,
    CrlRevokesMftEe,
    /// listed object `k` (index into objs, modulo) absent from the repository
    FileMissing(u8),
    /// listed object `k` has different content than the listed hash
    HashMismatch(u8),
    /// an extra, valid but unlisted ROA is present
    StrayFile,
    /// an unknown-type file and a second CRL are listed (warnings only)
    OddFiles,
}

#[derive(Serialize, Deserialize, Clone, Debug, PartialEq, Eq)]
pub enum ObjKind {
    /// ROA for the object's slot; `extra` more prefixes (slot sub-prefixes), explicit max-len delta.
    Roa { extra: u8, maxlen_delta: u8, v6: bool },
    Aspa { providers: u8 },
    Router { asns: u8 },
    Gbr,
    /// ROA with explicit content (used where prefixes must relate to other CAs' resources)
    RoaRaw { asn: u32, prefixes: Vec<(IpAddr, u8, Option<u8>)> },
}

#[derive(Serialize, Deserialize, Clone, Debug, PartialEq, Eq)]
pub struct Obj {
    pub kind: ObjKind,
    /// notAfter of the EE certificate, seconds from now (positive unless fault says otherwise)
    pub not_after: i64,
    pub fault: Option<ObjFault>,
}

#[derive(Serialize, Deserialize, Clone, Debug, PartialEq, Eq)]
pub struct Version {
    pub number: u64,
    /// manifest thisUpdate / nextUpdate, CRL nextUpdate, manifest EE notAfter: seconds from now
    pub this_off: i64,
    pub next_off: i64,
    pub crl_next_off: i64,
    pub ee_after_off: i64,
    pub objs: Vec<Obj>,
    pub fault: Option<PpFault>,
    /// indices of child CAs whose certificate this version does NOT publish (neither listed on the
    /// manifest nor present as a file): the child "vanishes" from / has not yet "appeared" in the tree
    #[serde(default, skip_serializing_if = "Vec::is_empty")]
    pub omit_children: Vec<usize>,
}

#[derive(Serialize, Deserialize, Clone, Debug, PartialEq, Eq)]
pub struct Ca {
    pub parent: Option<usize>,
    pub key: usize,
    pub module: usize,
    /// CA certificate notAfter (seconds from now); notBefore is now - 1 day unless NotYetValid.
    pub not_after: i64,
    pub cert_fault: Option<CertFault>,
    pub versions: Vec<Version>,
    /// additional resources held by this CA (and therefore by all its ancestors)
    #[serde(default)]
    pub extra_res: Option<Res>,
    /// (roots only) modules of additional TAL URIs, listed after the primary one
    #[serde(default)]
    pub ta_alt: Vec<usize>,
    /// the certificate's SIA claims a publication point *below the parent's manifest file*
    /// (`<parent manifest URI>/`); nothing is published for such a CA
    #[serde(default)]
    pub sia_under_parent_mft: bool,
    /// index of the RRDP repository this CA is (also) published through: its certificate then
    /// carries rpkiNotify `https://rrdp{r}.rpki.test/rrdp/notification.xml` next to the rsync SIA
    #[serde(default, skip_serializing_if = "Option::is_none")]
    pub rrdp: Option<usize>,
}

#[derive(Serialize, Deserialize, Clone, Debug, PartialEq, Eq)]
pub struct Step {
    /// version index published for each CA in this step (clamped to the CA's versions)
    pub publish: Vec<usize>,
    /// modules that are unreachable in this step
    pub fail_modules: Vec<usize>,
    /// run without collector (`--noupdate` equivalent)
    pub offline: bool,
    /// stale policy for this run only (overrides cfg.stale)
    #[serde(default)]
    pub stale: Option<u8>,
    /// root CAs whose TAL file carries a *different* key than their certificate in this run
    #[serde(default)]
    pub foreign_tal_key: Vec<usize>,
    /// what the server offers at a TAL URI in this run: (root, uri index, state) with state
    /// 0 matching certificate (default), 1 certificate with another key, 2 undecodable bytes,
    /// 3 expired certificate with the right key, 4 nothing
    #[serde(default)]
    pub ta_serve: Vec<(usize, usize, u8)>,
    /// RRDP repositories whose notification file answers HTTP 500 in this run
    #[serde(default, skip_serializing_if = "Vec::is_empty")]
    pub fail_rrdp: Vec<usize>,
}

#[derive(Serialize, Deserialize, Clone, Debug, PartialEq, Eq)]
pub struct Scenario {
    pub cfg: Cfg,
    pub cas: Vec<Ca>,
    pub steps: Vec<Step>,
}

//------------------------------------------------------------------------------------------
// Naming and slots

pub fn host(module: usize) -> String {
    format!("rv{}.rpki.test", module)
}
pub fn module_uri(module: usize) -> String {
    format!("rsync://{}/repo/", host(module))
}
pub fn ca_dir_uri(sc: &Scenario, ca: usize) -> uri::Rsync {
    if sc.cas[ca].sia_under_parent_mft {
        if let Some(p) = sc.cas[ca].parent {
            return uri::Rsync::from_string(format!("{}/", mft_uri(sc, p))).unwrap();
        }
    }
    uri::Rsync::from_string(format!("{}ca{}/", module_uri(sc.cas[ca].module), ca)).unwrap()
}
pub fn mft_uri(sc: &Scenario, ca: usize) -> uri::Rsync {
    ca_dir_uri(sc, ca).join(format!("ca{}.mft", ca).as_bytes()).unwrap()
}
pub fn crl_uri(sc: &Scenario, ca: usize) -> uri::Rsync {
    ca_dir_uri(sc, ca).join(format!("ca{}.crl", ca).as_bytes()).unwrap()
}
/// URI of the CA's own certificate.
pub fn cert_uri(sc: &Scenario, ca: usize) -> uri::Rsync {
    match sc.cas[ca].parent {
        Some(p) => ca_dir_uri(sc, p).join(format!("ca{}.cer", ca).as_bytes()).unwrap(),
        None => uri::Rsync::from_string(format!("{}ta{}.cer", module_uri(sc.cas[ca].module), ca)).unwrap(),
    }
}

/// Host name of RRDP repository `r`.
pub fn rrdp_host(r: usize) -> String {
    format!("rrdp{}.rpki.test", r)
}
/// rpkiNotify URI of RRDP repository `r`.
pub fn rrdp_notify_uri(r: usize) -> uri::Https {
    uri::Https::from_string(format!("https://{}/rrdp/notification.xml", rrdp_host(r))).unwrap()
}
/// rpkiNotify URI on the certificate of CA `ca` (None = rsync only).
pub fn ca_notify_uri(sc: &Scenario, ca: usize) -> Option<uri::Https> {
    sc.cas[ca].rrdp.map(rrdp_notify_uri)
}
/// RRDP repositories used by some CA of the scenario.
pub fn rrdp_repos(sc: &Scenario) -> BTreeSet<usize> {
    sc.cas.iter().filter_map(|c| c.rrdp).collect()
}
pub fn uses_rrdp(sc: &Scenario) -> bool {
    sc.cas.iter().any(|c| c.rrdp.is_some())
}

/// Number of TAL URIs of a root.
pub fn ta_uri_count(sc: &Scenario, ca: usize) -> usize {
    1 + sc.cas[ca].ta_alt.len()
}
/// Module and file name of TAL URI `u` of root `ca`.
pub fn ta_location(sc: &Scenario, ca: usize, u: usize) -> (usize, String) {
    if u == 0 {
        (sc.cas[ca].module, format!("ta{}.cer", ca))
    } else {
        (sc.cas[ca].ta_alt[u - 1], format!("ta{}-{}.cer", ca, u))
    }
}
pub fn ta_serve_state(step: &Step, ca: usize, u: usize) -> u8 {
    step.ta_serve.iter().rev().find(|(c, uu, _)| *c == ca && *uu == u).map(|x| x.2).unwrap_or(0)
}

/// Resources owned by a CA itself (its slot space).
pub fn own_res(ca: usize) -> Res {
    let i = ca as u8;
    Res {
        v4: vec![(Ipv4Addr::new(10, i, 0, 0), 16)],
        v6: vec![(Ipv6Addr::new(0x2001, 0xdb8, i as u16, 0, 0, 0, 0, 0), 48)],
        asn: vec![(100_000 + ca as u32 * 1000, 100_000 + ca as u32 * 1000 + 999), (200_000 + ca as u32 * 1000, 200_000 + ca as u32 * 1000 + 999)],
    }
}

pub fn descendants(sc: &Scenario, ca: usize) -> Vec<usize> {
    let mut res = vec![ca];
    let mut i = 0;
    while i < res.len() {
        let cur = res[i];
        for (j, c) in sc.cas.iter().enumerate() {
            if c.parent == Some(cur) {
                res.push(j);
            }
        }
        i += 1;
    }
    res
}

/// Resources on a CA's certificate: its own space and that of all its descendants.
pub fn cert_res(sc: &Scenario, ca: usize) -> Res {
    let mut res = Res { v4: vec![], v6: vec![], asn: vec![] };
    let mut d = descendants(sc, ca);
    d.sort();
    for j in d {
        let o = own_res(j);
        res.v4.extend(o.v4);
        res.v6.extend(o.v6);
        res.asn.extend(o.asn);
        if let Some(e) = sc.cas[j].extra_res.as_ref() {
            res.v4.extend(e.v4.iter().cloned());
            res.v6.extend(e.v6.iter().cloned());
            res.asn.extend(e.asn.iter().cloned());
        }
    }
    res.asn.sort();
    res
}

pub fn depth(sc: &Scenario, ca: usize) -> usize {
    let mut d = 0;
    let mut cur = ca;
    while let Some(p) = sc.cas[cur].parent {
        d += 1;
        cur = p;
    }
    d
}

pub fn root_of(sc: &Scenario, ca: usize) -> usize {
    let mut cur = ca;
    while let Some(p) = sc.cas[cur].parent {
        cur = p;
    }
    cur
}

fn slot_octet(version: usize, k: usize) -> u8 {
    ((version % 8) * 32 + (k % 32)) as u8
}

/// The payload items object `k` of version `v` of CA `ca` carries when valid.
pub fn obj_items(ca: usize, v: usize, k: usize, obj: &Obj) -> Vec<MItem> {
    let so = slot_octet(v, k);
    match obj.kind {
        ObjKind::Roa { extra, maxlen_delta, v6 } => {
            let asn = 64512 + ca as u32;
            let mut res = Vec::new();
            if v6 {
                let base = Ipv6Addr::new(0x2001, 0xdb8, ca as u16, so as u16, 0, 0, 0, 0);
                res.push(MItem::Origin(MOrigin::new(IpAddr::V6(base), 64, Some(64 + maxlen_delta.min(64)), asn)));
                for e in 0..extra.min(3) {
                    let a = Ipv6Addr::new(0x2001, 0xdb8, ca as u16, so as u16, 0x8000 + e as u16, 0, 0, 0);
                    res.push(MItem::Origin(MOrigin::new(IpAddr::V6(a), 80, None, asn)));
                }
            } else {
                let base = Ipv4Addr::new(10, ca as u8, so, 0);
                res.push(MItem::Origin(MOrigin::new(IpAddr::V4(base), 24, Some(24 + maxlen_delta.min(8)), asn)));
                for e in 0..extra.min(3) {
                    let a = Ipv4Addr::new(10, ca as u8, so, 128 + e * 16);
                    res.push(MItem::Origin(MOrigin::new(IpAddr::V4(a), 28, None, asn)));
                }
            }
            // some ROAs list their more specific (longer) prefixes before the slot prefix, so that a
            // length limit hits entries in the middle of a ROA, not only its tail
            if maxlen_delta == 1 && res.len() > 1 {
                res.rotate_left(1);
            }
            res
        }
        ObjKind::Aspa { providers } => {
            let customer = 100_000 + ca as u32 * 1000 + so as u32;
            vec![MItem::Aspa(MAspa::new(customer, (0..providers as u32).map(|p| 65000 + p)))]
        }
        ObjKind::Router { asns } => {
            let ec = (ca + k) % gen::N_EC_KEYS;
            let pk = &gen::signer().ec_pub[ec];
            let mut ski = [0u8; 20];
            ski.copy_from_slice(pk.key_identifier().as_ref());
            (0..asns.max(1) as u32)
                .map(|a| MItem::Key(MKey { ski, asn: 200_000 + ca as u32 * 1000 + (so as u32) * 3 % 997 + a, info: pk.to_info_bytes().to_vec() }))
                .collect()
        }
        ObjKind::Gbr => vec![],
        ObjKind::RoaRaw { asn, ref prefixes } => prefixes.iter().map(|(a, l, m)| MItem::Origin(MOrigin::new(*a, *l, *m, asn))).collect(),
    }
}

pub fn obj_name(k: usize, obj: &Obj) -> String {
    match obj.kind {
        ObjKind::Roa { .. } | ObjKind::RoaRaw { .. } => format!("r{}.roa", k),
        ObjKind::Aspa { .. } => format!("a{}.asa", k),
        ObjKind::Router { .. } => format!("k{}.cer", k),
        ObjKind::Gbr => format!("g{}.gbr", k),
    }
}

//------------------------------------------------------------------------------------------
// Issuing a publication point version

/// Files of one issued publication-point version.
#[derive(Clone, Debug, Default)]
pub struct IssuedPoint {
    /// files present in the repository directory (name -> bytes)
    pub files: BTreeMap<String, Bytes>,
    /// names listed on the manifest with the listed hash
    pub listed: Vec<(String, Vec<u8>)>,
    pub manifest: Option<Bytes>,
    pub crl: Option<Bytes>,
}

pub struct World {
    pub sc: Scenario,
    pub now: Time,
    pub dir: tempfile::TempDir,
    /// issued child CA certificates by child index
    pub ca_certs: HashMap<usize, Bytes>,
    pub points: HashMap<(usize, usize), IssuedPoint>,
    pub rsync_bin: PathBuf,
    /// in-harness HTTPS server (only when some CA is published through RRDP)
    pub https: Option<HttpsServer>,
    /// publisher model per RRDP repository
    pub rrdp: BTreeMap<usize, RrdpServer>,
}

fn router_asns(ca: usize, v: usize, k: usize, obj: &Obj) -> Vec<(u32, u32)> {
    obj_items(ca, v, k, obj)
        .iter()
        .filter_map(|i| match i {
            MItem::Key(k) => Some((k.asn, k.asn)),
            _ => None,
        })
        .collect()
}

impl World {
    pub fn new(sc: &Scenario, scratch_base: &Path) -> World {
        let dir = tempfile::Builder::new().prefix("w-").tempdir_in(scratch_base).expect("world dir");
        let rsync_bin = std::env::current_exe().expect("exe").parent().unwrap().join("rvrsync");
        let mut w = World { sc: sc.clone(), now: Time::now(), dir, ca_certs: HashMap::new(), points: HashMap::new(), rsync_bin, https: None, rrdp: BTreeMap::new() };
        if uses_rrdp(sc) {
            w.https = Some(HttpsServer::start());
            for r in rrdp_repos(sc) {
                w.rrdp.insert(r, RrdpServer::new(&rrdp_host(r), "rrdp", 1 + r as u64));
            }
        }
        for d in ["srv", "cache", "tals"] {
            std::fs::create_dir_all(w.dir.path().join(d)).unwrap();
        }
        w.issue_ca_certs();
        w.write_tals();
        w
    }

    pub fn srv(&self) -> PathBuf {
        self.dir.path().join("srv")
    }
    pub fn cache(&self) -> PathBuf {
        self.dir.path().join("cache")
    }
    pub fn rsync_log(&self) -> PathBuf {
        self.dir.path().join("rsync.log")
    }

    pub fn issuer(&self, ca: usize) -> Issuer {
        Issuer { key: self.sc.cas[ca].key, cert_uri: cert_uri(&self.sc, ca), crl_uri: crl_uri(&self.sc, ca) }
    }

    fn issue_ca_certs(&mut self) {
        let sc = self.sc.clone();
        for (i, ca) in sc.cas.iter().enumerate() {
            let mut res = cert_res(&sc, i);
            let (nb, na) = match ca.cert_fault {
                Some(CertFault::Expired) => (-86400 * 30, -3600),
                Some(CertFault::NotYetValid) => (3600, 86400 * 30),
                _ => (-86400, ca.not_after),
            };
            let val = gen::validity(self.now, nb, na);
            let dir = ca_dir_uri(&sc, i);
            let mft = mft_uri(&sc, i);
            let notify = ca_notify_uri(&sc, i);
            let bytes = match ca.parent {
                None => gen::issue_ta(ca.key, &res, val, &dir, &mft, notify.as_ref(), 1),
                Some(p) => {
                    let issuer = self.issuer(p);
                    if ca.cert_fault == Some(CertFault::Overclaim) {
                        // a block nobody up the chain holds
                        res.v4.push((Ipv4Addr::new(192, 0, 2, 0), 24));
                    }
                    let mut key = ca.key;
                    let mut dir = dir.clone();
                    let mut mft = mft.clone();
                    if let Some(CertFault::LoopKey(n)) | Some(CertFault::CycleTo(n)) = ca.cert_fault {
                        // key of an ancestor n levels above this CA (1 = its parent)
                        let mut cur = p;
                        for _ in 1..n.max(1) {
                            if let Some(pp) = sc.cas[cur].parent {
                                cur = pp;
                            }
                        }
                        key = sc.cas[cur].key;
                        if matches!(ca.cert_fault, Some(CertFault::CycleTo(_))) {
                            dir = ca_dir_uri(&sc, cur);
                            mft = mft_uri(&sc, cur);
                            // resources of the ancestor as far as the issuer holds them
                            res = cert_res(&sc, p);
                        }
                    }
                    let wrong_crl = uri::Rsync::from_string(format!("{}other.crl", ca_dir_uri(&sc, p))).unwrap();
                    let mft_opt = if ca.cert_fault == Some(CertFault::NoManifestSia) { None } else { Some(&mft) };
                    let b = gen::issue_ca_cert(
                        &issuer,
                        key,
                        &res,
                        val,
                        Some(&dir),
                        mft_opt,
                        notify.as_ref(),
                        5000 + i as u128,
                        if ca.cert_fault == Some(CertFault::WrongCrlUri) { Some(&wrong_crl) } else { None },
                    );
                    match ca.cert_fault {
                        Some(CertFault::BadSig) => gen::corrupt_signature(&b),
                        Some(CertFault::Garbage) => Bytes::from_static(b"\x30\x03\x02\x01\x05 this is not a certificate"),
                        _ => b,
                    }
                }
            };
            self.ca_certs.insert(i, bytes);
        }
    }

    fn write_tals(&self) {
        self.write_tals_with(&[])
    }

    /// Writes the TAL files; roots listed in `foreign` get a TAL with another key.
    pub fn write_tals_with(&self, foreign: &[usize]) {
        for (i, ca) in self.sc.cas.iter().enumerate() {
            if ca.parent.is_none() {
                let key = if foreign.contains(&i) { gen::N_CA_KEYS - 1 - (i % 8) } else { ca.key };
                let uris: Vec<String> = (0..ta_uri_count(&self.sc, i))
                    .map(|u| {
                        let (m, name) = ta_location(&self.sc, i, u);
                        format!("{}{}", module_uri(m), name)
                    })
                    .collect();
                let text = gen::tal_text(&uris, key);
                std::fs::write(self.dir.path().join("tals").join(format!("tal{}.tal", i)), text).unwrap();
            }
        }
    }

    /// Issues (once) version `v` of CA `ca`.
    pub fn point(&mut self, ca: usize, v: usize) -> &IssuedPoint {
        if !self.points.contains_key(&(ca, v)) {
            let p = self.issue_point(ca, v);
            self.points.insert((ca, v), p);
        }
        &self.points[&(ca, v)]
    }

    fn issue_point(&self, ca: usize, v: usize) -> IssuedPoint {
        let sc = &self.sc;
        let ver = &sc.cas[ca].versions[v];
        let issuer = self.issuer(ca);
        let dir = ca_dir_uri(sc, ca);
        let mut point = IssuedPoint::default();
        let mut revoked: Vec<u128> = Vec::new();
        let wrong_crl = uri::Rsync::from_string(format!("{}other.crl", dir)).unwrap();

        // objects
        for (k, obj) in ver.objs.iter().enumerate() {
            let name = obj_name(k, obj);
            let uri = dir.join(name.as_bytes()).unwrap();
            let serial = 10 + (v as u128) * 64 + k as u128;
            let (nb, na) = match obj.fault {
                Some(ObjFault::Expired) => (-86400 * 10, -1800),
                Some(ObjFault::NotYetValid) => (1800, 86400 * 10),
                _ => (-3600, obj.not_after),
            };
            let val = gen::validity(self.now, nb, na);
            if obj.fault == Some(ObjFault::Revoked) {
                revoked.push(serial);
            }
            let crl_override = if obj.fault == Some(ObjFault::WrongCrlUri) { Some(&wrong_crl) } else { None };
            let overclaim = obj.fault == Some(ObjFault::Overclaim);
            let bytes = match &obj.kind {
                ObjKind::Roa { .. } | ObjKind::RoaRaw { .. } => {
                    let items = obj_items(ca, v, k, obj);
                    let mut asn = 0;
                    let mut prefixes: Vec<(IpAddr, u8, Option<u8>)> = items
                        .iter()
                        .filter_map(|i| match i {
                            MItem::Origin(o) => {
                                asn = o.asn;
                                Some((o.addr, o.len, if o.max_len == o.len { None } else { Some(o.max_len) }))
                            }
                            _ => None,
                        })
                        .collect();
                    if overclaim {
                        prefixes.push((IpAddr::V4(Ipv4Addr::new(198, 51, 100, 0)), 24, None));
                    }
                    gen::issue_roa(&issuer, &uri, asn, &prefixes, val, serial, crl_override)
                }
                ObjKind::Aspa { .. } => {
                    let items = obj_items(ca, v, k, obj);
                    let MItem::Aspa(a) = &items[0] else { unreachable!() };
                    // overclaim: customer outside the CA's AS resources
                    let customer = if overclaim { 4_000_000_000 } else { a.customer };
                    gen::issue_aspa(&issuer, &uri, customer, &a.providers, val, serial)
                }
                ObjKind::Router { .. } => {
                    let mut asns = router_asns(ca, v, k, obj);
                    if overclaim {
                        asns.push((4_000_000_001, 4_000_000_001));
                    }
                    gen::issue_router_cert(&issuer, (ca + k) % gen::N_EC_KEYS, &asns, val, serial, true)
                }
                ObjKind::Gbr => gen::issue_gbr(&issuer, &uri, val, serial),
            };
            let bytes = match obj.fault {
                Some(ObjFault::BadSig) => gen::corrupt_signature(&bytes),
                Some(ObjFault::Garbage) => Bytes::from(format!("garbage object {} {} {}", ca, v, k).into_bytes()),
                _ => bytes,
            };
            // ASPA / router certs cannot take a CRL override through the builders used; emulate WrongCrlUri only for ROAs.
            point.files.insert(name.clone(), bytes.clone());
            point.listed.push((name, gen::sha256(&bytes)));
        }
        // child CA certificates
        for (j, child) in sc.cas.iter().enumerate() {
            if child.parent == Some(ca) {
                if ver.omit_children.contains(&j) {
                    continue;
                }
                let name = format!("ca{}.cer", j);
                let bytes = self.ca_certs[&j].clone();
                if child.cert_fault == Some(CertFault::Revoked) {
                    revoked.push(5000 + j as u128);
                }
                point.listed.push((name.clone(), gen::sha256(&bytes)));
                point.files.insert(name, bytes);
            }
        }
        // manifest EE serial
        let mft_serial = 1_000_000 + v as u128;
        if ver.fault == Some(PpFault::CrlRevokesMftEe) {
            revoked.push(mft_serial);
        }
        // CRL
        let crl_name = format!("ca{}.crl", ca);
        let other_key = (sc.cas[ca].key + 1) % gen::N_CA_KEYS;
        let crl_bytes = gen::issue_crl(
            &issuer,
            gen::t(self.now, ver.this_off.min(-60)),
            gen::t(self.now, ver.crl_next_off),
            &revoked,
            ver.number as u128 + 1,
            if ver.fault == Some(PpFault::CrlBadSig) { Some(other_key) } else { None },
        );
        let crl_bytes = if ver.fault == Some(PpFault::CrlGarbage) { Bytes::from_static(b"not a crl at all") } else { crl_bytes };
        point.crl = Some(crl_bytes.clone());
        match ver.fault {
            Some(PpFault::CrlNotListed) => {
                point.files.insert(crl_name.clone(), crl_bytes.clone());
            }
            Some(PpFault::CrlMissing) => {
                point.listed.push((crl_name.clone(), gen::sha256(&crl_bytes)));
            }
            Some(PpFault::CrlHashMismatch) => {
                point.listed.push((crl_name.clone(), gen::sha256(b"something else")));
                point.files.insert(crl_name.clone(), crl_bytes.clone());
            }
            _ => {
                point.listed.push((crl_name.clone(), gen::sha256(&crl_bytes)));
                point.files.insert(crl_name.clone(), crl_bytes.clone());
            }
        }
        // file-level faults
        let nobj = ver.objs.len();
        match ver.fault {
            Some(PpFault::FileMissing(k)) if nobj > 0 => {
                let name = obj_name(k as usize % nobj, &ver.objs[k as usize % nobj]);
                point.files.remove(&name);
            }
            Some(PpFault::HashMismatch(k)) if nobj > 0 => {
                let name = obj_name(k as usize % nobj, &ver.objs[k as usize % nobj]);
                let mut data = point.files[&name].to_vec();
                data.push(0);
                point.files.insert(name, Bytes::from(data));
            }
            Some(PpFault::StrayFile) => {
                let uri = dir.join(b"stray.roa").unwrap();
                let stray = gen::issue_roa(&issuer, &uri, 64999, &[(IpAddr::V4(Ipv4Addr::new(10, ca as u8, 255, 0)), 24, None)], gen::validity(self.now, -3600, 86400), 999_999, None);
                point.files.insert("stray.roa".into(), stray);
            }
            Some(PpFault::OddFiles) => {
                let odd = Bytes::from_static(b"some unknown file");
                point.listed.push(("odd.bin".into(), gen::sha256(&odd)));
                point.files.insert("odd.bin".into(), odd);
                let crl2 = gen::issue_crl(&issuer, gen::t(self.now, -60), gen::t(self.now, 86400), &[], 77, None);
                point.listed.push(("second.crl".into(), gen::sha256(&crl2)));
                point.files.insert("second.crl".into(), crl2);
            }
            _ => {}
        }
        // manifest
        let mft_name = format!("ca{}.mft", ca);
        let ee_val = match ver.fault {
            Some(PpFault::MftEeExpired) => gen::validity(self.now, -86400 * 10, -1800),
            _ => gen::validity(self.now, ver.this_off.min(-60) - 60, ver.ee_after_off),
        };
        let mft = gen::issue_manifest(
            &issuer,
            &mft_uri(sc, ca),
            ver.number as u128,
            gen::t(self.now, ver.this_off),
            gen::t(self.now, ver.next_off),
            &point.listed,
            ee_val,
            mft_serial,
            if ver.fault == Some(PpFault::MftWrongCrlUri) { Some(&wrong_crl) } else { None },
        );
        let mft = match ver.fault {
            Some(PpFault::MftBadSig) => gen::corrupt_signature(&mft),
            Some(PpFault::MftGarbage) => Bytes::from_static(b"\x30\x80 manifest? no."),
            _ => mft,
        };
        point.manifest = Some(mft.clone());
        if ver.fault != Some(PpFault::MftMissing) {
            point.files.insert(mft_name, mft);
        }
        point
    }

    /// Publishes the step's versions to the fake rsync server root.
    pub fn publish(&mut self, step: &Step) {
        self.write_tals_with(&step.foreign_tal_key);
        let srv = self.srv();
        let _ = std::fs::remove_dir_all(&srv);
        std::fs::create_dir_all(&srv).unwrap();
        let sc = self.sc.clone();
        for (i, ca) in sc.cas.iter().enumerate() {
            let moddir = srv.join(host(ca.module)).join("repo");
            std::fs::create_dir_all(&moddir).unwrap();
            if ca.parent.is_none() {
                for u in 0..ta_uri_count(&sc, i) {
                    let (m, name) = ta_location(&sc, i, u);
                    let dir = srv.join(host(m)).join("repo");
                    std::fs::create_dir_all(&dir).unwrap();
                    let bytes: Option<Bytes> = match ta_serve_state(step, i, u) {
                        0 => Some(self.ca_certs[&i].clone()),
                        1 => Some(self.ta_variant(i, true, false)),
                        2 => Some(Bytes::from_static(b"\x30\x82 this is no certificate")),
                        3 => Some(self.ta_variant(i, false, true)),
                        _ => None,
                    };
                    if let Some(b) = bytes {
                        std::fs::write(dir.join(name), b).unwrap();
                    }
                }
            }
            let v = step.publish.get(i).copied().unwrap_or(0).min(ca.versions.len().saturating_sub(1));
            if ca.versions.is_empty() || ca.sia_under_parent_mft {
                continue;
            }
            let cadir = moddir.join(format!("ca{}", i));
            std::fs::create_dir_all(&cadir).unwrap();
            let files = self.point(i, v).files.clone();
            for (name, data) in files {
                std::fs::write(cadir.join(name), data).unwrap();
            }
        }
        for m in &step.fail_modules {
            let _ = std::fs::create_dir_all(srv.join(host(*m)));
            std::fs::write(srv.join(host(*m)).join("repo.fail"), b"").unwrap();
        }
        self.publish_rrdp(step);
    }

    /// What RRDP repository `r` must offer in `step`: the union of the published files of its CAs
    /// under their rsync URIs.
    pub fn rrdp_content(&mut self, step: &Step, r: usize) -> BTreeMap<String, Bytes> {
        let sc = self.sc.clone();
        let mut want = BTreeMap::new();
        for (i, ca) in sc.cas.iter().enumerate() {
            if ca.rrdp != Some(r) || ca.versions.is_empty() || ca.sia_under_parent_mft {
                continue;
            }
            let v = step.publish.get(i).copied().unwrap_or(0).min(ca.versions.len() - 1);
            let dir = ca_dir_uri(&sc, i);
            for (name, data) in self.point(i, v).files.iter() {
                want.insert(format!("{}{}", dir, name), data.clone());
            }
        }
        want
    }

    /// Brings every RRDP repository to the step's content through the publisher operations (one new
    /// serial with a delta per step in which something changed) and puts the files on the HTTPS
    /// server; repositories in `step.fail_rrdp` answer 500 for their notification file.
    fn publish_rrdp(&mut self, step: &Step) {
        if self.https.is_none() {
            return;
        }
        let repos: Vec<usize> = self.rrdp.keys().copied().collect();
        for r in repos {
            let want = self.rrdp_content(step, r);
            let server = self.rrdp.get_mut(&r).unwrap();
            let mut changes: Vec<(String, Option<Bytes>)> = Vec::new();
            for (uri, data) in &want {
                if server.objects.get(uri) != Some(data) {
                    changes.push((uri.clone(), Some(data.clone())));
                }
            }
            for uri in server.objects.keys() {
                if !want.contains_key(uri) {
                    changes.push((uri.clone(), None));
                }
            }
            if !changes.is_empty() {
                server.apply(&changes);
            }
            let https = self.https.as_ref().unwrap();
            server.install(https);
            if step.fail_rrdp.contains(&r) {
                https.set(&server.host, &server.notify_path(), Resp::status(500));
            }
        }
    }

    /// Damages what RRDP repository `r` offers (after `publish`): 0 notification answers 500,
    /// 1 snapshot and delta files are garbage, 2 the notification lists wrong hashes for the
    /// snapshot and every delta, 3 the snapshot is cut off in the middle of the transfer,
    /// 4 every request for the host answers 404.
    pub fn sabotage_rrdp(&self, r: usize, kind: u8) {
        let (Some(https), Some(server)) = (self.https.as_ref(), self.rrdp.get(&r)) else { return };
        match kind % 5 {
            0 => https.set(&server.host, &server.notify_path(), Resp::status(500)),
            1 => {
                https.set(&server.host, &server.snapshot_path(), Resp::ok(b"<snapshot garbage".to_vec()));
                for d in &server.deltas {
                    https.set(&server.host, &server.delta_path(d.serial), Resp::ok(b"garbage garbage".to_vec()));
                }
            }
            2 => {
                let wrong = crate::httpsrv::sha256_hex(b"something else");
                let deltas: Vec<(u64, String, String)> = server.delta_list().into_iter().rev().map(|(s, u, _)| (s, u, wrong.clone())).collect();
                let xml = crate::httpsrv::render_notification(&server.session, server.serial, &server.abs(&server.snapshot_path()), &wrong, &deltas);
                https.set(&server.host, &server.notify_path(), Resp::ok(xml));
            }
            3 => {
                let xml = server.snapshot_xml();
                let n = xml.len() / 2;
                https.set(&server.host, &server.snapshot_path(), Resp::ok(xml).drop_after(n));
                for d in &server.deltas {
                    https.set(&server.host, &server.delta_path(d.serial), Resp::status(404));
                }
            }
            _ => {
                https.clear_host(&server.host);
            }
        }
    }

    /// Starts a new RRDP session for repository `r` (same content): the next update needs the snapshot.
    pub fn rrdp_new_session(&mut self, r: usize) {
        if let (Some(https), Some(server)) = (self.https.as_ref(), self.rrdp.get_mut(&r)) {
            server.new_session();
            server.install(https);
        }
    }

    /// A trust anchor certificate for root `ca` with another key and/or expired.
    pub fn ta_variant(&self, ca: usize, other_key: bool, expired: bool) -> Bytes {
        let sc = &self.sc;
        let key = if other_key { gen::N_CA_KEYS - 9 - (ca % 8) } else { sc.cas[ca].key };
        let val = if expired { gen::validity(self.now, -86400 * 30, -3600) } else { gen::validity(self.now, -86400, sc.cas[ca].not_after) };
        gen::issue_ta(key, &cert_res(sc, ca), val, &ca_dir_uri(sc, ca), &mft_uri(sc, ca), ca_notify_uri(sc, ca).as_ref(), 1)
    }

    /// Damages what the fake server offers for one module (after `publish`).
    pub fn sabotage(&self, module: usize, kind: u8) {
        let moddir = self.srv().join(host(module)).join("repo");
        let mut files = Vec::new();
        fn walk(dir: &Path, out: &mut Vec<PathBuf>) {
            if let Ok(rd) = std::fs::read_dir(dir) {
                for e in rd.flatten() {
                    let p = e.path();
                    if p.is_dir() {
                        walk(&p, out)
                    } else {
                        out.push(p)
                    }
                }
            }
        }
        walk(&moddir, &mut files);
        files.sort();
        match kind % 5 {
            0 => {
                let _ = std::fs::create_dir_all(self.srv().join(host(module)));
                std::fs::write(self.srv().join(host(module)).join("repo.fail"), b"").unwrap();
            }
            1 => {
                for f in &files {
                    std::fs::write(f, b"garbage garbage garbage").unwrap();
                }
            }
            2 => {
                // truncate every file to half
                for f in &files {
                    let d = std::fs::read(f).unwrap();
                    std::fs::write(f, &d[..d.len() / 2]).unwrap();
                }
            }
            3 => {
                // withhold everything but the manifests
                for f in &files {
                    if f.extension().map(|e| e != "mft").unwrap_or(true) {
                        let _ = std::fs::remove_file(f);
                    }
                }
            }
            _ => {
                // flip a byte in every non-manifest file (wrong hashes)
                for f in &files {
                    if f.extension().map(|e| e != "mft").unwrap_or(true) {
                        let mut d = std::fs::read(f).unwrap();
                        if !d.is_empty() {
                            let n = d.len() / 2;
                            d[n] ^= 0x55;
                        }
                        std::fs::write(f, d).unwrap();
                    }
                }
            }
        }
    }

    pub fn config(&self) -> Config {
        config_for(&self.sc.cfg, &self.paths())
    }
}

/// The directories a run needs; lets another process (or a copy of a cache) run a step of a world.
#[derive(Serialize, Deserialize, Clone, Debug)]
pub struct WorldPaths {
    pub conf: PathBuf,
    pub cache: PathBuf,
    pub tals: PathBuf,
    pub srv: PathBuf,
    pub rsync_log: PathBuf,
    pub rsync_bin: PathBuf,
    /// proxy URL of the world's HTTPS server; RRDP is enabled iff this is set (some CA uses RRDP)
    #[serde(default)]
    pub rrdp_proxy: Option<String>,
}

/// The configuration `World::config` uses, over explicit paths.
pub fn config_for(cfg: &Cfg, paths: &WorldPaths) -> Config {
    {
        let mut c = Config::default_with_paths(paths.conf.clone(), paths.cache.clone());
        c.no_rir_tals = true;
        c.extra_tals_dir = Some(paths.tals.clone());
        c.strict = cfg.strict;
        c.stale = policy(cfg.stale);
        c.unsafe_vrps = policy(cfg.unsafe_vrps);
        c.limit_v4_len = cfg.limit_v4;
        c.limit_v6_len = cfg.limit_v6;
        c.enable_bgpsec = cfg.bgpsec;
        c.enable_aspa = cfg.aspa;
        c.max_ca_depth = cfg.max_depth;
        c.validation_threads = cfg.threads.max(1);
        c.dirty_repository = cfg.dirty;
        c.disable_rrdp = true;
        c.rsync_command = paths.rsync_bin.to_string_lossy().into_owned();
        c.rsync_args = Some(vec![format!("--rv-root={}", paths.srv.display()), format!("--rv-log={}", paths.rsync_log.display())]);
        c.rsync_timeout = Some(std::time::Duration::from_secs(30));
        c.log_repository_issues = std::env::var_os("RV_LOG").is_some();
        if let Some(proxy) = paths.rrdp_proxy.as_ref() {
            // as httpsrv::client_config: every host name is reached through the harness listener
            c.disable_rrdp = false;
            c.rrdp_root_certs = vec![crate::httpsrv::tls_ca_path()];
            c.rrdp_proxies = vec![proxy.clone()];
            c.rrdp_timeout = Some(std::time::Duration::from_secs(60));
            c.rrdp_connect_timeout = Some(std::time::Duration::from_secs(20));
            c.rrdp_fallback = match cfg.rrdp_fallback {
                0 => FallbackPolicy::Never,
                1 => FallbackPolicy::Stale,
                _ => FallbackPolicy::New,
            };
            // expiry of local RRDP copies is out of scope: a copy stays "current" for the whole case
            c.rrdp_fallback_time = std::time::Duration::from_secs(86400);
        }
        c
    }
}

impl World {
    pub fn paths(&self) -> WorldPaths {
        WorldPaths { conf: self.dir.path().join("routinator.conf"), cache: self.cache(), tals: self.dir.path().join("tals"), srv: self.srv(), rsync_log: self.rsync_log(), rsync_bin: self.rsync_bin.clone(), rrdp_proxy: self.https.as_ref().map(|h| h.proxy_url()) }
    }

    /// One engine run over the persistent cache.
    pub fn run(&self, offline: bool, exceptions: &LocalExceptions) -> Result<RunOutput, String> {
        self.run_with(offline, exceptions, |_| ())
    }

    pub fn run_with(&self, offline: bool, exceptions: &LocalExceptions, tweak: impl FnOnce(&mut Config)) -> Result<RunOutput, String> {
        let mut config = self.config();
        tweak(&mut config);
        run_config(&config, offline, exceptions)
    }
}

/// One engine run with an explicit configuration (what `World::run_with` does).
pub fn run_config(config: &Config, offline: bool, exceptions: &LocalExceptions) -> Result<RunOutput, String> {
    {
        let mut engine = Engine::new(config, !offline).map_err(|_| "Engine::new failed".to_string())?;
        engine.ignite().map_err(|_| "ignite failed".to_string())?;
        let started = std::time::Instant::now();
        let (report, mut metrics) = ValidationReport::process(&engine, config, false).map_err(|e| format!("run failed (fatal={})", e.is_fatal()))?;
        let snapshot = report.into_snapshot(exceptions, &mut metrics);
        let payload = MSet::from_snapshot(&snapshot).map_err(|e| format!("snapshot has duplicates: {}", e))?;
        Ok(RunOutput { payload, refresh: snapshot.refresh(), snapshot, metrics, elapsed: started.elapsed() })
    }
}

pub struct RunOutput {
    pub payload: MSet,
    pub refresh: Option<Time>,
    pub snapshot: PayloadSnapshot,
    pub metrics: Metrics,
    pub elapsed: std::time::Duration,
}

pub fn policy(p: u8) -> FilterPolicy {
    match p {
        0 => FilterPolicy::Reject,
        1 => FilterPolicy::Warn,
        _ => FilterPolicy::Accept,
    }
}

pub fn empty_exceptions() -> LocalExceptions {
    LocalExceptions::empty()
}

//------------------------------------------------------------------------------------------
// Reference model (DESIGN.md Appendix A)

#[derive(Clone, Debug, Default)]
pub struct ModelState {
    /// stored version per CA (index into versions), as accepted from a fetch path
    pub stored: HashMap<usize, usize>,
    /// version present in the local rsync copy per CA (None = nothing fetched yet for its module)
    pub local: HashMap<usize, usize>,
    /// modules with a local rsync copy
    pub local_modules: BTreeSet<usize>,
    /// trust anchor file in the local rsync copy per (root, uri index): serve state 0..3
    pub ta_local: HashMap<(usize, usize), u8>,
    /// stored trust anchor certificate per (root, uri index): 0 good, 1 other key, 3 expired
    pub ta_store: HashMap<(usize, usize), u8>,
    /// RRDP repositories with a local archive (left by a successful update, not yet cleaned up)
    pub rrdp_local: BTreeSet<usize>,
}

/// What the RRDP collector reports for a repository in one run (`rrdp::LoadResult`; `Stale` cannot
/// occur because local copies never expire within a case).
#[derive(Clone, Copy, Debug, PartialEq, Eq, PartialOrd, Ord)]
pub enum RrdpOutcome {
    /// update succeeded: the archive equals what the server offers in this step
    Updated,
    /// update failed, a local copy exists: no transport for the CAs of the repository in this run
    Current,
    /// update failed, no local copy: rsync fallback unless the policy is `never`
    Unavailable,
}

/// The transport a CA's publication point was collected through in one run.
#[derive(Clone, Copy, Debug, PartialEq, Eq, PartialOrd, Ord)]
pub enum Via {
    Rsync,
    Rrdp,
    /// rsync because the RRDP repository was unavailable and the policy allows falling back
    RsyncFallback,
    /// no transport (offline run, RRDP failed with a current copy, or policy `never`)
    Nothing,
}

#[derive(Clone, Debug, Default)]
pub struct Expected {
    pub payload: MSet,
    /// per CA: Some((version, from_fetch)) if its publication point was accepted
    pub accepted: BTreeMap<usize, (usize, bool)>,
    /// CAs whose publication point was attempted and rejected (resources become unsafe)
    pub rejected: BTreeSet<usize>,
    /// CAs never attempted (certificate invalid / ancestor not accepted)
    pub skipped: BTreeSet<usize>,
    /// upper bound on the refresh time (seconds from now), None if nothing contributed
    pub refresh_bound: Option<i64>,
    /// every item of every object whose expected contribution is "nothing" keyed for diagnostics
    pub forbidden: BTreeMap<MItem, String>,
    /// smallest EE notAfter among contributing objects (seconds from now)
    pub refresh_min_leaf: Option<i64>,
    /// outcome of the (single) update attempt per RRDP repository tried in this run
    pub rrdp: BTreeMap<usize, RrdpOutcome>,
    /// transport per attempted CA
    pub via: BTreeMap<usize, Via>,
    /// version the transport offered per attempted CA (absent = nothing collected)
    pub fetched: BTreeMap<usize, usize>,
}

fn is_stale(off: i64) -> bool {
    off < 0
}

/// Does the manifest+CRL of this version validate (ignoring newer-than-stored and file presence)?
fn manifest_valid(cfg: &Cfg, ver: &Version, fetch: bool) -> bool {
    match ver.fault {
        Some(PpFault::MftBadSig) | Some(PpFault::MftGarbage) | Some(PpFault::MftMissing) | Some(PpFault::MftEeExpired) | Some(PpFault::MftWrongCrlUri) => return false,
        Some(PpFault::CrlBadSig) | Some(PpFault::CrlGarbage) | Some(PpFault::CrlRevokesMftEe) => return false,
        Some(PpFault::CrlMissing) | Some(PpFault::CrlNotListed) | Some(PpFault::CrlHashMismatch) => {
            // only checkable on the fetch path; such a version can never have been stored
            return false;
        }
        _ => {}
    }
    if fetch && ver.this_off > 0 {
        return false;
    }
    if (is_stale(ver.next_off) || is_stale(ver.crl_next_off)) && cfg.stale == 0 {
        return false;
    }
    if ver.ee_after_off < 0 {
        return false;
    }
    true
}

fn files_complete(ver: &Version) -> bool {
    !matches!(ver.fault, Some(PpFault::FileMissing(_)) | Some(PpFault::HashMismatch(_))) || ver.objs.is_empty()
}

fn cert_ok(sc: &Scenario, ca: usize) -> bool {
    let c = &sc.cas[ca];
    if c.parent.is_none() {
        return c.cert_fault.is_none() || matches!(c.cert_fault, Some(CertFault::WrongCrlUri));
    }
    match c.cert_fault {
        None => {}
        Some(_) => return false,
    }
    if c.not_after < 0 {
        return false;
    }
    depth(sc, ca) <= sc.cfg.max_depth
}

/// The rsync module `m` is transferred (once per run) when first needed: on success the local copy
/// of every CA directory and trust anchor file in it becomes what the server offers in this step.
fn attempt_module(sc: &Scenario, step: &Step, state: &mut ModelState, attempted: &mut BTreeSet<usize>, m: usize) {
    if attempted.contains(&m) {
        return;
    }
    attempted.insert(m);
    if step.fail_modules.contains(&m) {
        return;
    }
    state.local_modules.insert(m);
    for (j, other) in sc.cas.iter().enumerate() {
        if other.module == m && !other.versions.is_empty() {
            let v = step.publish.get(j).copied().unwrap_or(0).min(other.versions.len() - 1);
            state.local.insert(j, v);
        }
        if other.parent.is_none() {
            for u in 0..ta_uri_count(sc, j) {
                if ta_location(sc, j, u).0 == m {
                    match ta_serve_state(step, j, u) {
                        4 => {
                            state.ta_local.remove(&(j, u));
                        }
                        st => {
                            state.ta_local.insert((j, u), st);
                        }
                    }
                }
            }
        }
    }
}

/// Runs the model for one step, updating `state`.
pub fn model_step(sc_in: &Scenario, step: &Step, state: &mut ModelState) -> Expected {
    let mut sc_eff = sc_in.clone();
    if let Some(st) = step.stale {
        sc_eff.cfg.stale = st;
    }
    let sc = &sc_eff;
    let mut exp = Expected::default();
    // process CAs in index order (parents have smaller indices)
    let mut refresh: Option<i64> = None;
    let mut ca_refresh: HashMap<usize, i64> = HashMap::new();
    let mut attempted: BTreeSet<usize> = BTreeSet::new();
    for i in 0..sc.cas.len() {
        let ca = &sc.cas[i];
        // chain accepted?
        let parent_ok = match ca.parent {
            None => true,
            // the parent's point was accepted and the version used publishes this CA's certificate
            Some(p) => exp.accepted.get(&p).map(|(pv, _)| !sc.cas[p].versions[*pv].omit_children.contains(&i)).unwrap_or(false),
        };
        if !parent_ok || !cert_ok(sc, i) {
            exp.skipped.insert(i);
            continue;
        }
        if ca.parent.is_none() && ca.not_after < 0 {
            exp.skipped.insert(i);
            continue;
        }
        if ca.parent.is_none() {
            // trust anchor: the TAL's URIs are tried in order; a decodable download replaces the stored
            // copy for that URI, otherwise the stored copy is used; the first certificate that matches
            // the TAL key and validates wins.
            let mut found = false;
            for u in 0..ta_uri_count(sc, i) {
                let (m, _) = ta_location(sc, i, u);
                if !step.offline {
                    attempt_module(sc, step, state, &mut attempted, m);
                }
                let download = if step.offline { None } else { state.ta_local.get(&(i, u)).copied() };
                let effective = match download {
                    Some(d) if d == 0 || d == 1 || d == 3 => {
                        state.ta_store.insert((i, u), d);
                        Some(d)
                    }
                    _ => state.ta_store.get(&(i, u)).copied(),
                };
                if step.foreign_tal_key.contains(&i) {
                    continue;
                }
                if effective == Some(0) {
                    found = true;
                    break;
                }
            }
            if !found {
                exp.skipped.insert(i);
                continue;
            }
        }
        // fetched view. rsync: the whole module is transferred once per run, when first needed.
        // RRDP (collector/base.rs Run::repository): the repository is updated once per run, when first
        // needed; Updated => the archive is this step's content; failed with a local copy (Current) =>
        // no transport at all; failed without one (Unavailable) => rsync unless the policy is `never`.
        let mut via = Via::Nothing;
        let mut rrdp_view: Option<usize> = None;
        if !step.offline {
            match ca.rrdp {
                None => {
                    attempt_module(sc, step, state, &mut attempted, ca.module);
                    via = Via::Rsync;
                }
                Some(r) => {
                    let outcome = match exp.rrdp.get(&r) {
                        Some(o) => *o,
                        None => {
                            let o = if !step.fail_rrdp.contains(&r) {
                                state.rrdp_local.insert(r);
                                RrdpOutcome::Updated
                            } else if state.rrdp_local.contains(&r) {
                                RrdpOutcome::Current
                            } else {
                                RrdpOutcome::Unavailable
                            };
                            exp.rrdp.insert(r, o);
                            o
                        }
                    };
                    match outcome {
                        RrdpOutcome::Updated => {
                            via = Via::Rrdp;
                            if !ca.versions.is_empty() && !ca.sia_under_parent_mft {
                                rrdp_view = Some(step.publish.get(i).copied().unwrap_or(0).min(ca.versions.len() - 1));
                            }
                        }
                        RrdpOutcome::Current => {}
                        RrdpOutcome::Unavailable => {
                            if sc.cfg.rrdp_fallback != 0 {
                                attempt_module(sc, step, state, &mut attempted, ca.module);
                                via = Via::RsyncFallback;
                            }
                        }
                    }
                }
            }
        }
        exp.via.insert(i, via);
        if ca.versions.is_empty() {
            exp.rejected.insert(i);
            continue;
        }
        let fetched = match via {
            Via::Nothing => None,
            Via::Rrdp => rrdp_view,
            Via::Rsync | Via::RsyncFallback => state.local.get(&i).copied(),
        };
        if let Some(f) = fetched {
            exp.fetched.insert(i, f);
        }
        let stored = state.stored.get(&i).copied();
        let mut used: Option<(usize, bool)> = None;
        if let Some(f) = fetched {
            let ver = &ca.versions[f];
            let same = stored == Some(f);
            if !same && ver.fault != Some(PpFault::MftMissing) && manifest_valid(&sc.cfg, ver, true) {
                let newer = match stored {
                    None => true,
                    Some(s) => ver.number > ca.versions[s].number && ver.this_off > ca.versions[s].this_off,
                };
                if newer && files_complete(ver) {
                    state.stored.insert(i, f);
                    used = Some((f, true));
                }
            }
        }
        if used.is_none() {
            if let Some(s) = state.stored.get(&i).copied() {
                if manifest_valid(&sc.cfg, &ca.versions[s], false) {
                    used = Some((s, false));
                }
            }
        }
        let Some((v, from_fetch)) = used else {
            exp.rejected.insert(i);
            continue;
        };
        exp.accepted.insert(i, (v, from_fetch));
        let ver = &ca.versions[v];
        // refresh bound of this point's chain
        let parent_r = ca.parent.and_then(|p| ca_refresh.get(&p).copied()).unwrap_or(i64::MAX);
        let chain_r = parent_r.min(ca.not_after).min(ver.ee_after_off).min(ver.next_off).min(ver.crl_next_off);
        ca_refresh.insert(i, chain_r);
        for (k, obj) in ver.objs.iter().enumerate() {
            let items = obj_items(i, v, k, obj);
            let enabled = match obj.kind {
                ObjKind::Roa { .. } | ObjKind::RoaRaw { .. } => true,
                ObjKind::Aspa { .. } => sc.cfg.aspa,
                ObjKind::Router { .. } => sc.cfg.bgpsec,
                ObjKind::Gbr => false,
            };
            let fault_applies = match (obj.fault, &obj.kind) {
                (None, _) => false,
                // CRL-URI override is only implemented for ROAs by the generator
                (Some(ObjFault::WrongCrlUri), ObjKind::Roa { .. }) | (Some(ObjFault::WrongCrlUri), ObjKind::RoaRaw { .. }) => true,
                (Some(ObjFault::WrongCrlUri), _) => false,
                (Some(_), _) => true,
            };
            let valid = !fault_applies && obj.not_after > 0;
            if valid && enabled {
                let mut any = false;
                for it in items {
                    let keep = match &it {
                        MItem::Origin(o) => {
                            let limit = if o.is_v4() { sc.cfg.limit_v4 } else { sc.cfg.limit_v6 };
                            limit.map(|l| o.len <= l).unwrap_or(true)
                        }
                        _ => true,
                    };
                    if keep {
                        exp.payload.insert(it);
                        any = true;
                    }
                }
                if any {
                    exp.refresh_min_leaf = Some(exp.refresh_min_leaf.map(|x: i64| x.min(obj.not_after)).unwrap_or(obj.not_after));
                    let r = chain_r.min(obj.not_after);
                    refresh = Some(refresh.map(|x: i64| x.min(r)).unwrap_or(r));
                }
            } else if !valid {
                for it in items {
                    exp.forbidden.insert(it, format!("ca{} v{} obj{} fault {:?}", i, v, k, obj.fault));
                }
            }
        }
    }
    exp.refresh_bound = refresh;
    // cleanup of local rsync copies (only when a collector ran and the repository is not kept dirty):
    // a module copy survives if it was attempted in this run or a retained stored point lives in it.
    if !step.offline && !sc.cfg.dirty {
        // (store.rs cleanup_points: a retained stored point registers its rpkiNotify URI if it has one,
        // else its rsync module; rrdp/base.rs cleanup: plus every repository tried in this run)
        let mut keep: BTreeSet<usize> = attempted.clone();
        let mut keep_rrdp: BTreeSet<usize> = exp.rrdp.keys().copied().collect();
        for (j, c) in sc.cas.iter().enumerate() {
            if state.stored.contains_key(&j) {
                match c.rrdp {
                    None => {
                        keep.insert(c.module);
                    }
                    Some(r) => {
                        keep_rrdp.insert(r);
                    }
                }
            }
        }
        state.local.retain(|j, _| keep.contains(&sc.cas[*j].module));
        state.local_modules.retain(|m| keep.contains(m));
        state.ta_local.retain(|(c, u), _| keep.contains(&ta_location(sc, *c, *u).0));
        state.rrdp_local.retain(|r| keep_rrdp.contains(r));
    }
    if !sc.cfg.dirty {
        // expired trust anchor certificates are removed from the store
        state.ta_store.retain(|_, st| *st != 3);
    }
    // unsafe-VRP filter
    if sc.cfg.unsafe_vrps == 0 {
        let mut blocks: Vec<(bool, u128, u128)> = Vec::new();
        for r in &exp.rejected {
            let res = cert_res(sc, *r);
            for (a, l) in res.v4 {
                if l > 0 {
                    let (lo, hi) = addr_range((u32::from(a) as u128) << 96, l, true);
                    blocks.push((true, lo, hi));
                }
            }
            for (a, l) in res.v6 {
                if l > 0 {
                    let (lo, hi) = addr_range(u128::from(a), l, false);
                    blocks.push((false, lo, hi));
                }
            }
        }
        let origins: Vec<MOrigin> = exp.payload.origins.iter().cloned().collect();
        for o in origins {
            let (lo, hi) = addr_range(o.bits(), o.len, o.is_v4());
            if blocks.iter().any(|(v4, blo, bhi)| *v4 == o.is_v4() && lo <= *bhi && *blo <= hi) {
                exp.payload.origins.remove(&o);
            }
        }
    }
    exp
}

/// Inclusive address range of a prefix; `bits` left-aligned in a u128 (v4 in the top 32 bits).
pub fn addr_range(bits: u128, len: u8, v4: bool) -> (u128, u128) {
    let fam: u32 = if v4 { 32 } else { 128 };
    let host = fam - (len as u32).min(fam);
    let span: u128 = if host == 0 {
        0
    } else if host >= 128 {
        u128::MAX
    } else {
        (1u128 << host) - 1
    };
    let span = if v4 { span << 96 } else { span };
    (bits, bits | span)
}

/// What the store holds for a CA.
#[derive(Clone, Debug, PartialEq, Eq)]
pub struct StoredView {
    pub manifest: Bytes,
    pub crl: Bytes,
    pub objects: BTreeMap<String, Bytes>,
}

/// Path of the stored publication point of CA `ca` below the cache directory `cache`.
pub fn stored_path_in(sc: &Scenario, cache: &Path, ca: usize) -> PathBuf {
    match ca_notify_uri(sc, ca) {
        None => cache.join("stored/rsync/rsync").join(host(sc.cas[ca].module)).join("repo").join(format!("ca{}/ca{}.mft", ca, ca)),
        // a CA whose certificate carries rpkiNotify is stored below the repository of that URI, also when
        // its data came over rsync (store.rs Run::pub_point); routinator's own path function
        Some(notify) => {
            let config = Config::default_with_paths(cache.join("routinator.conf"), cache.to_path_buf());
            let store = routinator::store::Store::new(&config).expect("store");
            store.verif_point_path(Some(&notify), &mft_uri(sc, ca))
        }
    }
}

/// Path of the local RRDP archive of repository `r` below the cache directory `cache`.
pub fn rrdp_archive_path_in(cache: &Path, r: usize) -> PathBuf {
    let mut config = Config::default_with_paths(cache.join("routinator.conf"), cache.to_path_buf());
    config.disable_rrdp = false;
    routinator::collector::verif::rrdp_repository_path(&config, &rrdp_notify_uri(r)).expect("rrdp repository path")
}

impl World {
    pub fn stored_path(&self, ca: usize) -> PathBuf {
        stored_path_in(&self.sc, &self.cache(), ca)
    }

    /// Reads the stored publication point of a CA with routinator's own reader.
    /// Ok(None) = no file or never-successful header; Err = file present but unreadable.
    pub fn read_stored(&self, ca: usize) -> Result<Option<StoredView>, String> {
        read_stored_file(&self.stored_path(ca))
    }
}

/// Reads a stored publication point file with routinator's own reader (see `World::read_stored`).
pub fn read_stored_file(path: &Path) -> Result<Option<StoredView>, String> {
    {
        let path = path.to_path_buf();
        if !path.exists() {
            return Ok(None);
        }
        let mut point = routinator::store::StoredPoint::load_quietly(path.clone()).ok_or_else(|| format!("stored point {} unreadable", path.display()))?;
        let Some(m) = point.manifest() else { return Ok(None) };
        let manifest = m.manifest.clone();
        let crl = m.crl.clone();
        let mut objects = BTreeMap::new();
        for obj in &mut point {
            let obj = obj.map_err(|e| format!("stored object unreadable: {}", e))?;
            if let Some(h) = obj.hash.as_ref() {
                if h.verify(&obj.content).is_err() {
                    return Err(format!("stored object {} does not match its stored hash", obj.uri));
                }
            }
            if objects.insert(obj.uri.to_string(), obj.content.clone()).is_some() {
                return Err(format!("stored object {} twice", obj.uri));
            }
        }
        Ok(Some(StoredView { manifest, crl, objects }))
    }
}

impl World {
    /// What the store must hold for version `v` of CA `ca` (a complete version).
    pub fn expected_stored(&mut self, ca: usize, v: usize) -> StoredView {
        let dir = ca_dir_uri(&self.sc, ca).to_string();
        let mft_name = format!("ca{}.mft", ca);
        let p = self.point(ca, v).clone();
        let mut objects = BTreeMap::new();
        for (name, _) in &p.listed {
            if let Some(data) = p.files.get(name) {
                objects.insert(format!("{}{}", dir, name), data.clone());
            }
        }
        let _ = mft_name;
        StoredView { manifest: p.manifest.clone().unwrap_or_default(), crl: p.crl.clone().unwrap_or_default(), objects }
    }
}

pub fn parse_rsync_log(path: &Path) -> Vec<String> {
    std::fs::read_to_string(path).map(|s| s.lines().map(|l| l.to_string()).collect()).unwrap_or_default()
}

pub fn uri_rsync(s: &str) -> uri::Rsync {
    uri::Rsync::from_str(s).expect("rsync uri")
}
