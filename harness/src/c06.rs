//! C06 Stale and premature manifests/CRLs follow the configured policy.

use proptest::prelude::*;

use crate::core::*;
use crate::erpki::*;
use crate::erun::*;
use crate::escen::*;

fn scenario(words: &[u16]) -> Scenario {
    let mut hp = HistProfile::default();
    hp.base.fault_16 = 0;
    hp.base.obj_faults = false;
    hp.base.pp_faults = false;
    hp.base.cert_faults = false;
    hp.base.max_cas = 6;
    hp.base.versions = 2;
    hp.incomplete_16 = 0;
    hp.rollback_16 = 1;
    hp.fail_module_16 = 1;
    hp.offline_16 = 3;
    hp.max_steps = 3;
    let mut sc = history_run(words, &hp);
    // a second genome pass decides staleness / prematurity and per-step policies
    let mut d = D::new(words);
    for _ in 0..7 {
        d.next();
    }
    for ca in sc.cas.iter_mut() {
        for ver in ca.versions.iter_mut() {
            match d.below(10) {
                0..=4 => {}
                5 => ver.next_off = d.pick(&[-1800i64, -7200, -20000]),
                6 => ver.crl_next_off = d.pick(&[-1800i64, -7200, -20000]),
                7 => {
                    ver.next_off = -3600;
                    ver.crl_next_off = -7200;
                }
                _ => ver.this_off = d.pick(&[1800i64, 86400]),
            }
        }
    }
    for s in sc.steps.iter_mut() {
        s.stale = d.pick(&[None, Some(2u8), Some(0), Some(1), Some(0)]);
    }
    sc
}

fn has_stale_or_premature_with_payload(sc: &Scenario) -> bool {
    sc.cas.iter().enumerate().any(|(i, ca)| {
        ca.versions.iter().any(|v| v.next_off < 0 || v.crl_next_off < 0 || v.this_off > 0) && descendants(sc, i).iter().any(|d| sc.cas[*d].versions.iter().any(|v| !v.objs.is_empty()))
    })
}

fn prop(sc: &Scenario, info: &mut CaseInfo) -> Verdict {
    let j = Judge { id: "C06", sound: true, complete: true, store: true, points: true, ..Default::default() };
    let v = judge(&j, sc, info, |_, _| None);
    info.nontrivial = has_stale_or_premature_with_payload(sc);
    for c in history_classes(sc) {
        info.class(c);
    }
    for ca in &sc.cas {
        for v in &ca.versions {
            if v.next_off < 0 {
                info.class("stale_manifest");
            }
            if v.crl_next_off < 0 {
                info.class("stale_crl");
            }
            if v.this_off > 0 {
                info.class("premature_manifest");
            }
        }
    }
    for s in &sc.steps {
        info.class(format!("policy_{:?}", s.stale.unwrap_or(sc.cfg.stale)));
    }
    v
}

pub fn run(ctx: &Ctx, rep: &mut Report, replay: Option<&serde_json::Value>) {
    rep.rule("E-rpki histories of 2-3 runs where any subset of CAs has a manifest and/or CRL past nextUpdate (30 min .. 5.5 h; always after its own thisUpdate, as the encoding requires) or a manifest thisUpdate in the future (+30 min, +1 d), the stale policy (reject/warn/accept) is chosen per run (so a version stored under 'accept' is re-read under 'reject'), with offline runs and transport failures forcing the stored path; oracle: payload, stored versions and accepted/rejected publication-point counts equal the model (reject => nothing from the CA or its descendants; warn/accept => as if fresh; premature never accepted from the fetch path); non-trivial = a stale/premature CA with payload-bearing descendants; distinct by serialised scenario");
    rep.assume("all generated time offsets keep >= 30 min distance from the wall clock, so no verdict depends on when exactly the run executes");
    ctx.shrink_iters.store(120, std::sync::atomic::Ordering::Relaxed);
    if let Some(v) = replay {
        let t: Tagged<Scenario> = serde_json::from_value(v.clone()).expect("replay");
        run_case(ctx, rep, &t.sub, &t.case, prop);
        return;
    }
    run_prop_par(ctx, rep, "history", ctx.tier.pick(240, 6000), 8, || genome(260).prop_map(|w| scenario(&w)), prop);
}
