//! C18 JSON delta and snapshot streams are well-formed and exact.
//!
//! Data sets are installed through the real `ValidationReport` → `SharedHistory::update` path
//! (ROA/ASPA content under a generated trust anchor, router keys and optionally origins as SLURM
//! assertions) and `/json-delta` is fetched through the real HTTP dispatcher. The body chunks are
//! observed exactly as the stream produced them.

use std::cell::RefCell;
use std::collections::BTreeMap;
use std::net::{IpAddr, Ipv4Addr};

use proptest::prelude::*;
use routinator::metrics::Metrics;
use serde::{Deserialize, Serialize};

use crate::core::*;
use crate::fmtx::*;
use crate::parsers::*;
use crate::pay::*;

#[derive(Serialize, Deserialize, Clone, Debug)]
pub struct Step {
    /// Number of fixed-width filler origins taken from this step's filler range.
    pub fill: u32,
    /// Filler range: fillers are indices `range * 5000 .. range * 5000 + fill`.
    pub range: u8,
    /// Additional items of all payload types.
    pub extra: Vec<MItem>,
    /// Route origins enter as SLURM assertions instead of ROA content.
    pub origins_via_slurm: bool,
}

#[derive(Serialize, Deserialize, Clone, Debug, PartialEq)]
pub enum Ask {
    /// `/json-delta` without query.
    NoQuery,
    /// Current session, serial = serial of the data set `back` versions ago (0 = current).
    Back(u8),
    /// Wrong session, current serial.
    OtherSession,
    /// Current session, a serial ahead of the current one.
    Future(u8),
}

#[derive(Serialize, Deserialize, Clone, Debug)]
pub struct Case {
    pub history_size: u8,
    pub steps: Vec<Step>,
    pub ask: Ask,
}

/// Filler origin `i`: every field has a fixed printed width, so every filler renders to the same
/// number of bytes.
pub fn filler(i: u32) -> MOrigin {
    let a = 100 + (i / 100) % 100;
    let b = 100 + i % 100;
    let hi = 100 + (i / 10_000) % 100;
    MOrigin::new(IpAddr::V4(Ipv4Addr::new(hi as u8, a as u8, b as u8, 0)), 24, Some(24), 20_000 + i / 5000)
}

fn step_set(s: &Step) -> MSet {
    let mut set = MSet::from_items(s.extra.iter().map(servable_item));
    for i in 0..s.fill {
        set.insert(MItem::Origin(filler(s.range as u32 * 5000 + i)));
    }
    set
}

fn install(kit: &Kit, served: &Served, step: &Step, set: &MSet) {
    let origins: Vec<MOrigin> = set.origins.iter().cloned().collect();
    let aspas: Vec<MAspa> = set.aspas.iter().map(|(c, p)| MAspa { customer: *c, providers: p.clone() }).collect();
    let mut local = LocalSpec::default();
    let mut pubs = PubSpec { tal_name: "ta".into(), origins: Vec::new(), aspas };
    if step.origins_via_slurm {
        local.origins = origins.into_iter().map(|o| (o, None)).collect();
    } else {
        pubs.origins = origins;
    }
    local.keys = set.keys.iter().cloned().map(|k| (k, None)).collect();
    served.update(kit, &[pubs], &local, Metrics::new());
}

fn decode_item(v: &JVal) -> Result<MItem, String> {
    let ty = v.get("type").and_then(|t| t.as_str()).ok_or("item without type")?;
    let s = |k: &str| v.get(k).and_then(|x| x.as_str()).ok_or_else(|| format!("{} item: member {} missing", ty, k));
    let count = v.members().len();
    match ty {
        "routeOrigin" => {
            if count != 4 {
                return Err(format!("routeOrigin item with {} members", count));
            }
            let p = parse_prefix(s("prefix")?)?;
            let m = v.get("maxLength").and_then(|x| x.as_f64()).ok_or("maxLength missing")?;
            if m.fract() != 0.0 || m < p.1 as f64 || m > if p.0.is_ipv4() { 32.0 } else { 128.0 } {
                return Err(format!("maxLength {} invalid for {}/{}", m, p.0, p.1));
            }
            Ok(MItem::Origin(MOrigin { addr: p.0, len: p.1, max_len: m as u8, asn: parse_asn_strict(s("asn")?)? }))
        }
        "routerKey" => {
            if count != 4 {
                return Err(format!("routerKey item with {} members", count));
            }
            let ski = hex_decode(s("keyIdentifier")?)?;
            let ski = <[u8; 20]>::try_from(ski.as_slice()).map_err(|_| "keyIdentifier is not 20 bytes".to_string())?;
            Ok(MItem::Key(MKey { ski, asn: parse_asn_strict(s("asn")?)?, info: b64url_decode(s("keyInfo")?)? }))
        }
        "aspa" => {
            if count != 3 {
                return Err(format!("aspa item with {} members", count));
            }
            let provs = v.get("providerAsns").filter(|p| p.is_arr()).ok_or("providerAsns missing")?;
            let mut pv = Vec::new();
            for p in provs.items() {
                pv.push(parse_asn_strict(p.as_str().ok_or("provider is not a string")?)?);
            }
            Ok(MItem::Aspa(MAspa { customer: parse_asn_strict(s("customerAsn")?)?, providers: pv }))
        }
        other => Err(format!("unknown item type {:?}", other)),
    }
}

fn decode_list(v: Option<&JVal>, name: &str) -> Result<Vec<MItem>, String> {
    let arr = v.filter(|a| a.is_arr()).ok_or_else(|| format!("member {} missing or not an array", name))?;
    arr.items().iter().map(decode_item).collect()
}

fn sorted(mut v: Vec<MItem>) -> Vec<MItem> {
    v.sort();
    v
}

/// Observations about where the stream was cut, for the class histogram.
fn chunk_classes(chunks: &[Vec<u8>], info: &mut CaseInfo) {
    info.class(format!("chunks={}", chunks.len().min(4)));
    if chunks.len() >= 2 {
        if chunks.last().map(|c| c.as_slice()) == Some(b"\n  ]\n}\n") {
            info.class("cut_before_footer");
        }
        if chunks[..chunks.len() - 1].iter().any(|c| c.ends_with(b"\"withdrawn\": [")) {
            info.class("cut_after_separator");
        }
        if chunks[1..].iter().any(|c| c.starts_with(b"\n  ],\n  \"withdrawn\": [")) {
            info.class("cut_before_separator");
        }
        if chunks[1..].iter().any(|c| c.first() == Some(&b',')) {
            info.class("cut_between_items");
        }
        if chunks[1..].iter().any(|c| c.starts_with(b"\n    {") || c.starts_with(b"\n  {")) {
            info.class("chunk_starts_with_first_item_of_list");
        }
    }
}

pub struct Env<'a> {
    pub kit: &'a Kit,
    pub rt: &'a tokio::runtime::Runtime,
    pub ctx: &'a Ctx,
}

pub fn prop(env: &Env, case: &Case, info: &mut CaseInfo) -> Verdict {
    let served = Served::new(env.ctx.scratch(), case.history_size.max(1) as usize, false);
    // versions[i] = (serial, data set) for every distinct served version, oldest first
    let mut versions: Vec<(u32, MSet)> = Vec::new();
    for step in &case.steps {
        let set = step_set(step);
        install(env.kit, &served, step, &set);
        let serial: u32 = served.history.read().serial().into();
        match versions.last() {
            Some((s, _)) if *s == serial => {
                let last = versions.last_mut().unwrap();
                if last.1 != set {
                    return Verdict::fail("C18/setup/serial-not-advanced", format!("serial stayed {} although the data set changed", serial));
                }
            }
            _ => versions.push((serial, set)),
        }
    }
    let (cur_serial, cur_set) = versions.last().cloned().unwrap();
    let session = served.history.read().session();
    let (uri, asked): (String, Option<(u64, u32)>) = match &case.ask {
        Ask::NoQuery => ("/json-delta".into(), None),
        Ask::Back(b) => {
            let idx = versions.len().saturating_sub(1 + *b as usize);
            let s = versions[idx].0;
            (format!("/json-delta?session={}&serial={}", session, s), Some((session, s)))
        }
        Ask::OtherSession => (format!("/json-delta?session={}&serial={}", session.wrapping_add(1), cur_serial), Some((session.wrapping_add(1), cur_serial))),
        Ask::Future(n) => {
            let s = cur_serial.wrapping_add(1 + *n as u32);
            (format!("/json-delta?serial={}&session={}", s, session), Some((session, s)))
        }
    };
    // The real decision and the real change set (C13 owns the decision; C18 the rendering).
    let real_delta = match asked {
        Some((sess, s)) if sess == session => served.history.read().delta_since(s.into()),
        _ => None,
    };
    let resp = get(env.rt, &served.handler, &uri);
    if resp.status != 200 {
        return Verdict::fail("C18/status", format!("GET {} -> {}", uri, resp.status));
    }
    let body = resp.body();
    chunk_classes(&resp.chunks, info);
    let doc = match JVal::parse(&body) {
        Ok(d) => d,
        Err(e) => {
            let cuts: Vec<usize> = resp.chunks.iter().map(|c| c.len()).collect();
            return Verdict::fail("C18/invalid-json", format!("GET {}: body of {} bytes in chunks {:?} is not one JSON document: {}", uri, body.len(), cuts, e));
        }
    };
    if !doc.is_obj() {
        return Verdict::fail("C18/invalid-json", "top level is not an object");
    }
    let mut seen = std::collections::HashSet::new();
    for (k, _) in doc.members() {
        if !seen.insert(k.clone()) {
            return Verdict::fail("C18/duplicate-member", format!("member {:?} appears twice", k));
        }
    }
    let reset = match doc.get("reset") {
        Some(JVal::Bool(b)) => *b,
        _ => return Verdict::fail("C18/header/reset", "member reset missing or not a boolean"),
    };
    // clear-cut expectations straight from the manual
    let must_reset = matches!(case.ask, Ask::NoQuery | Ask::OtherSession | Ask::Future(_));
    let must_delta = matches!(case.ask, Ask::Back(0)) || (matches!(case.ask, Ask::Back(1)) && versions.len() >= 2);
    if (must_reset && !reset) || (must_delta && reset) || (reset != real_delta.is_none()) {
        return Verdict::fail("C18/wrong-form", format!("GET {} answered reset={} (delta available: {})", uri, reset, real_delta.is_some()));
    }
    if doc.get("session").and_then(|s| s.as_str()) != Some(session.to_string().as_str()) {
        return Verdict::fail("C18/header/session", format!("session member {:?}, history session {}", doc.get("session"), session));
    }
    if doc.get("serial").and_then(|s| s.as_f64()) != Some(cur_serial as f64) {
        return Verdict::fail("C18/header/serial", format!("serial member {:?}, current serial {}", doc.get("serial"), cur_serial));
    }
    if doc.get("generated").and_then(|s| s.as_f64()).is_none() || doc.get("generatedTime").and_then(|s| s.as_str()).is_none() {
        return Verdict::fail("C18/header/generated", "generated / generatedTime missing");
    }
    let announced = match decode_list(doc.get("announced"), "announced") {
        Ok(v) => v,
        Err(e) => return Verdict::fail("C18/item-shape", format!("announced: {}", e)),
    };
    info.class(if reset { "form=reset" } else { "form=delta" });
    let types = announced.iter().fold([false; 3], |mut t, i| {
        t[match i {
            MItem::Origin(_) => 0,
            MItem::Key(_) => 1,
            MItem::Aspa(_) => 2,
        }] = true;
        t
    });
    if types[1] {
        info.class("announced_has_router_key");
    }
    if types[2] {
        info.class("announced_has_aspa");
    }
    if reset {
        if doc.get("withdrawn").is_some() || doc.get("fromSerial").is_some() {
            return Verdict::fail("C18/reset-extra-member", "reset document has a withdrawn or fromSerial member");
        }
        if announced.is_empty() {
            info.class("empty_announced");
        }
        info.nt(resp.chunks.len() >= 2 || announced.is_empty());
        // the snapshot as the implementation holds it, and the model of what was installed
        let snap = served.history.read().current().expect("current");
        let real: Vec<MItem> = snap.payload().map(MItem::from_ref).collect();
        if sorted(announced.clone()) != sorted(real) {
            return Verdict::fail("C18/reset-items-mismatch", format!("GET {}: announced list ({} items) differs from the current snapshot", uri, announced.len()));
        }
        if sorted(announced) != sorted(cur_set.items()) {
            return Verdict::fail("C18/reset-items-vs-installed", format!("GET {}: announced list differs from the installed data set", uri));
        }
        return Verdict::Pass;
    }
    let (_, from) = asked.unwrap();
    if doc.get("fromSerial").and_then(|s| s.as_f64()) != Some(from as f64) {
        return Verdict::fail("C18/header/fromSerial", format!("fromSerial member {:?}, requested serial {}", doc.get("fromSerial"), from));
    }
    let withdrawn = match decode_list(doc.get("withdrawn"), "withdrawn") {
        Ok(v) => v,
        Err(e) => return Verdict::fail("C18/item-shape", format!("withdrawn: {}", e)),
    };
    if announced.is_empty() {
        info.class("empty_announced");
    }
    if withdrawn.is_empty() {
        info.class("empty_withdrawn");
    }
    if withdrawn.iter().any(|i| matches!(i, MItem::Aspa(_))) {
        info.class("withdrawn_has_aspa");
    }
    info.nt(resp.chunks.len() >= 2 || announced.is_empty() || withdrawn.is_empty());
    let real = delta_actions(real_delta.as_ref().unwrap());
    let real_ann: Vec<MItem> = real.iter().filter(|a| a.1).map(|a| a.0.clone()).collect();
    let real_wd: Vec<MItem> = real.iter().filter(|a| !a.1).map(|a| a.0.clone()).collect();
    if sorted(announced.clone()) != sorted(real_ann) {
        return Verdict::fail("C18/announced-mismatch", format!("GET {}: announced list ({} items) differs from the change set's announcements", uri, announced.len()));
    }
    if sorted(withdrawn.clone()) != sorted(real_wd) {
        return Verdict::fail("C18/withdrawn-mismatch", format!("GET {}: withdrawn list ({} items) differs from the change set's withdrawals", uri, withdrawn.len()));
    }
    // a client holding the version it asked about must arrive at the current data set
    if let Some((_, old)) = versions.iter().find(|(s, _)| *s == from) {
        let actions: Vec<(MItem, bool)> = withdrawn.into_iter().map(|i| (i, false)).chain(announced.into_iter().map(|i| (i, true))).collect();
        match old.apply(&actions) {
            Ok(res) if res == cur_set => {}
            Ok(res) => {
                let a: std::collections::BTreeSet<MItem> = res.items().into_iter().collect();
                let b: std::collections::BTreeSet<MItem> = cur_set.items().into_iter().collect();
                return Verdict::fail(
                    "C18/client-result-mismatch",
                    format!("GET {}: applying the document to version {} does not give the installed current data set; only in client result: {:?}; only in installed set: {:?}", uri, from, a.difference(&b).take(3).collect::<Vec<_>>(), b.difference(&a).take(3).collect::<Vec<_>>()),
                );
            }
            Err(e) => return Verdict::fail("C18/client-apply-error", format!("GET {}: {}", uri, e)),
        }
    }
    Verdict::Pass
}

//------------------------------------------------------------------------------------------
// Generators

/// ASPAs with long provider lists (an item of several kB) next to the small shared ones.
fn big_aspa() -> impl Strategy<Value = MAspa> {
    (prop::sample::select(vec![64496u32, 65000, 1]), prop::sample::select(vec![0usize, 1, 40, 700])).prop_map(|(c, n)| MAspa::new(c, (0..n as u32).map(|i| 100_000 + i * 7)))
}

fn extra_strategy() -> impl Strategy<Value = Vec<MItem>> {
    prop_oneof![
        3 => Just(Vec::new()),
        4 => prop::collection::vec(item_strategy(), 0..=8),
        2 => prop::collection::vec(prop_oneof![2 => item_strategy(), 1 => big_aspa().prop_map(MItem::Aspa), 1 => key_strategy().prop_map(MItem::Key)], 0..=40),
    ]
}

/// Filler counts: small, or within a few items of a multiple of `per_chunk`.
fn fill_strategy(per_chunk: u32) -> impl Strategy<Value = u32> {
    prop_oneof![
        3 => 0u32..4,
        6 => (1u32..=2, -14i32..=3).prop_map(move |(q, d)| (q * per_chunk) as i32 + d).prop_map(|v| v.max(0) as u32),
        1 => 0u32..(per_chunk * 2),
    ]
}

fn step_strategy(per_chunk: u32) -> impl Strategy<Value = Step> {
    (fill_strategy(per_chunk), 0u8..2, extra_strategy(), prop::bool::weighted(0.3)).prop_map(|(fill, range, extra, origins_via_slurm)| Step { fill, range, extra, origins_via_slurm })
}

fn case_strategy(per_chunk: u32) -> impl Strategy<Value = Case> {
    (
        1u8..=3,
        prop::collection::vec(step_strategy(per_chunk), 1..=4),
        prop_oneof![2 => Just(Ask::NoQuery), 6 => (0u8..4).prop_map(Ask::Back), 1 => Just(Ask::OtherSession), 1 => (0u8..3).prop_map(Ask::Future)],
    )
        .prop_map(|(history_size, steps, ask)| Case { history_size, steps, ask })
}

/// Measures the rendered size of one filler item and derives how many fit into one 64 000-byte
/// chunk (both through the real handler).
fn measure(env: &Env) -> Result<u32, String> {
    let size_with = |n: u32| -> Result<usize, String> {
        let served = Served::new(env.ctx.scratch(), 2, false);
        let step = Step { fill: n, range: 0, extra: vec![], origins_via_slurm: false };
        install(env.kit, &served, &step, &step_set(&step));
        let r = get(env.rt, &served.handler, "/json-delta");
        if r.status != 200 {
            return Err(format!("measure: status {}", r.status));
        }
        Ok(r.body().len())
    };
    let (a, b, c) = (size_with(10)?, size_with(11)?, size_with(12)?);
    if b - a != c - b || b <= a {
        return Err(format!("filler items do not have a constant size: {} {} {}", a, b, c));
    }
    Ok((64_000 / (b - a)) as u32 + 1)
}

pub fn run(ctx: &Ctx, rep: &mut Report, replay: Option<&serde_json::Value>) {
    rep.rule(
        "sequences of 1..=4 data sets (fixed-width filler origins in counts within -14..+3 items of 1x/2x the measured per-chunk capacity, plus 0..=40 extra items of all payload types incl. ASPAs with 0/1/40/700 providers and router keys) installed through ValidationReport+SLURM into a history of size 1..=3, then one /json-delta request (no query / serial 0..3 versions back / other session / future serial) through the real dispatcher; a directed sweep places the cut at every item count around the chunk limit for the announced list, the withdrawn list and the snapshot; non-trivial = body delivered in >=2 chunks or an empty announced/withdrawn list; distinct by serialised case",
    );
    rep.assume("whether a delta or a reset is served for a retained/unknown serial is taken from SharedHistory::delta_since (C13 owns that decision); JSON is judged with serde_json");
    rep.assume("ASPA and ROA content reaches the history through routinator's ValidationReport processor fed with a harness-made trust-anchor certificate (rpki validate_ta), router keys through SLURM assertions");
    let kit = Kit::new();
    let rt = runtime();
    let env = Env { kit: &kit, rt: &rt, ctx };
    if let Some(v) = replay {
        let t: Tagged<Case> = serde_json::from_value(v.clone()).expect("replay");
        run_case(ctx, rep, &t.sub, &t.case, |c, i| prop(&env, c, i));
        return;
    }
    let per_chunk = match measure(&env) {
        Ok(n) => n,
        Err(e) => {
            eprintln!("C18 preamble failed: {}", e);
            std::process::exit(2);
        }
    };
    rep.extra.insert("fillers_per_chunk".into(), serde_json::json!(per_chunk));
    // Directed sweep: announced / withdrawn / snapshot sizes around the chunk limit.
    let seen: RefCell<BTreeMap<String, u64>> = RefCell::new(BTreeMap::new());
    let sweep = |rep: &mut Report, case: Case| {
        if rep.violated() {
            return;
        }
        run_case(ctx, rep, "sweep", &case, |c, i| {
            let v = prop(&env, c, i);
            for cl in &i.classes {
                *seen.borrow_mut().entry(cl.clone()).or_default() += 1;
            }
            v
        });
    };
    let window = ctx.tier.pick(-12i32..=2, -16i32..=4);
    for d in window.clone() {
        let n = (per_chunk as i32 + d).max(0) as u32;
        // announced list ends near the limit, withdrawn list small / empty
        for w in [0u32, 2] {
            sweep(
                rep,
                Case {
                    history_size: 2,
                    steps: vec![Step { fill: w, range: 0, extra: vec![], origins_via_slurm: false }, Step { fill: n, range: 1, extra: vec![], origins_via_slurm: false }],
                    ask: Ask::Back(1),
                },
            );
        }
        // withdrawn list ends near the limit (announced list empty or small)
        for a in [0u32, 3] {
            sweep(
                rep,
                Case {
                    history_size: 2,
                    steps: vec![Step { fill: n, range: 0, extra: vec![], origins_via_slurm: true }, Step { fill: a, range: 1, extra: vec![], origins_via_slurm: true }],
                    ask: Ask::Back(1),
                },
            );
        }
        // snapshot ends near the limit
        sweep(rep, Case { history_size: 1, steps: vec![Step { fill: n, range: 0, extra: vec![], origins_via_slurm: false }], ask: Ask::NoQuery });
        // both lists near the limit
        sweep(
            rep,
            Case {
                history_size: 3,
                steps: vec![Step { fill: n, range: 0, extra: vec![], origins_via_slurm: false }, Step { fill: (per_chunk as i32 + d / 2).max(0) as u32, range: 1, extra: vec![], origins_via_slurm: false }],
                ask: Ask::Back(1),
            },
        );
    }
    // Fine sweep: the separator is ~25 bytes, so the end of the announced list is moved in steps
    // of one ASPA provider (12 bytes) across the limit to cut right before and right after it.
    for n in per_chunk.saturating_sub(3)..=per_chunk {
        for p in 0u32..=14 {
            let aspa = MItem::Aspa(MAspa::new(64496, (0..p).map(|i| 100_000 + i)));
            sweep(
                rep,
                Case {
                    history_size: 2,
                    steps: vec![Step { fill: 1, range: 0, extra: vec![], origins_via_slurm: false }, Step { fill: n, range: 1, extra: vec![aspa], origins_via_slurm: false }],
                    ask: Ask::Back(1),
                },
            );
        }
    }
    let seen = seen.into_inner();
    for needed in ["cut_before_footer", "cut_after_separator", "cut_before_separator", "cut_between_items", "empty_announced", "empty_withdrawn"] {
        if !seen.contains_key(needed) && !rep.violated() {
            eprintln!("C18: directed sweep never produced class {} (classes seen: {:?})", needed, seen);
            std::process::exit(2);
        }
    }
    run_prop(ctx, rep, "seq", ctx.tier.pick(1200, 30_000), case_strategy(per_chunk), |c, i| prop(&env, c, i));
    // Transport leg: the same documents over routinator's real HTTP listener (chunked transfer
    // coding on a loopback socket) must be byte-identical to what the dispatcher streamed.
    let Some((served, addr)) = spawn_listener(ctx) else {
        eprintln!("C18: cannot start loopback listener");
        std::process::exit(2);
    };
    run_prop(ctx, rep, "tcp", ctx.tier.pick(40, 600), (step_strategy(per_chunk), prop_oneof![Just(Ask::NoQuery), Just(Ask::Back(0)), Just(Ask::Back(1))]), |(step, ask), info| {
        let before: u32 = served.history.read().serial().into();
        install(env.kit, &served, step, &step_set(step));
        let after: u32 = served.history.read().serial().into();
        let session = served.history.read().session();
        let uri = match ask {
            Ask::NoQuery => "/json-delta".to_string(),
            Ask::Back(0) => format!("/json-delta?session={}&serial={}", session, after),
            _ => format!("/json-delta?session={}&serial={}", session, before),
        };
        let direct = get(env.rt, &served.handler, &uri);
        let (status, _, body) = match http_request(addr, "GET", &uri, &[], &[]) {
            Ok(x) => x,
            Err(e) => return Verdict::Dropped(format!("tcp_transport_error:{}", e.split(':').next().unwrap_or(""))),
        };
        info.class(format!("tcp_chunks={}", direct.chunks.len().min(4)));
        info.nt(direct.chunks.len() >= 2);
        if status != 200 || direct.status != 200 {
            return Verdict::fail("C18/tcp/status", format!("GET {} -> {} over TCP, {} in process", uri, status, direct.status));
        }
        if body != direct.body() {
            return Verdict::fail("C18/tcp/body-differs", format!("GET {}: {} bytes over TCP, {} bytes from the dispatcher", uri, body.len(), direct.body().len()));
        }
        if let Err(e) = JVal::parse(&body) {
            return Verdict::fail("C18/invalid-json", format!("GET {} over TCP: {}", uri, e));
        }
        Verdict::Pass
    });
}
