//! C23 A crash at any point never corrupts the store or blocks later runs.
//!
//! E-crash over E-rpki histories. Pre-state: one complete run over "version 1" of every CA
//! (including CAs whose point never succeeded, so the victim takes the "last attempt" header
//! re-write path). Victim: a child process (`rvchild crash-victim`) performing the run against
//! "version 2" (changed, unchanged, newly appearing, vanished, newly succeeding, still failing and
//! incompletely published CAs), killed by `abort()` at kill point k for every k (all when the
//! count M <= 400, else first/last 20 + every label change + a seeded sample). After each kill:
//!  (i)   every stored-point file is read with routinator's own reader and must equal, per CA, the
//!        complete content it had before the victim run or the complete content it has after an
//!        uninterrupted run (a CA that never had a stored version may also be absent / carry the
//!        never-succeeded header / an unreadable short header, which routinator re-creates);
//!  (ii)  the next normal run succeeds and yields exactly the payload and store contents of the
//!        never-interrupted reference;
//!  (iii) `vrps --update-after 1`, `vrps --noupdate`, `validate`, `update`, `dump` (hooked CLI
//!        binary) exit 0 on copies of the post-kill cache whenever they exit 0 on the
//!        uninterrupted reference cache;
//!  (iv)  a run without network access over the post-kill cache yields the data set of the stored
//!        versions found in (i) (reference model over the observed per-CA versions).

use std::collections::{BTreeMap, BTreeSet};
use std::path::{Path, PathBuf};
use std::time::Duration;

use serde::{Deserialize, Serialize};
use serde_json::json;

use crate::clibin::*;
use crate::core::*;
use crate::crash::*;
use crate::erpki::*;
use crate::erun::scratch_base;
use crate::escen::*;
use crate::pay::MSet;

pub const KEY_STATUS: &str = "C23/update-after-fails/status-file-truncated";
pub const KEY_TA: &str = "C23/offline-run-loses-data/ta-file-torn";
pub const KEY_DUMP: &str = "C23/dump-fails/never-succeeded-point-left-by-kill";
const POINT_CAP: usize = 400;
const WORKERS: usize = 16;

#[derive(Serialize, Deserialize, Clone, Debug)]
pub struct KillCase {
    pub sc: Scenario,
    /// kill point (1-based) of the victim run (= step 1 of the scenario)
    pub k: u64,
    /// the pre-state run used `dirty` (no cleanup), so headers of points that never succeeded
    /// exist when the victim starts
    #[serde(default)]
    pub pre_dirty: bool,
    /// label of the point at which the victim died. The order in which routinator processes
    /// sibling CAs and manifest entries is randomised (manifest shuffle, not seedable), so the same k
    /// can fall into another operation when the case is re-run; a replay therefore also explores
    /// every point of the re-run that carries this label.
    #[serde(default)]
    pub label: String,
}

#[derive(Clone, Copy, Debug, PartialEq, Eq)]
enum Role {
    Changed,
    Unchanged,
    NeverOk,
    LateOk,
    New,
    Vanished,
    ChangedBad,
    /// never succeeded and no longer published by the parent: cleanup removes its header file and,
    /// being alone in module 2, the module copy
    VanishedNeverOk,
}

const ROLES: [Role; 9] = [Role::Changed, Role::Unchanged, Role::NeverOk, Role::LateOk, Role::New, Role::Vanished, Role::ChangedBad, Role::VanishedNeverOk, Role::Changed];

/// The fixed shape of the covering scenario: every role once, all below one changed root, one grandchild.
const COVERING: [(Option<usize>, Role); 9] = [
    (None, Role::Changed),
    (Some(0), Role::Unchanged),
    (Some(0), Role::NeverOk),
    (Some(0), Role::LateOk),
    (Some(0), Role::New),
    (Some(0), Role::Vanished),
    (Some(0), Role::ChangedBad),
    (Some(0), Role::VanishedNeverOk),
    (Some(1), Role::Changed),
];

fn bad_fault(d: &mut D) -> PpFault {
    let k = d.below(4) as u8;
    d.pick(&[PpFault::MftBadSig, PpFault::HashMismatch(k), PpFault::FileMissing(k), PpFault::CrlBadSig])
}

/// Two-step scenario: step 0 builds the pre-state, step 1 is the victim run.
pub fn scenario(words: &[u16]) -> (Scenario, Vec<String>) {
    scenario_with(words, None)
}

/// `shape`: fixed parents and roles (objects, faults and modules still come from the genome).
fn scenario_with(words: &[u16], shape: Option<&[(Option<usize>, Role)]>) -> (Scenario, Vec<String>) {
    let mut d = D::new(words);
    let p = Profile { max_objs: 3, obj_faults: false, pp_faults: false, cert_faults: false, ..Default::default() };
    let mut cfg = Cfg { threads: 1, ..Default::default() };
    cfg.stale = d.pick(&[0u8, 2]);
    cfg.unsafe_vrps = d.pick(&[2u8, 0]);
    let ntals = 1 + d.below(2);
    let ncas = match shape {
        Some(s) => s.len(),
        None => ntals + 2 + d.below(4),
    };
    let mut cas: Vec<Ca> = Vec::new();
    let mut roles: Vec<Role> = Vec::new();
    for i in 0..ncas {
        let mut parent = if i < ntals { None } else { Some(d.below(i)) };
        let mut role = if parent.is_none() { d.pick(&[Role::Changed, Role::Changed, Role::Unchanged]) } else { d.pick(&ROLES) };
        if let Some(s) = shape {
            parent = s[i].0;
            role = s[i].1;
        }
        if matches!(role, Role::New | Role::Vanished | Role::VanishedNeverOk) && roles[parent.unwrap()] != Role::Changed {
            role = Role::Changed;
        }
        let module = if role == Role::VanishedNeverOk { 2 } else { d.below(2) };
        let mut versions: Vec<Version> = (0..2)
            .map(|v| {
                let mut ver = decode_version(&mut d, &p, v);
                if ver.objs.is_empty() {
                    ver.objs.push(decode_obj(&mut d, &p));
                }
                ver.number = 100 + 10 * v as u64;
                ver.this_off = -40_000 + 600 * v as i64;
                ver
            })
            .collect();
        match role {
            Role::NeverOk | Role::VanishedNeverOk => {
                versions[0].fault = Some(bad_fault(&mut d));
                versions[1].fault = Some(bad_fault(&mut d));
            }
            Role::LateOk => versions[0].fault = Some(bad_fault(&mut d)),
            Role::ChangedBad => {
                let k = d.below(4) as u8;
                versions[1].fault = Some(d.pick(&[PpFault::HashMismatch(k), PpFault::FileMissing(k)]));
            }
            _ => {}
        }
        cas.push(Ca { parent, key: i, module, not_after: 86400 * 365, cert_fault: None, versions, extra_res: None, ta_alt: vec![], sia_under_parent_mft: false, rrdp: None });
        roles.push(role);
    }
    for i in 0..ncas {
        if let Some(p) = cas[i].parent {
            match roles[i] {
                Role::New => cas[p].versions[0].omit_children.push(i),
                Role::Vanished | Role::VanishedNeverOk => cas[p].versions[1].omit_children.push(i),
                _ => {}
            }
        }
    }
    let publish1: Vec<usize> = roles.iter().map(|r| if *r == Role::Unchanged { 0 } else { 1 }).collect();
    let fail1 = if d.chance(1, 8) { vec![d.below(2)] } else { vec![] };
    let steps = vec![
        Step { publish: vec![0; ncas], fail_modules: vec![], offline: false, stale: None, foreign_tal_key: vec![], ta_serve: vec![], fail_rrdp: vec![] },
        Step { publish: publish1, fail_modules: fail1, offline: false, stale: None, foreign_tal_key: vec![], ta_serve: vec![], fail_rrdp: vec![] },
    ];
    (Scenario { cfg, cas, steps }, roles.iter().map(|r| format!("{:?}", r)).collect())
}

/// What one stored-point file looks like.
#[derive(Clone, Debug, PartialEq, Eq)]
enum PointState {
    Absent,
    /// file present, header does not parse (empty / short file)
    HeaderUnreadable(String),
    /// header parses, the rest does not
    BodyUnreadable(String),
    NeverSucceeded,
    Stored(StoredView),
}

fn point_state(sc: &Scenario, cache: &Path, ca: usize) -> PointState {
    let path = stored_path_in(sc, cache, ca);
    let Ok(mut file) = std::fs::File::open(&path) else { return PointState::Absent };
    if let Err(e) = routinator::store::StoredPointHeader::read(&mut file) {
        return PointState::HeaderUnreadable(format!("{} (fatal={})", e, e.is_fatal()));
    }
    match read_stored_file(&path) {
        Ok(None) => PointState::NeverSucceeded,
        Ok(Some(v)) => PointState::Stored(v),
        Err(e) => PointState::BodyUnreadable(e),
    }
}

fn describe(st: &PointState, exp: &[StoredView]) -> String {
    match st {
        PointState::Stored(v) => match exp.iter().position(|e| e == v) {
            Some(i) => format!("complete version {}", i + 1),
            None => format!("a stored point matching no complete version (manifest of version {:?}, {} objects)", exp.iter().position(|e| e.manifest == v.manifest).map(|i| i + 1), v.objects.len()),
        },
        other => format!("{:?}", other),
    }
}

const COMMANDS: [&str; 5] = ["vrps-update-after", "vrps-noupdate", "validate", "update", "dump"];

fn command_args(name: &str, dump_dir: &Path) -> Vec<String> {
    let s = |x: &str| x.to_string();
    match name {
        "vrps-update-after" => vec![s("vrps"), s("--update-after"), s("1"), s("-o"), s("/dev/null")],
        "vrps-noupdate" => vec![s("vrps"), s("--noupdate"), s("-o"), s("/dev/null")],
        "validate" => vec![s("validate"), s("--asn"), s("64496"), s("--prefix"), s("192.0.2.0/24")],
        "update" => vec![s("update")],
        "dump" => vec![s("dump"), s("-o"), dump_dir.to_string_lossy().into_owned()],
        _ => unreachable!(),
    }
}

/// Everything about a scenario the per-point evaluation needs (shared read-only between workers).
struct Prepared {
    sc: Scenario,
    roles: Vec<String>,
    _world: World,
    base: PathBuf,
    pre_cache: PathBuf,
    world_paths: WorldPaths,
    bin: PathBuf,
    /// complete content per CA per version
    exp_views: Vec<Vec<StoredView>>,
    pre_states: Vec<PointState>,
    ref_states: Vec<PointState>,
    ref_payload: MSet,
    ref_cli: BTreeMap<String, Option<i32>>,
    pre_cli: BTreeMap<String, Option<i32>>,
    /// trust anchor certificates by root CA index
    ta_certs: BTreeMap<usize, Vec<u8>>,
    pre_model: ModelState,
    labels: Vec<String>,
    pre_dirty: bool,
}

fn paths_for(p: &Prepared, dir: &Path) -> WorldPaths {
    WorldPaths { conf: dir.join("routinator.conf"), cache: dir.join("cache"), rsync_log: dir.join("rsync.log"), ..p.world_paths.clone() }
}

fn run_cli(bin: &Path, cfg: &Cfg, paths: &WorldPaths, dir: &Path, name: &str) -> Result<ProcResult, String> {
    write_cli_config(cfg, paths)?;
    let args = command_args(name, &dir.join("dump-out"));
    let argv: Vec<&str> = args.iter().map(|s| s.as_str()).collect();
    run_watchdog(cli_command(bin, paths, dir, &argv), dir, Duration::from_secs(120))
}

/// Exit codes of all commands on copies of `cache`.
fn cli_codes(bin: &Path, cfg: &Cfg, template: &WorldPaths, cache: &Path, dir: &Path) -> Result<BTreeMap<String, Option<i32>>, String> {
    let mut res = BTreeMap::new();
    for name in COMMANDS {
        let d = dir.join(name);
        copy_tree(cache, &d.join("cache")).map_err(|e| e.to_string())?;
        let paths = WorldPaths { conf: d.join("routinator.conf"), cache: d.join("cache"), rsync_log: d.join("rsync.log"), ..template.clone() };
        let r = run_cli(bin, cfg, &paths, &d, name)?;
        if r.watchdog {
            return Err(format!("watchdog on reference command {}", name));
        }
        res.insert(name.to_string(), r.code);
    }
    Ok(res)
}

fn prepare(sc: &Scenario, roles: Vec<String>, bin: &Path, pre_dirty: bool) -> Result<Prepared, String> {
    let mut world = World::new(sc, scratch_base());
    let base = world.dir.path().join("crash");
    std::fs::create_dir_all(&base).map_err(|e| e.to_string())?;
    let ex = empty_exceptions();
    // pre-state
    let mut model = ModelState::default();
    world.publish(&sc.steps[0]);
    let mut sc0 = sc.clone();
    sc0.cfg.dirty = pre_dirty;
    let exp0 = model_step(&sc0, &sc.steps[0], &mut model);
    // without cleanup (`dirty`) the header of a point that never succeeded is still there when the
    // victim starts, so the victim takes the "last attempt" re-write path; with cleanup it mostly is
    // removed (retain compares a whole-second time stamp with the start of the run)
    let out0 = world.run_with(false, &ex, |c| c.dirty_repository = pre_dirty).map_err(|e| format!("pre-state run: {}", e))?;
    if out0.payload != exp0.payload {
        return Err("model_mismatch_pre_state".into());
    }
    let pre_cache = base.join("pre-cache");
    copy_tree(&world.cache(), &pre_cache).map_err(|e| e.to_string())?;
    let pre_model = model.clone();
    // version 2 on the server
    world.publish(&sc.steps[1]);
    let exp1 = model_step(sc, &sc.steps[1], &mut model);
    let mut exp_views = Vec::new();
    for ca in 0..sc.cas.len() {
        exp_views.push((0..sc.cas[ca].versions.len()).map(|v| world.expected_stored(ca, v)).collect::<Vec<_>>());
    }
    let ta_certs: BTreeMap<usize, Vec<u8>> = sc.cas.iter().enumerate().filter(|(_, c)| c.parent.is_none()).map(|(i, _)| (i, world.ca_certs[&i].to_vec())).collect();
    let world_paths = world.paths();
    let mut p = Prepared {
        sc: sc.clone(),
        roles,
        base: base.clone(),
        pre_cache,
        world_paths,
        bin: bin.to_path_buf(),
        exp_views,
        pre_states: vec![],
        ref_states: vec![],
        ref_payload: MSet::default(),
        ref_cli: BTreeMap::new(),
        pre_cli: BTreeMap::new(),
        ta_certs,
        pre_model,
        labels: vec![],
        pre_dirty,
        _world: world,
    };
    // uninterrupted reference = pass 0 of the victim (counts the kill points)
    let rdir = base.join("ref");
    copy_tree(&p.pre_cache, &rdir.join("cache")).map_err(|e| e.to_string())?;
    let rpaths = paths_for(&p, &rdir);
    let job = VictimJob { cfg: sc.cfg.clone(), paths: rpaths.clone(), offline: false, out: rdir.join("result.json") };
    let r = spawn_victim(&job, &rdir, None)?;
    if r.watchdog {
        return Err("watchdog_reference".into());
    }
    let res = read_victim_result(&job).ok_or_else(|| format!("reference victim gave no result: exit {:?} signal {:?} stderr {}", r.code, r.signal, truncate(&String::from_utf8_lossy(&r.stderr), 400)))?;
    if !res.ok {
        return Err(format!("reference victim run failed: {:?}", res.error));
    }
    if res.payload != exp1.payload {
        return Err("model_mismatch_reference".into());
    }
    p.ref_payload = res.payload;
    p.labels = read_trace(&rdir);
    if p.labels.len() as u64 != res.kill_points {
        return Err(format!("trace has {} lines, victim counted {} kill points", p.labels.len(), res.kill_points));
    }
    for ca in 0..sc.cas.len() {
        p.pre_states.push(point_state(sc, &p.pre_cache, ca));
        p.ref_states.push(point_state(sc, &rpaths.cache, ca));
    }
    p.ref_cli = cli_codes(bin, &sc.cfg, &p.world_paths, &rpaths.cache, &base.join("ref-cli"))?;
    p.pre_cli = cli_codes(bin, &sc.cfg, &p.world_paths, &p.pre_cache, &base.join("pre-cli"))?;
    Ok(p)
}

struct PointOutcome {
    label: String,
    killed: bool,
    info: CaseInfo,
    /// (key, message) of every oracle that failed at this point
    failures: Vec<(String, String)>,
    /// known shapes skipped at this point
    excluded: Vec<&'static str>,
    dropped: Option<String>,
}

fn intermediate_label(label: &str) -> bool {
    label.starts_with("store.point.update") || label.ends_with(".truncated") || label == "store.status.created" || label == "fatal.write_file" || label == "fatal.remove_file" || label == "fatal.remove_dir_all"
}

/// `skip_known`: exclude the listed known shapes (bulk search); false for directed cases and replays.
fn eval_point(p: &Prepared, k: u64, skip_known: bool) -> PointOutcome {
    let sc = &p.sc;
    let mut out = PointOutcome { label: String::new(), killed: false, info: CaseInfo::default(), failures: vec![], excluded: vec![], dropped: None };
    let dir = p.base.join(format!("k{}", k));
    let _ = std::fs::remove_dir_all(&dir);
    let fail_infra = |out: &mut PointOutcome, e: String| out.dropped = Some(format!("infra:{}", truncate(&e, 80)));
    if let Err(e) = copy_tree(&p.pre_cache, &dir.join("cache")) {
        fail_infra(&mut out, e.to_string());
        return out;
    }
    let paths = paths_for(p, &dir);
    let job = VictimJob { cfg: sc.cfg.clone(), paths: paths.clone(), offline: false, out: dir.join("result.json") };
    let r = match spawn_victim(&job, &dir, Some(k)) {
        Ok(r) => r,
        Err(e) => {
            fail_infra(&mut out, e);
            return out;
        }
    };
    if r.watchdog {
        out.dropped = Some("watchdog".into());
        return out;
    }
    let trace = read_trace(&dir);
    out.killed = aborted(&r);
    if out.killed {
        out.label = trace.last().cloned().unwrap_or_default();
        if trace.len() as u64 != k {
            out.dropped = Some("trace_length_differs_from_kill_point".into());
            return out;
        }
    } else if r.code == Some(0) {
        out.label = "not-killed".into();
    } else {
        out.dropped = Some(format!("victim_exit_{:?}_signal_{:?}", r.code, r.signal));
        return out;
    }
    out.info.class(format!("label={}", out.label));
    out.info.nt(out.killed && k > 1 && (k as usize) < p.labels.len() && intermediate_label(&out.label));
    let at = format!("scenario roles {:?}; victim killed at point {} of {} ({})", p.roles, k, p.labels.len(), out.label);

    // (i) stored point files
    let mut observed: BTreeMap<usize, usize> = BTreeMap::new();
    let mut never_succeeded_left = false;
    for ca in 0..sc.cas.len() {
        let st = point_state(sc, &paths.cache, ca);
        if st == PointState::NeverSucceeded {
            never_succeeded_left = true;
        }
        let pre = &p.pre_states[ca];
        let rf = &p.ref_states[ca];
        let had = matches!(pre, PointState::Stored(_));
        let ok = match &st {
            PointState::Stored(_) => st == *pre || st == *rf,
            PointState::Absent | PointState::NeverSucceeded => !had,
            // a header that does not parse is re-created by StoredPoint::open if the error is a
            // plain EOF; acceptable only where nothing had been stored before
            PointState::HeaderUnreadable(_) => {
                if !had {
                    out.info.class("torn_header_of_never_succeeded_point");
                }
                !had
            }
            PointState::BodyUnreadable(_) => false,
        };
        if !ok {
            let shape = match &st {
                PointState::Stored(_) => "mixed-content",
                PointState::Absent => "lost",
                PointState::NeverSucceeded => "reset-to-never-succeeded",
                PointState::HeaderUnreadable(_) => "header-unreadable",
                PointState::BodyUnreadable(_) => "body-unreadable",
            };
            out.failures.push((
                format!("C23/stored-point/{}/{}", shape, out.label),
                format!("{}: stored point of ca{} is {} — before the victim run it was {}, after an uninterrupted run it is {}", at, ca, describe(&st, &p.exp_views[ca]), describe(pre, &p.exp_views[ca]), describe(rf, &p.exp_views[ca])),
            ));
        }
        if let PointState::Stored(v) = &st {
            if let Some(i) = p.exp_views[ca].iter().position(|e| e == v) {
                observed.insert(ca, i);
                if st != *pre {
                    out.info.class("point_already_new_version_at_kill");
                }
            }
        }
    }
    // trust anchor files
    let ta_dir = paths.cache.join("stored/ta");
    let mut ta_torn = false;
    for f in list_tree(&ta_dir) {
        if f.ends_with('/') {
            continue;
        }
        let data = std::fs::read(ta_dir.join(&f)).unwrap_or_default();
        if !p.ta_certs.values().any(|c| *c == data) {
            ta_torn = true;
            out.info.class(if data.is_empty() { "ta_file_empty" } else { "ta_file_partial" });
        }
    }

    // (iv) a run without network access over a copy of the post-kill cache
    if ta_torn && skip_known && is_listed_known("C23", KEY_TA) {
        out.excluded.push(KEY_TA);
    } else {
        let odir = dir.join("offline");
        let res = copy_tree(&paths.cache, &odir.join("cache")).map_err(|e| e.to_string()).and_then(|_| {
            let opaths = paths_for(p, &odir);
            run_config(&config_for(&sc.cfg, &opaths), true, &empty_exceptions())
        });
        let mut st = ModelState { stored: observed.iter().map(|(a, b)| (*a, *b)).collect(), ..Default::default() };
        st.ta_store = p.pre_model.ta_store.clone();
        let exp = model_step(sc, &Step { offline: true, fail_modules: vec![], ..sc.steps[1].clone() }, &mut st);
        match res {
            Err(e) => out.failures.push((format!("C23/offline-run-fails/{}", out.label), format!("{}: a run without network access over the post-kill cache fails: {}", at, e))),
            Ok(o) => {
                if o.payload != exp.payload {
                    let key = if ta_torn { KEY_TA.to_string() } else { format!("C23/offline-run-differs/{}", out.label) };
                    out.failures.push((
                        key,
                        format!(
                            "{}: a run without network access over the post-kill cache yields {} items, but the stored points (each a complete version: {:?}) and the trust anchors stored before the crash give {} items; trust anchor file torn: {}",
                            at,
                            o.payload.len(),
                            observed,
                            exp.payload.len(),
                            ta_torn
                        ),
                    ));
                }
            }
        }
    }

    // (iii) commands on copies of the post-kill cache
    for name in COMMANDS {
        if name == "vrps-update-after" && out.label == "store.status.created" && skip_known && is_listed_known("C23", KEY_STATUS) {
            out.excluded.push(KEY_STATUS);
            continue;
        }
        if name == "dump" && never_succeeded_left && skip_known && is_listed_known("C23", KEY_DUMP) {
            out.excluded.push(KEY_DUMP);
            continue;
        }
        if p.ref_cli.get(name).copied().flatten() != Some(0) || p.pre_cli.get(name).copied().flatten() != Some(0) {
            // the command does not work on uninterrupted caches either: not a consequence of the crash
            out.info.class(format!("command_fails_without_crash={}", name));
            continue;
        }
        let d = dir.join(name);
        let res = copy_tree(&paths.cache, &d.join("cache")).map_err(|e| e.to_string()).and_then(|_| {
            let cpaths = paths_for(p, &d);
            run_cli(&p.bin, &sc.cfg, &cpaths, &d, name)
        });
        match res {
            Err(e) => {
                fail_infra(&mut out, e);
                return out;
            }
            Ok(r) if r.watchdog => {
                out.dropped = Some("watchdog".into());
                return out;
            }
            Ok(r) => {
                if r.code != Some(0) {
                    let status_len = std::fs::metadata(paths.cache.join("stored/status.bin")).map(|m| m.len() as i64).unwrap_or(-1);
                    let key = if name == "vrps-update-after" && out.label == "store.status.created" {
                        KEY_STATUS.to_string()
                    } else if name == "dump" && never_succeeded_left {
                        KEY_DUMP.to_string()
                    } else {
                        format!("C23/command-fails/{}/{}", name, out.label)
                    };
                    out.failures.push((
                        key,
                        format!("{}: `routinator {}` on the post-kill cache exits with {:?} (signal {:?}); it exits 0 on the cache before the victim run and on the uninterrupted cache; status.bin has {} bytes; stderr: {}", at, command_args(name, Path::new("<dir>")).join(" "), r.code, r.signal, status_len, truncate(&String::from_utf8_lossy(&r.stderr), 600)),
                    ));
                }
            }
        }
    }

    // (ii) the next normal run, on the post-kill cache itself
    match run_config(&config_for(&sc.cfg, &paths), false, &empty_exceptions()) {
        Err(e) => out.failures.push((format!("C23/next-run-fails/{}", out.label), format!("{}: the next normal run fails: {}", at, e))),
        Ok(o) => {
            if o.payload != p.ref_payload {
                let missing = p.ref_payload.items().into_iter().collect::<BTreeSet<_>>();
                let got = o.payload.items().into_iter().collect::<BTreeSet<_>>();
                out.failures.push((
                    format!("C23/next-run-differs/{}", out.label),
                    format!("{}: the next normal run yields {} items, the never-interrupted run {}; missing e.g. {:?}, extra e.g. {:?}", at, got.len(), missing.len(), missing.difference(&got).next(), got.difference(&missing).next()),
                ));
            }
            for ca in 0..sc.cas.len() {
                let st = point_state(sc, &paths.cache, ca);
                // whether the header of a point that never succeeded survives cleanup depends on
                // the second boundary (retain compares a whole-second time stamp): both mean "nothing stored"
                let nothing = |s: &PointState| matches!(s, PointState::Absent | PointState::NeverSucceeded);
                if st != p.ref_states[ca] && !(nothing(&st) && nothing(&p.ref_states[ca])) {
                    out.failures.push((
                        format!("C23/next-run-store-differs/{}", out.label),
                        format!("{}: after the next normal run the stored point of ca{} is {}, after the never-interrupted run it is {}", at, ca, describe(&st, &p.exp_views[ca]), describe(&p.ref_states[ca], &p.exp_views[ca])),
                    ));
                    break;
                }
            }
        }
    }
    if std::env::var_os("RV_KEEP_WORLD").is_none() {
        let _ = std::fs::remove_dir_all(&dir);
    }
    out
}

fn scenario_classes(p: &Prepared) -> Vec<String> {
    let mut c: Vec<String> = p.roles.iter().map(|r| format!("role={}", r)).collect();
    c.sort();
    c.dedup();
    c
}

struct Tally {
    reported: std::collections::HashSet<String>,
    more_failing: u64,
    infra: Vec<String>,
    label_hist: BTreeMap<String, u64>,
}

fn evaluate(ctx: &Ctx, rep: &mut Report, p: &Prepared, points: &[u64], skip_known: bool, tally: &mut Tally) {
    let outs = parallel_map(points.len(), WORKERS, |i| eval_point(p, points[i], skip_known));
    let classes = scenario_classes(p);
    for (k, mut o) in points.iter().zip(outs) {
        if std::env::var_os("RV_DEBUG").is_some() {
            eprintln!("C23 debug: k={} label={} killed={} dropped={:?} excluded={:?} classes={:?} failures={:?}", k, o.label, o.killed, o.dropped, o.excluded, o.info.classes, o.failures.iter().map(|f| &f.0).collect::<Vec<_>>());
        }
        let case = Tagged { sub: "kill".to_string(), case: KillCase { sc: p.sc.clone(), k: *k, pre_dirty: p.pre_dirty, label: o.label.clone() } };
        for key in &o.excluded {
            rep.exclude_known(key);
        }
        *tally.label_hist.entry(o.label.clone()).or_default() += 1;
        if let Some(why) = o.dropped {
            if why.starts_with("infra:") {
                tally.infra.push(format!("k={} {}", k, why));
            }
            rep.record(ctx, &case, &CaseInfo::default(), &Verdict::Dropped(why));
            continue;
        }
        for c in &classes {
            o.info.class(c.clone());
        }
        // one replay file per failing key; known findings are counted every time
        let mut verdict = Verdict::Pass;
        for (key, msg) in o.failures {
            let known = !ctx.strict && ctx.known_key(&key).is_some();
            if !known && !tally.reported.insert(key.clone()) {
                tally.more_failing += 1;
                continue;
            }
            if matches!(verdict, Verdict::Pass) {
                verdict = Verdict::fail(key, msg);
            } else {
                rep.failure(ctx, &case, &key, &msg);
            }
        }
        rep.record(ctx, &case, &o.info, &verdict);
    }
}

/// The fixed scenario of the directed representatives (simplest genome).
fn directed_scenario() -> (Scenario, Vec<String>) {
    // one changed root and one child that appears only in version 2: a single processing order
    scenario_with(&[0u16; 8], Some(&[(None, Role::Changed), (Some(0), Role::New)]))
}

pub fn run(ctx: &Ctx, rep: &mut Report, replay: Option<&serde_json::Value>) {
    rep.level = "fault_enumeration".into();
    rep.rule("E-crash over E-rpki: seeded two-run scenarios (scenario 0: fixed covering shape with every role once, 9 CAs; others 1-2 TALs, 3-7 CAs over 2-3 rsync modules; per CA one of: changed, unchanged, never succeeded before or now, succeeding for the first time, newly appearing in / vanished from the parent's manifest, incompletely published new version, never succeeded and vanished; optionally an unreachable module); pre-state = complete run over version 1, alternately with `dirty` (headers of never-succeeded points survive, so the victim takes the last-attempt re-write path) and with cleanup; victim = child process running against version 2 with one validation thread, killed by abort() at kill point k, for every k of the victim run (all when M <= 400, else first/last 20, every label change and a seeded sample of 400); a case = (scenario, k); oracles (i) stored-point files read with routinator's reader equal the complete previous or complete new content per CA, (ii) next normal run equals the never-interrupted reference (payload and store), (iii) vrps --update-after 1 / vrps --noupdate / validate / update / dump via the hooked binary exit 0 wherever they do on the uninterrupted caches, (iv) a network-less run yields the data set of the observed complete versions; non-trivial = the process was killed at a point that is neither the first nor the last of the run and lies inside a multi-step file operation (stored point update, truncating header/status re-write, trust anchor write, cleanup removal); distinct by (scenario, k)");
    rep.assume("the kill is abort() in the victim process (no destructors, buffered data lost, temporary files left): faithful to SIGKILL; re-ordering or loss of completed writes by a power failure is out of scope");
    rep.assume("kill points are the labelled fs steps of store.rs and utils/fatal.rs (feature verif-hooks); fatal::write_file is emulated as create-empty / half-written / complete; individual write() calls inside a header or status write are not split further");
    rep.assume("the fake rsync transport (rvrsync) is a separate process and is never killed; partial module copies are not part of this property");
    rep.assume("routinator shuffles manifest entries with a thread-local RNG that cannot be seeded from outside: the operation a given k falls into, and the number of kill points (by a few), differ between victim runs of one scenario; every victim reports the label it died at, a replay explores k-2..k+2 and every point carrying the recorded label");
    rep.assume("StoredPoint::reject is not reached: it needs a stored manifest that no longer decodes, which no crash state produces");
    let bin = match hooked_binary() {
        Ok(b) => b,
        Err(e) => {
            eprintln!("C23: {}", e);
            std::process::exit(2);
        }
    };
    let mut tally = Tally { reported: Default::default(), more_failing: 0, infra: vec![], label_hist: BTreeMap::new() };
    if let Some(v) = replay {
        let t: Tagged<KillCase> = serde_json::from_value(v.clone()).expect("replay");
        let roles = vec!["replay".to_string()];
        match prepare(&t.case.sc, roles, &bin, t.case.pre_dirty) {
            Ok(p) => {
                let m = p.labels.len() as u64;
                let mut points: BTreeSet<u64> = (t.case.k.saturating_sub(3).max(1)..=(t.case.k + 3).min(m + 3)).collect();
                for (i, l) in p.labels.iter().enumerate() {
                    if *l == t.case.label {
                        points.insert(i as u64 + 1);
                    }
                }
                let points: Vec<u64> = points.into_iter().collect();
                // up to three passes: which operation a given k hits varies from run to run
                for _ in 0..3 {
                    evaluate(ctx, rep, &p, &points, false, &mut tally);
                    if rep.violated() || !rep.known_hits.is_empty() {
                        break;
                    }
                }
            }
            Err(e) => {
                eprintln!("C23 replay: cannot prepare the scenario: {}", e);
                std::process::exit(2);
            }
        }
        return;
    }
    let n_scen = ctx.tier.pick(3usize, 24);
    let genomes = sample_strategy(&genome(160), ctx.seed_for("scenarios"), n_scen);
    let mut per_scenario = Vec::new();
    let mut all_points = true;
    for (n, g) in genomes.iter().enumerate() {
        // scenario 0 of every run has the covering shape (every role once); the others are free
        let (sc, roles) = if n == 0 { scenario_with(g, Some(&COVERING)) } else { scenario(g) };
        let pre_dirty = n % 2 == 0;
        let p = match prepare(&sc, roles, &bin, pre_dirty) {
            Ok(p) => p,
            Err(e) if e.starts_with("model_mismatch") || e.starts_with("watchdog") => {
                *rep.dropped.entry(format!("scenario:{}", e)).or_default() += 1;
                continue;
            }
            Err(e) => {
                eprintln!("C23: scenario {}: {}", n, e);
                std::process::exit(2);
            }
        };
        let t_prep = ctx.start.elapsed().as_secs_f64();
        let mut points = select_points(&p.labels, POINT_CAP, ctx.seed_for(&format!("points{}", n)));
        // the number of kill points varies a little between runs of the same scenario (an incomplete
        // update is noticed at a random position of the shuffled manifest): cover a longer tail
        let m = p.labels.len() as u64;
        points.extend(m + 1..=m + 3);
        if points.len() < p.labels.len() + 3 {
            all_points = false;
        }
        evaluate(ctx, rep, &p, &points, !ctx.strict, &mut tally);
        eprintln!("C23: scenario {} ({} CAs, {} kill points, {} explored): prepared at {:.1}s, evaluated at {:.1}s", n, sc.cas.len(), p.labels.len(), points.len(), t_prep, ctx.start.elapsed().as_secs_f64());
        per_scenario.push(json!({"cas": sc.cas.len(), "roles": p.roles, "kill_points": p.labels.len(), "explored": points.len(), "pre_state_run_dirty": pre_dirty}));
        if rep.violated() {
            break;
        }
    }
    // samples: keep the shape of the scenario, not every object
    for smp in rep.samples.iter_mut() {
        if let Some(sc) = smp.pointer_mut("/case/sc") {
            if let Ok(full) = serde_json::from_value::<Scenario>(sc.clone()) {
                let cas: Vec<_> = full
                    .cas
                    .iter()
                    .map(|c| json!({"parent": c.parent, "module": c.module, "objects": c.versions.iter().map(|v| v.objs.len()).collect::<Vec<_>>(), "faults": c.versions.iter().map(|v| format!("{:?}", v.fault)).collect::<Vec<_>>(), "omits": c.versions.iter().map(|v| v.omit_children.clone()).collect::<Vec<_>>()}))
                    .collect();
                *sc = json!({"summary_of_scenario": {"cas": cas, "publish": full.steps.iter().map(|s| s.publish.clone()).collect::<Vec<_>>(), "fail_modules": full.steps.iter().map(|s| s.fail_modules.clone()).collect::<Vec<_>>()}});
            }
        }
    }
    rep.extra.insert("scenarios".into(), json!(per_scenario));
    rep.extra.insert("all_kill_points_of_each_scenario_explored".into(), json!(all_points));
    rep.extra.insert("kill_label_histogram".into(), json!(tally.label_hist));
    if tally.more_failing > 0 {
        rep.extra.insert("further_failing_points_with_reported_keys".into(), json!(tally.more_failing));
    }
    if !tally.infra.is_empty() && !rep.violated() {
        eprintln!("C23: {} point(s) could not be evaluated (infrastructure): {:?}", tally.infra.len(), tally.infra.iter().take(5).collect::<Vec<_>>());
        std::process::exit(2);
    }
    if rep.violated() {
        return;
    }
    // directed representatives of the known shapes, every run
    let (sc, roles) = directed_scenario();
    match prepare(&sc, roles, &bin, false) {
        Ok(p) => {
            let mut points = Vec::new();
            if let Some(i) = p.labels.iter().position(|l| l == "store.status.created") {
                points.push(i as u64 + 1);
            }
            // second point of the first trust anchor write: file created, nothing written
            if let Some(i) = p.labels.iter().position(|l| l == "fatal.write_file") {
                points.push(i as u64 + 2);
            }
            // the point after a new stored point got its never-succeeded header
            if let Some(i) = p.labels.iter().position(|l| l == "store.point.create.truncated") {
                points.push(i as u64 + 2);
            }
            let mut t2 = Tally { reported: Default::default(), more_failing: 0, infra: vec![], label_hist: BTreeMap::new() };
            evaluate(ctx, rep, &p, &points, false, &mut t2);
        }
        Err(e) => {
            eprintln!("C23: directed scenario: {}", e);
            std::process::exit(2);
        }
    }
}
