//! C12 Merged deltas equal the direct delta.

use proptest::prelude::*;
use routinator::payload::{PayloadDelta, PayloadSnapshot};
use rpki::rtr::Serial;

use crate::core::*;
use crate::pay::*;

pub fn judge(sets: &[MSet], snaps: &[PayloadSnapshot], info: &mut CaseInfo) -> Verdict {
    // how often does some item change state?
    let mut changes: std::collections::HashMap<MItem, u32> = Default::default();
    for w in sets.windows(2) {
        let a: std::collections::HashSet<MItem> = w[0].items().into_iter().collect();
        let b: std::collections::HashSet<MItem> = w[1].items().into_iter().collect();
        for x in a.symmetric_difference(&b) {
            *changes.entry(x.clone()).or_default() += 1;
        }
    }
    let multi = changes.values().any(|c| *c >= 2);
    info.nt(multi);
    if multi {
        info.class("item_changes_twice");
    }
    if changes.keys().any(|k| matches!(k, MItem::Aspa(_))) {
        info.class("aspa_change");
    }
    let mut merged: Option<PayloadDelta> = None;
    let mut client = sets[0].clone();
    for i in 1..sets.len() {
        let step = PayloadDelta::construct(&snaps[i - 1], &snaps[i], Serial::from(i as u32));
        if let Some(step) = step {
            // client updating version by version
            client = match client.apply(&delta_actions(&step)) {
                Ok(c) => c,
                Err(e) => return Verdict::fail("C12/stepwise-apply", e),
            };
            merged = Some(match merged {
                None => step,
                Some(m) => m.merge(&step),
            });
        }
        if client != sets[i] {
            return Verdict::fail("C12/stepwise-mismatch", format!("client after step {} = {:?}, expected {:?}", i, client, sets[i]));
        }
        // every prefix of the sequence: merged == direct
        let direct = PayloadDelta::construct(&snaps[0], &snaps[i], Serial::from(i as u32));
        let direct_actions = direct.as_ref().map(delta_actions).unwrap_or_default();
        let merged_actions = merged.as_ref().map(delta_actions).unwrap_or_default();
        if merged_actions != direct_actions {
            return Verdict::fail("C12/merge-differs", format!("prefix 0..{}: merged={:?} direct={:?}", i, merged_actions, direct_actions));
        }
        if let (Some(m), Some(d)) = (merged.as_ref(), direct.as_ref()) {
            if m.announce_len() != d.announce_len() || m.withdraw_len() != d.withdraw_len() {
                return Verdict::fail("C12/merge-counts", format!("prefix 0..{}: merged counts {}/{} direct {}/{}", i, m.announce_len(), m.withdraw_len(), d.announce_len(), d.withdraw_len()));
            }
        }
        if let Some(m) = merged.as_ref() {
            let ann = merged_actions.iter().filter(|a| a.1).count();
            if m.announce_len() != ann || m.withdraw_len() != merged_actions.len() - ann {
                return Verdict::fail("C12/merge-counts", format!("prefix 0..{}: merged counts {}/{} but listed {}/{}", i, m.announce_len(), m.withdraw_len(), ann, merged_actions.len() - ann));
            }
            // client catching up in one go
            match sets[0].apply(&merged_actions) {
                Ok(c) if c == sets[i] => {}
                Ok(c) => return Verdict::fail("C12/merged-apply-mismatch", format!("s0+merged={:?} expected {:?}", c, sets[i])),
                Err(e) => return Verdict::fail("C12/merged-apply-error", e),
            }
        }
    }
    Verdict::Pass
}

fn prop_seq(sets: &Vec<MSet>, info: &mut CaseInfo) -> Verdict {
    let snaps: Vec<PayloadSnapshot> = sets.iter().map(|s| s.to_snapshot()).collect();
    judge(sets, &snaps, info)
}

pub fn judge_bytes(data: &[u8], info: &mut CaseInfo) -> Verdict {
    use arbitrary::{Arbitrary, Unstructured};
    let mut u = Unstructured::new(data);
    let snaps = match <[PayloadSnapshot; 5]>::arbitrary(&mut u) {
        Ok(p) => p,
        Err(_) => return Verdict::Dropped("arbitrary_exhausted".into()),
    };
    let mut sets = Vec::new();
    for s in &snaps {
        match MSet::from_snapshot(s) {
            Ok(m) => sets.push(m),
            Err(_) => return Verdict::Dropped("arbitrary_duplicate_keys".into()),
        }
    }
    judge(&sets, &snaps, info)
}

pub fn fuzz_bytes(data: &[u8]) -> Result<(), String> {
    let mut info = CaseInfo::default();
    match judge_bytes(data, &mut info) {
        Verdict::Fail { key, msg } => Err(format!("{}: {}", key, msg)),
        _ => Ok(()),
    }
}

pub fn run(ctx: &Ctx, rep: &mut Report, replay: Option<&serde_json::Value>) {
    rep.rule("sequences of 3..=10 data sets drawn as subsets of one universe of <=12 items so add-then-remove, remove-then-re-add and ASPA change-and-change-back are common, plus byte-driven Arbitrary snapshot arrays; oracle checked for every prefix of the sequence; non-trivial = some item changes state >=2 times; distinct by serialised case");
    rep.assume("snapshot collections hold distinct keys");
    if let Some(v) = replay {
        let t: Tagged<serde_json::Value> = serde_json::from_value(v.clone()).expect("replay");
        match t.sub.as_str() {
            "seq" => run_case(ctx, rep, "seq", &serde_json::from_value::<Vec<MSet>>(t.case).expect("case"), prop_seq),
            "bytes" => run_case(ctx, rep, "bytes", &serde_json::from_value::<Vec<u8>>(t.case).expect("case"), |d, i| judge_bytes(d, i)),
            other => panic!("unknown sub {}", other),
        }
        return;
    }
    run_prop(ctx, rep, "seq", ctx.tier.pick(30_000, 600_000), sets_strategy(3, 10, 12), prop_seq);
    run_prop(ctx, rep, "bytes", ctx.tier.pick(10_000, 300_000), prop::collection::vec(any::<u8>(), 0..1200), |d, i| judge_bytes(d, i));
}
