//! C32 Failed runs are retried at most once.
//!
//! Complete enumeration: every sequence of run outcomes over {ok, retry, fatal} of length 1..=4
//! (120) x every command that performs validation runs (vrps, validate, update, server, server with
//! listeners), injected into the hooked `routinator` binary through `ROUTINATOR_VERIF_OUTCOMES`.
//! One-shot commands: the last outcome of the sequence repeats for ever (so `retry` alone is a
//! persistently failing run); server: the sequence is followed by `fatal` for ever so the server
//! ends. Observed: the run log written by the hook (one line per validation run) and the exit status.
//! A ` BOUND` line in the run log (the hook turns run 7 and later into fatal failures) is the loop
//! detector; time is never a verdict (a generous watchdog only protects the harness: exit 2).

use std::path::{Path, PathBuf};
use std::process::Command;
use std::time::Duration;

use serde::{Deserialize, Serialize};

use crate::clibin::*;
use crate::core::*;

#[derive(Serialize, Deserialize, Clone, Copy, Debug, PartialEq, Eq, Hash)]
#[serde(rename_all = "lowercase")]
pub enum O {
    Ok,
    Retry,
    Fatal,
}

#[derive(Serialize, Deserialize, Clone, Debug, PartialEq, Eq, Hash)]
pub struct Cell {
    /// vrps | validate | update | server | server-listen
    pub cmd: String,
    pub seq: Vec<O>,
    /// Failures happen after a complete engine run (`retry-late` / `fatal-late`) instead of before it.
    pub late: bool,
    /// The cache holds an RRDP archive entry that cannot be read (I/O error), so the clean-up step
    /// before a retry (`Engine::sanitize`) fails.
    #[serde(default)]
    pub sanitize_fails: bool,
}

pub const COMMANDS: [&str; 7] = ["vrps", "vrps-update-after", "vrps-noupdate", "validate", "update", "server", "server-listen"];
/// Runs beyond this number are forced fatal by the hook and flagged BOUND.
const RUN_BOUND: usize = 6;

impl Cell {
    fn is_server(&self) -> bool {
        self.cmd.starts_with("server")
    }
    /// Outcome of the i-th run (0-based) as scripted.
    fn outcome(&self, i: usize) -> O {
        match self.seq.get(i) {
            Some(o) => *o,
            None if self.is_server() => O::Fatal,
            None => *self.seq.last().expect("non-empty sequence"),
        }
    }
    fn env_value(&self) -> String {
        let name = |o: &O| match (o, self.late) {
            (O::Ok, _) => "ok",
            (O::Retry, false) => "retry",
            (O::Retry, true) => "retry-late",
            (O::Fatal, false) => "fatal",
            (O::Fatal, true) => "fatal-late",
        };
        let mut parts: Vec<String> = self.seq.iter().map(|o| name(o).to_string()).collect();
        if self.is_server() {
            parts.push(format!("{}*", name(&O::Fatal)));
        } else {
            let last = parts.pop().unwrap();
            parts.push(format!("{}*", last));
        }
        parts.join(",")
    }
}

/// The exact shapes of the listed findings (see known_findings.json), used to exclude them from the
/// enumeration while they are listed.
fn known_shape(cell: &Cell) -> Option<&'static str> {
    if cell.cmd != "vrps" {
        return None;
    }
    if cell.seq.iter().all(|o| *o == O::Retry) {
        return Some("C32/vrps/loops-until-bound");
    }
    if cell.seq.len() >= 2 && cell.seq[0] == O::Retry && cell.seq[1] == O::Retry {
        return Some("C32/vrps/more-than-one-retry");
    }
    None
}

#[derive(Debug, Clone)]
struct Observed {
    /// (run number, outcome name, bound flag) per line of the run log
    runs: Vec<(usize, String, bool)>,
    proc_: ProcResult,
}

fn run_cell(bin: &Path, dir: &Path, cell: &Cell) -> Result<Observed, String> {
    for attempt in 0..3 {
        let _ = std::fs::remove_dir_all(dir);
        let cache = dir.join("cache");
        let tals = dir.join("tals");
        std::fs::create_dir_all(&cache).map_err(|e| e.to_string())?;
        std::fs::create_dir_all(&tals).map_err(|e| e.to_string())?;
        let log = dir.join("runs.log");
        let mut cmd = Command::new(bin);
        cmd.current_dir(dir)
            .env_clear()
            .env("HOME", dir)
            .env("PATH", "/usr/bin:/bin")
            .env("ROUTINATOR_VERIF_OUTCOMES", cell.env_value())
            .env("ROUTINATOR_VERIF_RUN_BOUND", RUN_BOUND.to_string())
            .env("ROUTINATOR_VERIF_RUN_LOG", &log)
            .args(["-q", "-q", "-r"])
            .arg(&cache)
            .arg("--no-rir-tals")
            .arg("--extra-tals-dir")
            .arg(&tals)
            .arg("--disable-rsync");
        if cell.sanitize_fails {
            // A directory below <cache>/rrdp that cannot be opened. Root ignores permissions, so the
            // command then runs as nobody. RRDP stays enabled (there are no TALs, nothing is fetched)
            // so that the RRDP collector takes part in sanitize().
            use std::os::unix::fs::PermissionsExt;
            use std::os::unix::process::CommandExt;
            let d = cache.join("rrdp").join("unreadable.example.net");
            std::fs::create_dir_all(&d).map_err(|e| e.to_string())?;
            let open = std::fs::Permissions::from_mode(0o777);
            for p in [dir, cache.as_path(), tals.as_path(), cache.join("rrdp").as_path()] {
                std::fs::set_permissions(p, open.clone()).map_err(|e| e.to_string())?;
            }
            let mut up = dir.parent();
            while let Some(p) = up {
                // scratch directories are created 0700; the unprivileged child must be able to traverse them
                if let Ok(m) = std::fs::metadata(p) {
                    if m.permissions().mode() & 0o005 != 0o005 && p.starts_with(crate::erun::scratch_base()) && p != crate::erun::scratch_base() {
                        let _ = std::fs::set_permissions(p, std::fs::Permissions::from_mode(m.permissions().mode() | 0o055));
                    }
                }
                up = p.parent();
            }
            std::fs::set_permissions(&d, std::fs::Permissions::from_mode(0o000)).map_err(|e| e.to_string())?;
            if unsafe { libc::geteuid() } == 0 {
                unsafe {
                    cmd.pre_exec(|| {
                        if libc::setgroups(0, std::ptr::null()) != 0 || libc::setgid(65534) != 0 || libc::setuid(65534) != 0 {
                            return Err(std::io::Error::last_os_error());
                        }
                        Ok(())
                    });
                }
            }
        } else {
            cmd.arg("--disable-rrdp");
        }
        match cell.cmd.as_str() {
            "vrps" => {
                cmd.args(["vrps", "-o", "/dev/null"]);
            }
            "vrps-noupdate" => {
                cmd.args(["vrps", "-o", "/dev/null", "--noupdate"]);
            }
            "vrps-update-after" => {
                // a successful earlier run leaves a recent store status, so --update-after takes its
                // "data is fresh enough, do not update" path
                let mut pre = Command::new(bin);
                pre.current_dir(dir).env_clear().env("HOME", dir).env("PATH", "/usr/bin:/bin").args(["-q", "-q", "-r"]).arg(&cache).arg("--no-rir-tals").arg("--extra-tals-dir").arg(&tals).args(["--disable-rsync", "--disable-rrdp", "vrps", "-o", "/dev/null"]);
                let pre_res = run_watchdog(pre, dir, Duration::from_secs(90))?;
                if pre_res.code != Some(0) {
                    return Err(format!("preparatory vrps run failed: {:?}", pre_res.code));
                }
                cmd.args(["vrps", "-o", "/dev/null", "--update-after", "600"]);
            }
            "validate" => {
                cmd.args(["validate", "--asn", "64496", "--prefix", "192.0.2.0/24"]);
            }
            "update" => {
                cmd.arg("update");
            }
            "server" => {
                cmd.args(["server", "--refresh", "1"]);
            }
            "server-listen" => {
                let p1 = crate::rtrnet::free_port().map_err(|e| e.to_string())?;
                let p2 = crate::rtrnet::free_port().map_err(|e| e.to_string())?;
                cmd.args(["server", "--refresh", "1", "--rtr", &format!("127.0.0.1:{}", p1), "--http", &format!("127.0.0.1:{}", p2)]);
            }
            other => return Err(format!("unknown command {}", other)),
        }
        let watchdog = if cell.is_server() { Duration::from_secs(180) } else { Duration::from_secs(90) };
        let res = run_watchdog(cmd, dir, watchdog)?;
        let text = std::fs::read_to_string(&log).unwrap_or_default();
        let mut runs = Vec::new();
        for line in text.lines() {
            let mut it = line.split_whitespace();
            let n: usize = it.next().and_then(|s| s.parse().ok()).ok_or_else(|| format!("bad run log line {:?}", line))?;
            let o = it.next().unwrap_or("").to_string();
            let bound = it.next() == Some("BOUND");
            runs.push((n, o, bound));
        }
        if runs.is_empty() && cell.cmd == "server-listen" && attempt < 2 && !res.watchdog {
            continue; // most likely a port clash
        }
        return Ok(Observed { runs, proc_: res });
    }
    unreachable!()
}

/// What the documented behaviour predicts (used for class labels only, never for the verdict).
fn model_runs(cell: &Cell) -> usize {
    if cell.is_server() {
        let mut can_retry = true;
        let mut i = 0;
        loop {
            let o = cell.outcome(i);
            i += 1;
            match o {
                O::Ok => {}
                O::Fatal => return i,
                O::Retry => {
                    if i == 1 {
                    } else if can_retry {
                        can_retry = false;
                    } else {
                        return i;
                    }
                }
            }
            if i > 20 {
                return i;
            }
        }
    } else {
        match cell.outcome(0) {
            O::Ok | O::Fatal => 1,
            O::Retry => {
                if cell.cmd.starts_with("vrps") {
                    2
                } else {
                    1
                }
            }
        }
    }
}

fn judge(cell: &Cell, obs: &Observed, info: &mut CaseInfo) -> Verdict {
    let retries_scripted = (0..RUN_BOUND).filter(|i| cell.outcome(*i) == O::Retry).count();
    info.nt(retries_scripted >= 2);
    info.class(format!("cmd={}", cell.cmd));
    info.class(format!("len={}", cell.seq.len()));
    if cell.late {
        info.class("late_failures");
    }
    if cell.sanitize_fails {
        info.class("sanitize_fails");
    }
    if obs.proc_.watchdog {
        return Verdict::Dropped("watchdog".into());
    }
    let n = obs.runs.len();
    if n == 0 {
        return Verdict::Dropped("no_run_performed".into());
    }
    let Some(code) = obs.proc_.code else {
        return Verdict::Dropped(format!("killed_by_signal_{:?}", obs.proc_.signal));
    };
    let cmd = &cell.cmd;
    let describe = || {
        format!(
            "command {} with scripted outcomes {} performed {} run(s) [{}] and exited with status {}",
            cmd,
            cell.env_value(),
            n,
            obs.runs.iter().map(|r| format!("{}{}", r.1, if r.2 { " BOUND" } else { "" })).collect::<Vec<_>>().join(", "),
            code
        )
    };
    info.class(if n == model_runs(cell) { "runs_as_documented_model" } else { "runs_differ_from_model" });
    // loop detector
    if obs.runs.iter().any(|r| r.2) {
        return Verdict::fail(format!("C32/{}/loops-until-bound", cmd), format!("{}: the command kept starting runs until the hook's bound of {} forced a fatal failure (it would loop for ever on a persistently failing run)", describe(), RUN_BOUND));
    }
    // what each performed run was scripted to be
    let outs: Vec<O> = (0..n).map(|i| cell.outcome(i)).collect();
    // a fatal failure ends everything
    if let Some(i) = outs.iter().position(|o| *o == O::Fatal) {
        if i + 1 < n {
            return Verdict::fail(format!("C32/{}/run-after-fatal", cmd), format!("{}: run {} failed fatally but {} more run(s) followed", describe(), i + 1, n - i - 1));
        }
    }
    if cell.is_server() {
        // retries of non-initial runs (the initial run's immediate re-run is the documented start-up behaviour)
        let retried = (1..n).filter(|i| outs[*i] == O::Retry && *i + 1 < n).count();
        if retried > 1 {
            return Verdict::fail(format!("C32/{}/more-than-one-retry", cmd), format!("{}: {} retryable failures after the initial run were each followed by another run (at most one retry allowed before shutting down)", describe(), retried));
        }
    } else if let Some(f) = outs.iter().position(|o| *o == O::Retry) {
        // one-shot: at most one more run after the first retryable failure
        if n > f + 2 {
            return Verdict::fail(format!("C32/{}/more-than-one-retry", cmd), format!("{}: {} runs followed the first retryable failure (at most one retry allowed)", describe(), n - f - 1));
        }
    }
    // exit status
    let last_failed = *outs.last().unwrap() != O::Ok;
    if last_failed && code == 0 {
        return Verdict::fail(format!("C32/{}/zero-status-after-failure", cmd), format!("{}: the last run failed but the exit status is 0", describe()));
    }
    // (with an unreadable cache entry a successful run's own cache clean-up fails too: not judged)
    if !last_failed && code != 0 && !cell.is_server() && !cell.sanitize_fails {
        return Verdict::fail(format!("C32/{}/error-status-after-success", cmd), format!("{}: the last run succeeded but the exit status is {}; stderr: {}", describe(), code, truncate(&String::from_utf8_lossy(&obs.proc_.stderr), 300)));
    }
    Verdict::Pass
}

fn all_sequences(max_len: usize) -> Vec<Vec<O>> {
    let mut out = Vec::new();
    let mut layer: Vec<Vec<O>> = vec![vec![]];
    for _ in 0..max_len {
        let mut next = Vec::new();
        for s in &layer {
            for o in [O::Ok, O::Retry, O::Fatal] {
                let mut t = s.clone();
                t.push(o);
                next.push(t);
            }
        }
        out.extend(next.iter().cloned());
        layer = next;
    }
    out
}

fn evaluate(ctx: &Ctx, rep: &mut Report, bin: &Path, base: &Path, cells: &[Cell]) {
    let results = parallel_map(cells.len(), 32, |i| run_cell(bin, &base.join(format!("cell{}", i)), &cells[i]));
    let mut infra = Vec::new();
    let mut reported: std::collections::HashSet<String> = Default::default();
    let mut more_failing = 0u64;
    for (cell, res) in cells.iter().zip(results) {
        match res {
            Err(e) if cell.sanitize_fails => {
                // the unprivileged child could not be set up in this environment: these extra cells
                // are best effort and never make the check inconclusive
                let tagged = Tagged { sub: "cell".to_string(), case: cell.clone() };
                rep.record(ctx, &tagged, &CaseInfo::default(), &Verdict::Dropped(format!("unprivileged_child:{}", truncate(&e, 40))));
            }
            Err(e) => infra.push(format!("{:?}: {}", cell, e)),
            Ok(obs) => {
                let mut info = CaseInfo::default();
                let verdict = judge(cell, &obs, &mut info);
                if let (Verdict::Dropped(_), true) = (&verdict, cell.sanitize_fails) {
                } else if let Verdict::Dropped(why) = &verdict {
                    infra.push(format!("{:?}: {} (exit {:?}, stderr {})", cell, why, obs.proc_.code, truncate(&String::from_utf8_lossy(&obs.proc_.stderr), 300)));
                }
                if let Verdict::Fail { key, .. } = &verdict {
                    // one replay file per failing shape; further cells with the same key are only counted
                    if !reported.insert(key.clone()) && (ctx.strict || ctx.known_key(key).is_none()) {
                        more_failing += 1;
                        continue;
                    }
                }
                let tagged = Tagged { sub: "cell".to_string(), case: cell.clone() };
                rep.record(ctx, &tagged, &info, &verdict);
            }
        }
    }
    if more_failing > 0 {
        let e = rep.extra.entry("further_failing_cells_with_reported_keys".into()).or_insert(serde_json::json!(0));
        *e = serde_json::json!(e.as_u64().unwrap_or(0) + more_failing);
    }
    if !infra.is_empty() {
        eprintln!("C32: {} cell(s) could not be judged (infrastructure):", infra.len());
        for l in infra.iter().take(10) {
            eprintln!("  {}", l);
        }
        if !rep.violated() {
            std::process::exit(2);
        }
    }
}

pub fn run(ctx: &Ctx, rep: &mut Report, replay: Option<&serde_json::Value>) {
    rep.level = "fault_enumeration".into();
    rep.rule("complete enumeration: all 120 outcome sequences over {ok,retry,fatal} of length 1..=4 x {vrps, validate, update, server, server with RTR+HTTP listeners}, failures injected before the run; plus the same with failures injected after a complete engine run (retry-late/fatal-late; quick: lengths <=2, thorough: all); one-shot commands see the last outcome repeated for ever, the server sees the sequence followed by fatal for ever; plus 24 cells in which the clean-up before a retry (Engine::sanitize) fails too, because the cache holds an RRDP archive entry that cannot be read; each cell is one run of the hooked routinator binary with an empty TAL set; non-trivial = the script contains >= 2 retryable failures within the first 6 runs; distinct by (command, sequence, late)");
    rep.assume("forced outcomes replace the result of ValidationReport::process (verif-hooks); the retry logic under test is the unmodified code in operation.rs");
    rep.assume("a loop is recognised by the hook's run bound (run 7+ forced fatal and flagged), never by elapsed time");
    let bin = match hooked_binary() {
        Ok(b) => b,
        Err(e) => {
            eprintln!("C32: {}", e);
            std::process::exit(2);
        }
    };
    let scratch = ctx.scratch();
    let base: PathBuf = scratch.path().to_path_buf();
    if let Some(v) = replay {
        let t: Tagged<Cell> = serde_json::from_value(v.clone()).expect("replay");
        evaluate(ctx, rep, &bin, &base, &[t.case]);
        return;
    }
    let mut cells = Vec::new();
    let mut excluded = 0usize;
    for late in [false, true] {
        let max_len = if late { ctx.tier.pick(2, 4) } else { 4 };
        for cmd in COMMANDS {
            for seq in all_sequences(max_len) {
                let cell = Cell { cmd: cmd.to_string(), seq, late, sanitize_fails: false };
                if let Some(key) = known_shape(&cell) {
                    if !ctx.strict && ctx.known_key(key).is_some() {
                        rep.exclude_known(key);
                        excluded += 1;
                        continue;
                    }
                }
                cells.push(cell);
            }
        }
    }
    // the clean-up step before a retry fails as well (unreadable RRDP archive entry in the cache)
    for late in [false, true] {
        for cmd in ["vrps", "server", "update"] {
            for seq in [vec![O::Retry], vec![O::Retry, O::Retry], vec![O::Retry, O::Ok], vec![O::Ok, O::Retry, O::Retry]] {
                cells.push(Cell { cmd: cmd.to_string(), seq, late, sanitize_fails: true });
            }
        }
    }
    evaluate(ctx, rep, &bin, &base, &cells);
    rep.exhaustive = Some(true);
    rep.extra.insert("space".into(), serde_json::json!({"cells_run": cells.len(), "cells_excluded_as_listed_known_shapes": excluded, "run_bound": RUN_BOUND}));
    if rep.violated() {
        return;
    }
    // one directed representative per known shape, every run
    let directed = vec![
        Cell { cmd: "vrps".into(), seq: vec![O::Retry, O::Retry, O::Ok], late: false, sanitize_fails: false },
        Cell { cmd: "vrps".into(), seq: vec![O::Retry], late: false, sanitize_fails: false },
    ];
    evaluate(ctx, rep, &bin, &base.join("directed"), &directed);
}
