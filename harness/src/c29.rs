//! C29 RRDP-to-rsync fallback follows the documented policy table.
//!
//! Exhaustive product policy{never,stale,new} x RRDP outcome{updated, failed with current copy,
//! failed with expired copy, failed without copy} x rrdp{on,off} x rsync{on,off} x CA{with,without
//! rpkiNotify}, each cell with generated host / module / path names. Outcomes are produced for
//! real: a scripted HTTPS server failure; local copies come from an earlier successful update;
//! expiry from `refresh = 1 s`, `rrdp-fallback-time = 1 s` and one shared wait.

use std::time::{Duration, Instant};

use bytes::Bytes;
use routinator::collector::Collector;
use routinator::config::FallbackPolicy;
use rpki::uri;
use serde::{Deserialize, Serialize};

use crate::core::*;
use crate::erun::scratch_base;
use crate::httpsrv::*;

pub const IMPLEMENTED: bool = true;

#[derive(Serialize, Deserialize, Clone, Copy, Debug, PartialEq, Eq)]
pub enum Policy {
    Never,
    Stale,
    New,
}

#[derive(Serialize, Deserialize, Clone, Copy, Debug, PartialEq, Eq)]
pub enum RrdpOutcome {
    Updated,
    FailedCurrent,
    FailedExpired,
    FailedNoCopy,
    /// failed, with a copy that had expired but was then confirmed by a successful no-change update
    /// (same serial: 200 or 304) right before the failure — such a copy is current again
    FailedRefreshed,
}

#[derive(Serialize, Deserialize, Clone, Copy, Debug, PartialEq, Eq)]
pub enum Transport {
    Rrdp,
    Rsync,
    Nothing,
}

#[derive(Serialize, Deserialize, Clone, Debug, PartialEq, Eq)]
pub struct Case {
    pub policy: Policy,
    pub outcome: RrdpOutcome,
    pub rrdp_on: bool,
    pub rsync_on: bool,
    pub has_notify: bool,
    /// generated names: host label of the RRDP server, host label of the rsync server, module, path prefix
    pub rrdp_label: String,
    pub rsync_label: String,
    pub module: String,
    pub base: String,
    /// how the failing server fails (0: 500 on the notification, 1: 404, 2: connection drop, 3: notification fine but snapshot 404)
    pub failure: u8,
}

/// The table of the property statement / manual page (`--rrdp-fallback`).
pub fn expected(c: &Case) -> Transport {
    let rsync = if c.rsync_on { Transport::Rsync } else { Transport::Nothing };
    if !c.has_notify || !c.rrdp_on {
        // "A CA without an RRDP URI is fetched with rsync"; "rsync is used … when RRDP is disabled"
        return rsync;
    }
    match c.outcome {
        RrdpOutcome::Updated => Transport::Rrdp,
        RrdpOutcome::FailedCurrent | RrdpOutcome::FailedRefreshed => Transport::Nothing,
        RrdpOutcome::FailedExpired => {
            if c.policy == Policy::Stale {
                rsync
            } else {
                Transport::Nothing
            }
        }
        RrdpOutcome::FailedNoCopy => {
            if matches!(c.policy, Policy::Stale | Policy::New) {
                rsync
            } else {
                Transport::Nothing
            }
        }
    }
}

struct Cell {
    case: Case,
    dir: tempfile::TempDir,
    server: RrdpServer,
    prepared_at: Option<Instant>,
    prep_error: Option<String>,
}

fn rrdp_host(c: &Case) -> String {
    format!("{}.rpki.test", c.rrdp_label)
}
fn rsync_host(c: &Case) -> String {
    format!("{}.example.net", c.rsync_label)
}
fn ca_repo(c: &Case) -> uri::Rsync {
    uri::Rsync::from_string(format!("rsync://{}/{}/ca/", rsync_host(c), c.module)).expect("rsync uri")
}
fn obj_uri(c: &Case) -> uri::Rsync {
    ca_repo(c).join(b"obj.roa").unwrap()
}

fn config_for(c: &Case, dir: &std::path::Path, srv: &HttpsServer, prepare: bool) -> routinator::config::Config {
    let mut config = client_config(dir, srv);
    config.rrdp_fallback = match c.policy {
        Policy::Never => FallbackPolicy::Never,
        Policy::Stale => FallbackPolicy::Stale,
        Policy::New => FallbackPolicy::New,
    };
    if c.outcome == RrdpOutcome::FailedExpired || (c.outcome == RrdpOutcome::FailedRefreshed && prepare) {
        config.refresh = Duration::from_secs(1);
        config.rrdp_fallback_time = Duration::from_secs(1);
    } else {
        config.refresh = Duration::from_secs(3600);
        config.rrdp_fallback_time = Duration::from_secs(7200);
    }
    if prepare {
        config.disable_rrdp = false;
        config.disable_rsync = true;
    } else {
        config.disable_rrdp = !c.rrdp_on;
        config.disable_rsync = !c.rsync_on;
    }
    config
}

fn prepare(case: &Case, srv: &HttpsServer) -> Cell {
    let dir = tempfile::Builder::new().prefix("c29-").tempdir_in(scratch_base()).expect("tmp");
    let mut server = RrdpServer::new(&rrdp_host(case), &case.base, 29);
    server.publish(obj_uri(case).as_str(), Bytes::from_static(b"rrdp copy of the object"));
    // rsync side
    let moddir = dir.path().join("srv").join(rsync_host(case)).join(&case.module).join("ca");
    std::fs::create_dir_all(&moddir).unwrap();
    std::fs::write(moddir.join("obj.roa"), b"rsync copy of the object").unwrap();
    let mut cell = Cell { case: case.clone(), dir, server, prepared_at: None, prep_error: None };
    if matches!(case.outcome, RrdpOutcome::FailedCurrent | RrdpOutcome::FailedExpired | RrdpOutcome::FailedRefreshed) {
        // an earlier successful update creates the local copy
        cell.server.install(srv);
        let config = config_for(case, cell.dir.path(), srv, true);
        let ca = ta_ca_cert(2, &ca_repo(case), Some(&cell.server.notify_uri()));
        let ok = (|| {
            let mut collector = Collector::new(&config).map_err(|_| "collector")?;
            collector.ignite().map_err(|_| "ignite")?;
            let run = collector.start();
            match run.repository(&ca) {
                Ok(Some(r)) if r.is_rrdp() => Ok(()),
                _ => Err("preparatory update did not succeed"),
            }
        })();
        if let Err(e) = ok {
            cell.prep_error = Some(e.to_string());
        }
        cell.prepared_at = Some(Instant::now());
    }
    cell
}

fn judge(cell: &Cell, srv: &HttpsServer, info: &mut CaseInfo) -> Verdict {
    let c = &cell.case;
    info.nt(true);
    info.class(format!("policy:{:?}", c.policy));
    info.class(format!("outcome:{:?}", c.outcome));
    info.class(format!("expected:{:?}", expected(c)));
    if let Some(e) = &cell.prep_error {
        return Verdict::Dropped(format!("prepare:{}", e));
    }
    let host = rrdp_host(c);
    if c.outcome == RrdpOutcome::FailedRefreshed {
        // the copy made under refresh = fallback-time = 1 s has expired by now (shared wait); a successful
        // update that finds nothing new must make it current again
        if let Some(t) = cell.prepared_at {
            if t.elapsed() < Duration::from_millis(3000) {
                return Verdict::Dropped("expiry_wait_too_short".into());
            }
        }
        let config = config_for(c, cell.dir.path(), srv, false);
        let mut config = config;
        config.disable_rrdp = false;
        config.disable_rsync = true;
        match archive_state(&config, &cell.server.notify_uri()) {
            Ok(Some(st)) if st.is_expired() => {}
            Ok(Some(_)) => return Verdict::Dropped("precondition_copy_not_expired_before_refresh".into()),
            _ => return Verdict::Dropped("precondition_no_copy".into()),
        }
        cell.server.install(srv);
        let ca = ta_ca_cert(2, &ca_repo(c), Some(&cell.server.notify_uri()));
        let refreshed = (|| {
            let mut collector = Collector::new(&config).map_err(|_| "collector")?;
            collector.ignite().map_err(|_| "ignite")?;
            let run = collector.start();
            match run.repository(&ca) {
                Ok(Some(r)) if r.is_rrdp() => Ok(()),
                _ => Err("refresh update did not succeed"),
            }
        })();
        if let Err(e) = refreshed {
            return Verdict::Dropped(format!("prepare:{}", e));
        }
    }
    // script the server for the run under test
    match c.outcome {
        RrdpOutcome::Updated => {
            // for cells without a copy this is a snapshot update; otherwise there would be nothing to do
            cell.server.install(srv);
        }
        _ => {
            srv.clear_host(&host);
            match c.failure % 4 {
                0 => srv.set(&host, &cell.server.notify_path(), Resp::status(500)),
                1 => srv.set(&host, &cell.server.notify_path(), Resp::status(404)),
                2 => {
                    let n = cell.server.notification_xml();
                    let half = n.len() / 2;
                    srv.set(&host, &cell.server.notify_path(), Resp::ok(n).drop_after(half));
                }
                _ => {
                    // notification of a NEW session (so a snapshot is needed) whose snapshot is missing
                    let mut s2 = RrdpServer::new(&host, &c.base, 2929);
                    s2.new_session();
                    s2.publish(obj_uri(c).as_str(), Bytes::from_static(b"never served"));
                    srv.set(&host, &s2.notify_path(), Resp::ok(s2.notification_xml()));
                    srv.set(&host, &s2.snapshot_path(), Resp::status(404));
                }
            }
        }
    }
    // clock bracket
    if let Some(t) = cell.prepared_at {
        let age = t.elapsed();
        match c.outcome {
            RrdpOutcome::FailedExpired if age < Duration::from_millis(3000) => return Verdict::Dropped("expiry_wait_too_short".into()),
            RrdpOutcome::FailedCurrent if age > Duration::from_secs(900) => return Verdict::Dropped("current_copy_too_old".into()),
            _ => {}
        }
    }
    let config = config_for(c, cell.dir.path(), srv, false);
    // precondition check through routinator's own state record
    if matches!(c.outcome, RrdpOutcome::FailedCurrent | RrdpOutcome::FailedExpired) {
        // (not for FailedRefreshed: whether the refresh made the copy current again is what is judged)
        match archive_state(&config, &cell.server.notify_uri()) {
            Ok(Some(st)) => {
                let expired = st.is_expired();
                if expired != (c.outcome == RrdpOutcome::FailedExpired) {
                    return Verdict::Dropped(format!("precondition_expired_is_{}", expired));
                }
            }
            _ => return Verdict::Dropped("precondition_no_copy".into()),
        }
    }
    let notify = cell.server.notify_uri();
    let ca = ta_ca_cert(2, &ca_repo(c), if c.has_notify { Some(&notify) } else { None });
    let mut collector = match Collector::new(&config) {
        Ok(x) => x,
        Err(_) => return Verdict::Dropped("collector_new_failed".into()),
    };
    if collector.ignite().is_err() {
        return Verdict::Dropped("ignite_failed".into());
    }
    let https_before = srv.count(&host);
    let _ = std::fs::remove_file(cell.dir.path().join("rsync.log"));
    let run = collector.start();
    let res = run.repository(&ca);
    let got = match &res {
        Ok(Some(r)) if r.is_rrdp() => Transport::Rrdp,
        Ok(Some(_)) => Transport::Rsync,
        Ok(None) => Transport::Nothing,
        Err(_) => return Verdict::fail(format!("C29/run-failed/policy={:?}/outcome={:?}", c.policy, c.outcome), "Run::repository failed the run"),
    };
    let https_reqs = srv.count(&host) - https_before;
    let rsync_calls = rsync_log(cell.dir.path());
    let want = expected(c);
    let cellname = format!("policy={:?}/outcome={:?}/rrdp={}/rsync={}/notify={}", c.policy, c.outcome, c.rrdp_on, c.rsync_on, c.has_notify);
    let ctx_msg = format!("cell {} (failure mode {}, hosts {} / {}): expected {:?}, repository() gave {:?}; https requests {}, rsync invocations {:?}", cellname, c.failure % 4, host, rsync_host(c), want, got, https_reqs, rsync_calls);
    if got != want {
        return Verdict::fail(format!("C29/{}/expected={:?}/got={:?}", cellname, want, got), ctx_msg);
    }
    // a second CA announcing the same repository in the same run: the table applies to it as well
    // (the collector answers it from the outcome cached for the run)
    let ca2 = ta_ca_cert(3, &ca_repo(c), if c.has_notify { Some(&notify) } else { None });
    let got2 = match run.repository(&ca2) {
        Ok(Some(r)) if r.is_rrdp() => Transport::Rrdp,
        Ok(Some(_)) => Transport::Rsync,
        Ok(None) => Transport::Nothing,
        Err(_) => return Verdict::fail(format!("C29/run-failed/policy={:?}/outcome={:?}", c.policy, c.outcome), "Run::repository failed the run for the second CA of the repository"),
    };
    if got2 != want {
        return Verdict::fail(format!("C29/{}/second-ca-of-repository/expected={:?}/got={:?}", cellname, want, got2), format!("{}; a second CA with the same rpkiNotify / caRepository asked in the same run got {:?}", ctx_msg, got2));
    }
    let rsync_calls = rsync_log(cell.dir.path());
    // transports really exercised
    let module_line = format!("{}/{}", rsync_host(c), c.module);
    let rsync_used = rsync_calls.iter().any(|l| *l == module_line);
    if rsync_used != (want == Transport::Rsync) {
        return Verdict::fail(format!("C29/{}/rsync-invoked={}", cellname, rsync_used), ctx_msg);
    }
    if (!c.rrdp_on || !c.has_notify) && https_reqs > 0 {
        return Verdict::fail(format!("C29/{}/https-request-without-rrdp", cellname), ctx_msg);
    }
    if c.rrdp_on && c.has_notify && https_reqs == 0 {
        return Verdict::fail(format!("C29/{}/no-rrdp-attempt", cellname), ctx_msg);
    }
    // the handed-out repository serves the transport's copy
    if let Ok(Some(r)) = &res {
        let obj = r.load_object(&obj_uri(c)).ok().flatten();
        let want_bytes: &[u8] = if want == Transport::Rrdp { b"rrdp copy of the object" } else { b"rsync copy of the object" };
        if obj.as_deref() != Some(want_bytes) {
            return Verdict::fail(format!("C29/{}/object-from-wrong-transport", cellname), format!("{}; object read: {:?}", ctx_msg, obj.map(|b| String::from_utf8_lossy(&b).into_owned())));
        }
    }
    Verdict::Pass
}

fn label(words: &mut impl Iterator<Item = String>) -> String {
    words.next().unwrap_or_else(|| "x".into())
}

fn all_cases(ctx: &Ctx, variations: usize) -> Vec<Case> {
    use proptest::prelude::*;
    let n = 120 * variations * 4;
    let strat = "[a-z][a-z0-9]{0,7}(-[a-z0-9]{1,4})?";
    let mut words = sample_strategy(&strat.prop_map(|s: String| s), ctx.seed_for("names"), n).into_iter();
    let mut res = Vec::new();
    let mut k = 0u32;
    for v in 0..variations as u32 {
        for policy in [Policy::Never, Policy::Stale, Policy::New] {
            for outcome in [RrdpOutcome::Updated, RrdpOutcome::FailedCurrent, RrdpOutcome::FailedExpired, RrdpOutcome::FailedNoCopy, RrdpOutcome::FailedRefreshed] {
                for rrdp_on in [true, false] {
                    for rsync_on in [true, false] {
                        for has_notify in [true, false] {
                            k += 1;
                            res.push(Case {
                                policy,
                                outcome,
                                rrdp_on,
                                rsync_on,
                                has_notify,
                                // the counter keeps hosts distinct inside one run (one shared HTTPS server)
                                rrdp_label: format!("{}{}", label(&mut words), k),
                                rsync_label: format!("{}{}", label(&mut words), k),
                                module: label(&mut words),
                                base: label(&mut words),
                                // spread the four failure modes over the cells that attempt RRDP (odd k within each block of 8)
                                failure: ((k / 8 + k / 32 + (k % 8) / 2 + v) % 4) as u8,
                            });
                        }
                    }
                }
            }
        }
    }
    res
}

fn run_cells(ctx: &Ctx, rep: &mut Report, cases: &[Case]) {
    let srv = HttpsServer::start();
    let mut cells: Vec<Cell> = cases.iter().map(|c| prepare(c, &srv)).collect();
    // the one wait that lets the refresh=1s copies expire (best-before is at most 2 s after the update)
    let expiring = |o: RrdpOutcome| matches!(o, RrdpOutcome::FailedExpired | RrdpOutcome::FailedRefreshed);
    if cells.iter().any(|c| expiring(c.case.outcome)) {
        let newest = cells.iter().filter(|c| expiring(c.case.outcome)).filter_map(|c| c.prepared_at).max();
        if let Some(t) = newest {
            let need = Duration::from_millis(3500);
            if t.elapsed() < need {
                std::thread::sleep(need - t.elapsed());
            }
        }
    }
    for cell in cells.drain(..) {
        let mut info = CaseInfo::default();
        let v = judge(&cell, &srv, &mut info);
        let tagged = Tagged { sub: "cells".to_string(), case: cell.case.clone() };
        rep.record(ctx, &tagged, &info, &v);
        if rep.violated() {
            break;
        }
    }
}

pub fn run(ctx: &Ctx, rep: &mut Report, replay: Option<&serde_json::Value>) {
    rep.rule("exhaustive product policy{never,stale,new} x RRDP outcome{updated, failed+current copy, failed+expired copy, failed+no copy, failed+copy that expired and was then confirmed by a successful no-change update} x rrdp{on,off} x rsync{on,off} x CA{with,without rpkiNotify} = 120 cells, each with generated host/module/path names and one of four failure modes (500, 404, connection drop on the notification; new-session notification whose snapshot is 404); copies made by a real earlier update, expiry by refresh=1s + rrdp-fallback-time=1s and one shared 3.5 s wait (precondition re-read from routinator's own state record); observed: Run::repository result (is_rrdp / rsync / None), fake-rsync invocation log, HTTPS request log, bytes of the object read through the handed-out repository; every cell is non-trivial; distinct by cell + names");
    rep.assume("expected transport = table of the property statement and manual page (--rrdp-fallback); fake rsync transport (rvrsync) and in-harness HTTPS server are faithful");
    if let Some(v) = replay {
        let t: Tagged<Case> = serde_json::from_value(v.clone()).expect("replay");
        run_cells(ctx, rep, std::slice::from_ref(&t.case));
        return;
    }
    let cases = all_cases(ctx, ctx.tier.pick(1, 6));
    run_cells(ctx, rep, &cases);
    rep.exhaustive = Some(!rep.violated() && rep.dropped.is_empty());
}
