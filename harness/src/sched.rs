//! E-sched: harness-owned schedules over real threads (DESIGN §0.7).
//!
//! Participating threads are real OS threads that run real routinator functions. Every time such a
//! thread passes a `routinator::verif::yield_point` (explicit yield points and, because the thread
//! called `set_controlled(true)`, every try-lock attempt inside `utils::sync::{Mutex,RwLock}` and
//! `SharedHistory::{read,write}`) it parks until the scheduler picks it again. Exactly one
//! participant runs at a time, so every explored interleaving is a sequentially consistent
//! execution of the unmodified code that the OS scheduler could also produce.
//!
//! The schedule is a sequence of choices "which enabled thread runs next", taken from a
//! [`Chooser`]: [`BytesChooser`] (a generated, shrinkable `Vec<u8>`) or [`Dfs`] (exhaustive
//! enumeration of all schedules). A thread whose try-lock failed (it came back to the same
//! `sync.*` / `history.*` label without any other thread having run in between) is *disabled*
//! until some other thread makes a step: re-running it would be a stutter step that changes
//! nothing. This keeps the schedule tree finite.
//!
//! Usage:
//! ```ignore
//! sched::install();                                   // once per process, idempotent
//! let out = sched::run(vec![Box::new(|| { .. }), ..], &mut chooser, &mut |trace| { /* invariant, all parked */ Ok(()) });
//! ```
//! Inside a participant `sched::note("text")` appends an annotation to the trace and
//! `sched::yield_now("label")` is a harness-level yield point.
//!
//! Threads that are not participants (tokio workers, other checks running in parallel) pass through
//! the yield callback untouched, and several `run`s may be active concurrently in one process.

use std::cell::RefCell;
use std::sync::{Arc, Condvar, Mutex, Once};

/// One entry of the execution trace.
#[derive(Clone, Debug, PartialEq, Eq)]
pub enum Event {
    /// Thread `tid` was picked while parked at `label` ("start" for its first step).
    Step { tid: usize, label: &'static str },
    /// Annotation written by thread `tid` while it was running.
    Note { tid: usize, text: String },
    /// Thread `tid` finished.
    Done { tid: usize },
}

#[derive(Clone, Copy, Debug, PartialEq, Eq)]
enum TState {
    /// Parked at a yield point.
    Waiting(&'static str),
    Running,
    Done,
}

struct Inner {
    threads: Vec<TState>,
    /// Label the thread was resumed from (to detect failed try-locks).
    resumed_from: Vec<Option<&'static str>>,
    /// Thread stutters: came back to the same lock label and nobody else has moved since.
    stutter: Vec<bool>,
    trace: Vec<Event>,
    panics: Vec<(usize, String)>,
    /// Set when the run is abandoned: parked threads run free.
    abort: bool,
    /// If set, only these labels are subject to stutter detection (see [`Opts`]).
    stutter_labels: Option<&'static [&'static str]>,
    /// Consecutive returns to the same label after which a thread counts as blocked (see [`Opts`]).
    stutter_after: usize,
    /// Consecutive returns of a thread to the label it was resumed from.
    returns: Vec<usize>,
    /// The thread's last step certainly made progress (it parked at a different label or finished).
    definite: Vec<bool>,
}

struct Shared {
    m: Mutex<Inner>,
    cv: Condvar,
}

thread_local! {
    static PARTICIPANT: RefCell<Option<(Arc<Shared>, usize)>> = const { RefCell::new(None) };
}

fn is_lock_label(label: &str) -> bool {
    label.starts_with("sync.") || label.starts_with("history.")
}

fn park(label: &'static str) {
    let me = PARTICIPANT.with(|p| p.borrow().clone());
    let Some((sh, tid)) = me else { return };
    let mut g = sh.m.lock().unwrap_or_else(|e| e.into_inner());
    if g.abort {
        return;
    }
    let may_block = match g.stutter_labels {
        Some(list) => list.contains(&label),
        None => is_lock_label(label),
    };
    let same = may_block && g.resumed_from[tid] == Some(label);
    if same {
        g.returns[tid] += 1;
    } else {
        g.returns[tid] = 0;
    }
    g.definite[tid] = !same;
    g.stutter[tid] = same && g.returns[tid] >= g.stutter_after.max(1);
    g.threads[tid] = TState::Waiting(label);
    sh.cv.notify_all();
    while g.threads[tid] != TState::Running && !g.abort {
        g = sh.cv.wait(g).unwrap_or_else(|e| e.into_inner());
    }
}

/// Installs the process-global yield callback (idempotent).
pub fn install() {
    static ONCE: Once = Once::new();
    ONCE.call_once(|| {
        routinator::verif::set_yield_callback(Some(Arc::new(|label: &'static str| park(label))));
    });
}

/// Harness-level yield point (no-op outside a participant thread).
pub fn yield_now(label: &'static str) {
    park(label)
}

/// Appends an annotation to the trace (no-op outside a participant thread).
pub fn note(text: impl Into<String>) {
    PARTICIPANT.with(|p| {
        if let Some((sh, tid)) = p.borrow().as_ref() {
            let mut g = sh.m.lock().unwrap_or_else(|e| e.into_inner());
            g.trace.push(Event::Note { tid: *tid, text: text.into() });
        }
    });
}

/// Source of scheduling decisions.
pub trait Chooser {
    /// Picks one of `enabled.len()` (>= 1) enabled threads; `enabled[i] = (tid, label it is parked at)`.
    /// Must return a value `< enabled.len()`.
    fn choose(&mut self, enabled: &[(usize, &'static str)]) -> usize;
}

/// Choices from a byte string (`byte % n`); after the string is used up the lowest enabled thread runs.
pub struct BytesChooser<'a> {
    pub bytes: &'a [u8],
    pub pos: usize,
}

impl<'a> BytesChooser<'a> {
    pub fn new(bytes: &'a [u8]) -> Self {
        BytesChooser { bytes, pos: 0 }
    }
}

impl Chooser for BytesChooser<'_> {
    fn choose(&mut self, enabled: &[(usize, &'static str)]) -> usize {
        let c = self.bytes.get(self.pos).copied().unwrap_or(0) as usize;
        self.pos += 1;
        c % enabled.len()
    }
}

/// Depth-first enumeration of all schedules: call `run` repeatedly with the same `Dfs` while
/// `advance()` returns true.
#[derive(Default)]
pub struct Dfs {
    /// (choice taken, number of options) per decision of the current schedule.
    stack: Vec<(usize, usize)>,
    pos: usize,
}

impl Dfs {
    pub fn new() -> Self {
        Dfs::default()
    }
    /// Prepares the next schedule; false when the tree is exhausted.
    pub fn advance(&mut self) -> bool {
        self.stack.truncate(self.pos.min(self.stack.len()));
        while let Some((c, n)) = self.stack.pop() {
            if c + 1 < n {
                self.stack.push((c + 1, n));
                self.pos = 0;
                return true;
            }
        }
        self.pos = 0;
        false
    }
    /// The choices of the schedule just executed (for replay through `BytesChooser`).
    pub fn choices(&self) -> Vec<u8> {
        self.stack.iter().map(|(c, _)| *c as u8).collect()
    }
}

impl Chooser for Dfs {
    fn choose(&mut self, enabled: &[(usize, &'static str)]) -> usize {
        let n = enabled.len();
        let c = if self.pos < self.stack.len() {
            // Replaying the prefix: the tree is deterministic, so n must agree.
            let (c, n0) = self.stack[self.pos];
            if n0 != n {
                // Non-deterministic program: fall back to a valid choice and fix the record.
                self.stack[self.pos] = (c.min(n - 1), n);
                self.stack.truncate(self.pos + 1);
            }
            self.stack[self.pos].0
        } else {
            self.stack.push((0, n));
            0
        };
        self.pos += 1;
        c
    }
}

/// Result of one scheduled execution.
#[derive(Debug)]
pub struct Outcome {
    pub trace: Vec<Event>,
    /// Number of scheduling decisions taken.
    pub steps: usize,
    /// Panics of participant threads (tid, message).
    pub panics: Vec<(usize, String)>,
    /// All live threads were blocked on locks and could not progress.
    pub deadlock: bool,
    /// The step bound was hit (schedule abandoned, threads ran free to completion).
    pub diverged: bool,
    /// Error returned by the `on_step` observer (execution was finished uncontrolled).
    pub observer_error: Option<String>,
}

pub type Job = Box<dyn FnOnce() + Send + 'static>;

/// Worker threads are reused between runs (spawning 2-4 threads per schedule dominates otherwise).
struct Worker {
    tx: std::sync::mpsc::Sender<Job>,
}

static POOL: Mutex<Vec<Worker>> = Mutex::new(Vec::new());

fn take_worker() -> Worker {
    if let Some(w) = POOL.lock().unwrap_or_else(|e| e.into_inner()).pop() {
        return w;
    }
    let (tx, rx) = std::sync::mpsc::channel::<Job>();
    std::thread::Builder::new()
        .name("sched-worker".into())
        .spawn(move || {
            while let Ok(job) = rx.recv() {
                job();
            }
        })
        .expect("spawn sched worker");
    Worker { tx }
}

/// Maximum scheduling decisions per run.
pub const STEP_BOUND: usize = 100_000;

/// Runs `jobs` as controlled threads under `chooser`. `on_step` is called by the scheduler before
/// every decision and once after the last thread finished, while *all* participants are parked, so
/// it may inspect shared state race-free; returning `Err` abandons the schedule.
pub fn run(jobs: Vec<Job>, chooser: &mut dyn Chooser, on_step: &mut dyn FnMut(&[Event]) -> Result<(), String>) -> Outcome {
    run_opts(jobs, chooser, on_step, &Opts::default())
}

/// Options of [`run_opts`].
#[derive(Clone, Copy, Debug, Default)]
pub struct Opts {
    /// Labels at which a thread can really be blocked (a lock that some *parked* participant may
    /// hold across a yield point). `None` = every `sync.*` / `history.*` label (the default rule).
    /// With `Some(list)` a thread that comes back to a label outside the list is never taken for a
    /// failed try-lock: two consecutive acquisitions of *different* locks that share a label (e.g.
    /// `running.write()` followed by `updated.write()`, or `history.write` in `update` followed by
    /// `history.write` in `mark_update_done`) then stay two independently schedulable steps instead
    /// of the second one being disabled until another thread has moved.
    pub stutter_labels: Option<&'static [&'static str]>,
    /// How often a thread must come back to the same lock label in a row (nobody else having made
    /// progress) before it is taken for blocked. 0/1 = at once (the default rule). With 2, the first
    /// return is presumed to be progress (a second lock with the same label), so the thread stays
    /// schedulable once more; if it really was a failed try-lock the retry fails again and the
    /// thread is disabled then. Costs one wasted step per blocked attempt, loses no schedule for
    /// pairs of same-label acquisitions.
    pub stutter_after: usize,
}

/// Like [`run`] with explicit options.
pub fn run_opts(jobs: Vec<Job>, chooser: &mut dyn Chooser, on_step: &mut dyn FnMut(&[Event]) -> Result<(), String>, opts: &Opts) -> Outcome {
    install();
    let n = jobs.len();
    let sh = Arc::new(Shared {
        m: Mutex::new(Inner {
            threads: vec![TState::Running; n],
            resumed_from: vec![None; n],
            stutter: vec![false; n],
            trace: Vec::new(),
            panics: Vec::new(),
            abort: false,
            stutter_labels: opts.stutter_labels,
            stutter_after: opts.stutter_after,
            returns: vec![0; n],
            definite: vec![true; n],
        }),
        cv: Condvar::new(),
    });
    let mut workers = Vec::new();
    for (tid, job) in jobs.into_iter().enumerate() {
        let sh2 = sh.clone();
        let w = take_worker();
        let body: Job = Box::new(move || {
            PARTICIPANT.with(|p| *p.borrow_mut() = Some((sh2.clone(), tid)));
            routinator::verif::set_controlled(true);
            park("start");
            let res = std::panic::catch_unwind(std::panic::AssertUnwindSafe(job));
            routinator::verif::set_controlled(false);
            PARTICIPANT.with(|p| *p.borrow_mut() = None);
            let mut g = sh2.m.lock().unwrap_or_else(|e| e.into_inner());
            if let Err(e) = res {
                let msg = e.downcast_ref::<String>().cloned().or_else(|| e.downcast_ref::<&str>().map(|s| s.to_string())).unwrap_or_else(|| "panic".into());
                g.panics.push((tid, msg));
            }
            g.threads[tid] = TState::Done;
            g.definite[tid] = true;
            g.trace.push(Event::Done { tid });
            sh2.cv.notify_all();
        });
        w.tx.send(body).expect("worker alive");
        workers.push(w);
    }
    let mut steps = 0usize;
    let mut deadlock = false;
    let mut diverged = false;
    let mut observer_error = None;
    let mut free_rounds = 0usize;
    loop {
        let mut g = sh.m.lock().unwrap_or_else(|e| e.into_inner());
        while g.threads.iter().any(|t| *t == TState::Running) {
            g = sh.cv.wait(g).unwrap_or_else(|e| e.into_inner());
        }
        if let Err(e) = on_step(&g.trace) {
            observer_error = Some(e);
            g.abort = true;
            sh.cv.notify_all();
            break;
        }
        let waiting: Vec<(usize, &'static str)> = g
            .threads
            .iter()
            .enumerate()
            .filter_map(|(i, t)| if let TState::Waiting(l) = t { Some((i, *l)) } else { None })
            .collect();
        if waiting.is_empty() {
            break;
        }
        let mut enabled: Vec<(usize, &'static str)> = waiting.iter().copied().filter(|(i, _)| !g.stutter[*i]).collect();
        if enabled.is_empty() {
            // Everybody came back to a lock label. Either a real deadlock or consecutive distinct
            // locks with the same label; give every thread another go a few times before giving up.
            free_rounds += 1;
            if free_rounds > 3 {
                deadlock = true;
                g.abort = true;
                sh.cv.notify_all();
                break;
            }
            for s in g.stutter.iter_mut() {
                *s = false;
            }
            for r in g.returns.iter_mut() {
                *r = 0;
            }
            enabled = waiting.clone();
        }
        if steps >= STEP_BOUND {
            diverged = true;
            g.abort = true;
            sh.cv.notify_all();
            break;
        }
        let c = chooser.choose(&enabled).min(enabled.len() - 1);
        let (tid, label) = enabled[c];
        steps += 1;
        g.trace.push(Event::Step { tid, label });
        g.resumed_from[tid] = Some(label);
        g.threads[tid] = TState::Running;
        sh.cv.notify_all();
        while g.threads[tid] == TState::Running {
            g = sh.cv.wait(g).unwrap_or_else(|e| e.into_inner());
        }
        // Only a real step (not a failed try-lock) can unblock the others; a stutter step only
        // disables the stuttering thread, so runs of stutter steps are finite.
        if g.definite[tid] {
            free_rounds = 0;
            for i in 0..n {
                if i != tid {
                    g.stutter[i] = false;
                    g.returns[i] = 0;
                }
            }
        }
    }
    if deadlock {
        // Participants may spin for ever; their workers are not reused.
        workers.clear();
    } else {
        // Wait until every participant has finished (after an abort they run free), then recycle.
        let mut g = sh.m.lock().unwrap_or_else(|e| e.into_inner());
        while g.threads.iter().any(|t| *t != TState::Done) {
            g = sh.cv.wait(g).unwrap_or_else(|e| e.into_inner());
        }
        drop(g);
        let mut pool = POOL.lock().unwrap_or_else(|e| e.into_inner());
        pool.extend(workers);
    }
    let g = sh.m.lock().unwrap_or_else(|e| e.into_inner());
    Outcome { trace: g.trace.clone(), steps, panics: g.panics.clone(), deadlock, diverged, observer_error }
}

/// Convenience: enumerate all schedules of a program (rebuilt by `make_jobs` for every schedule) up to
/// `max_schedules`; `each` gets the outcome and the choice string and returns false to stop.
/// Returns (schedules run, exhausted the tree).
pub fn explore_all(
    max_schedules: usize,
    mut make_jobs: impl FnMut() -> Vec<Job>,
    mut on_step: impl FnMut(&[Event]) -> Result<(), String>,
    mut each: impl FnMut(Outcome, Vec<u8>) -> bool,
) -> (usize, bool) {
    let mut dfs = Dfs::new();
    let mut count = 0usize;
    loop {
        let out = run(make_jobs(), &mut dfs, &mut on_step);
        count += 1;
        let choices = dfs.choices();
        if !each(out, choices) {
            return (count, false);
        }
        if !dfs.advance() {
            return (count, true);
        }
        if count >= max_schedules {
            return (count, false);
        }
    }
}
