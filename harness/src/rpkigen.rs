//! E-rpki object factory: issues RPKI objects with rpki's own builders over a committed key pool.

use std::net::IpAddr;
use std::sync::atomic::{AtomicUsize, Ordering};
use std::sync::OnceLock;

use bytes::Bytes;
use rpki::crypto::keys::{PublicKey, PublicKeyFormat};
use rpki::crypto::signature::{Signature, SignatureAlgorithm};
use rpki::crypto::signer::{KeyError, Signer, SigningError};
use rpki::crypto::softsigner::{KeyId, OpenSslSigner};
use rpki::crypto::DigestAlgorithm;
use rpki::repository::aspa::AspaBuilder;
use rpki::repository::cert::{ExtendedKeyUsage, KeyUsage, Overclaim, TbsCert};
use rpki::repository::crl::{CrlEntry, TbsCertList};
use rpki::repository::manifest::{FileAndHash, ManifestContent};
use rpki::repository::resources::{AsBlock, AsBlocksBuilder, IpBlock, Prefix as ResPrefix};
use rpki::repository::roa::RoaBuilder;
use rpki::repository::sigobj::SignedObjectBuilder;
use rpki::repository::x509::{Serial, Time, Validity};
use rpki::resources::asn::Asn;
use rpki::uri;

use crate::core::verif_dir;

pub const N_CA_KEYS: usize = 40;
pub const N_EE_KEYS: usize = 24;
pub const N_EC_KEYS: usize = 4;

/// Signer over the committed key pool. `sign_one_off` draws EE keys round-robin from the pool
/// instead of generating a fresh RSA key per signed object.
pub struct PoolSigner {
    inner: OpenSslSigner,
    pub ca_keys: Vec<KeyId>,
    ee_keys: Vec<KeyId>,
    pub ec_pub: Vec<PublicKey>,
    next_ee: AtomicUsize,
}

impl PoolSigner {
    fn load() -> Self {
        let inner = OpenSslSigner::new();
        let dir = verif_dir().join("assets/keys");
        let mut ca_keys = Vec::new();
        let mut ee_keys = Vec::new();
        for i in 0..(N_CA_KEYS + N_EE_KEYS) {
            let pem = std::fs::read(dir.join(format!("rsa{:02}.pem", i))).unwrap_or_else(|e| panic!("key pool rsa{:02}.pem: {}", i, e));
            let id = inner.key_from_pem(&pem).expect("pool key loads");
            if i < N_CA_KEYS {
                ca_keys.push(id)
            } else {
                ee_keys.push(id)
            }
        }
        let mut ec_pub = Vec::new();
        for i in 0..N_EC_KEYS {
            let pem = std::fs::read(dir.join(format!("ec{}.pem", i))).expect("ec key");
            let key = openssl::pkey::PKey::private_key_from_pem(&pem).expect("ec pem");
            let der = key.public_key_to_der().expect("ec pub der");
            ec_pub.push(PublicKey::decode(Bytes::from(der)).expect("ec public key decodes"));
        }
        PoolSigner { inner, ca_keys, ee_keys, ec_pub, next_ee: AtomicUsize::new(0) }
    }

    pub fn pubkey(&self, ca_key: usize) -> PublicKey {
        self.inner.get_key_info(&self.ca_keys[ca_key]).expect("key info")
    }
}

impl Signer for PoolSigner {
    type KeyId = KeyId;
    type Error = std::io::Error;

    fn create_key(&self, algorithm: PublicKeyFormat) -> Result<Self::KeyId, Self::Error> {
        self.inner.create_key(algorithm)
    }
    fn get_key_info(&self, key: &Self::KeyId) -> Result<PublicKey, KeyError<Self::Error>> {
        self.inner.get_key_info(key)
    }
    fn destroy_key(&self, key: &Self::KeyId) -> Result<(), KeyError<Self::Error>> {
        self.inner.destroy_key(key)
    }
    fn sign<Alg: SignatureAlgorithm, D: AsRef<[u8]> + ?Sized>(&self, key: &Self::KeyId, algorithm: Alg, data: &D) -> Result<Signature<Alg>, SigningError<Self::Error>> {
        self.inner.sign(key, algorithm, data)
    }
    fn sign_one_off<Alg: SignatureAlgorithm, D: AsRef<[u8]> + ?Sized>(&self, algorithm: Alg, data: &D) -> Result<(Signature<Alg>, PublicKey), Self::Error> {
        let idx = self.next_ee.fetch_add(1, Ordering::Relaxed) % self.ee_keys.len();
        let key = &self.ee_keys[idx];
        let sig = self.inner.sign(key, algorithm, data).map_err(|e| std::io::Error::other(format!("{}", e)))?;
        let info = self.inner.get_key_info(key).map_err(|e| std::io::Error::other(format!("{}", e)))?;
        Ok((sig, info))
    }
    fn rand(&self, target: &mut [u8]) -> Result<(), Self::Error> {
        self.inner.rand(target)
    }
}

pub fn signer() -> &'static PoolSigner {
    static S: OnceLock<PoolSigner> = OnceLock::new();
    S.get_or_init(PoolSigner::load)
}

//------------------------------------------------------------------------------------------
// Plain resource descriptions (serialisable through the scenario types that use them).

#[derive(Clone, Debug, PartialEq, Eq, serde::Serialize, serde::Deserialize)]
pub struct Res {
    /// (addr, len) prefixes.
    pub v4: Vec<(std::net::Ipv4Addr, u8)>,
    pub v6: Vec<(std::net::Ipv6Addr, u8)>,
    /// inclusive AS ranges
    pub asn: Vec<(u32, u32)>,
}

impl Res {
    pub fn apply(&self, cert: &mut TbsCert) {
        if !self.v4.is_empty() {
            cert.build_v4_resource_blocks(|b| {
                for (a, l) in &self.v4 {
                    b.push(IpBlock::from(ResPrefix::new(*a, *l)));
                }
            });
        }
        if !self.v6.is_empty() {
            cert.build_v6_resource_blocks(|b| {
                for (a, l) in &self.v6 {
                    b.push(IpBlock::from(ResPrefix::new(*a, *l)));
                }
            });
        }
        if !self.asn.is_empty() {
            cert.build_as_resource_blocks(|b| push_as(b, &self.asn));
        }
    }
}

fn push_as(b: &mut AsBlocksBuilder, ranges: &[(u32, u32)]) {
    for (lo, hi) in ranges {
        if lo == hi {
            b.push(AsBlock::from(Asn::from_u32(*lo)));
        } else {
            b.push(AsBlock::from((Asn::from_u32(*lo), Asn::from_u32(*hi))));
        }
    }
}

/// Time relative to the scenario's "now".
pub fn t(now: Time, off_secs: i64) -> Time {
    Time::new(chrono::DateTime::<chrono::Utc>::from(now) + chrono::Duration::seconds(off_secs))
}

pub fn validity(now: Time, from_off: i64, to_off: i64) -> Validity {
    Validity::new(t(now, from_off), t(now, to_off))
}

pub fn sha256(data: &[u8]) -> Vec<u8> {
    ring::digest::digest(&ring::digest::SHA256, data).as_ref().to_vec()
}

/// What an issuing CA needs to be known by.
#[derive(Clone, Debug)]
pub struct Issuer {
    pub key: usize,
    /// URI of the CA's own certificate (caIssuers of what it issues).
    pub cert_uri: uri::Rsync,
    pub crl_uri: uri::Rsync,
}

pub fn serial(n: u128) -> Serial {
    Serial::from(n)
}

/// Self-signed trust anchor certificate.
pub fn issue_ta(key: usize, res: &Res, val: Validity, ca_repository: &uri::Rsync, manifest: &uri::Rsync, notify: Option<&uri::Https>, serial_no: u128) -> Bytes {
    let s = signer();
    let pk = s.pubkey(key);
    let mut cert = TbsCert::new(serial(serial_no), pk.to_subject_name(), val, None, pk, KeyUsage::Ca, Overclaim::Refuse);
    cert.set_basic_ca(Some(true));
    cert.set_ca_repository(Some(ca_repository.clone()));
    cert.set_rpki_manifest(Some(manifest.clone()));
    cert.set_rpki_notify(notify.cloned());
    res.apply(&mut cert);
    cert.into_cert(s, &s.ca_keys[key]).expect("sign ta").to_captured().into_bytes()
}

/// TAL file text for the given URIs and key.
pub fn tal_text(uris: &[String], key: usize) -> String {
    let s = signer();
    let spki = s.pubkey(key).to_info_bytes();
    let b64 = rpki::util::base64::Xml.encode(&spki);
    let mut res = String::new();
    for u in uris {
        res.push_str(u);
        res.push('\n');
    }
    res.push('\n');
    res.push_str(&b64);
    res.push('\n');
    res
}

#[allow(clippy::too_many_arguments)]
pub fn issue_ca_cert(issuer: &Issuer, child_key: usize, res: &Res, val: Validity, ca_repository: Option<&uri::Rsync>, manifest: Option<&uri::Rsync>, notify: Option<&uri::Https>, serial_no: u128, crl_uri_override: Option<&uri::Rsync>) -> Bytes {
    let s = signer();
    let pk = s.pubkey(child_key);
    let issuer_pk = s.pubkey(issuer.key);
    let mut cert = TbsCert::new(serial(serial_no), issuer_pk.to_subject_name(), val, None, pk, KeyUsage::Ca, Overclaim::Refuse);
    cert.set_basic_ca(Some(true));
    cert.set_authority_key_identifier(Some(issuer_pk.key_identifier()));
    cert.set_ca_issuer(Some(issuer.cert_uri.clone()));
    cert.set_crl_uri(Some(crl_uri_override.cloned().unwrap_or_else(|| issuer.crl_uri.clone())));
    cert.set_ca_repository(ca_repository.cloned());
    cert.set_rpki_manifest(manifest.cloned());
    cert.set_rpki_notify(notify.cloned());
    res.apply(&mut cert);
    cert.into_cert(s, &s.ca_keys[issuer.key]).expect("sign ca").to_captured().into_bytes()
}

pub fn issue_router_cert(issuer: &Issuer, ec_key: usize, asns: &[(u32, u32)], val: Validity, serial_no: u128, with_eku: bool) -> Bytes {
    let s = signer();
    let pk = s.ec_pub[ec_key % s.ec_pub.len()].clone();
    let issuer_pk = s.pubkey(issuer.key);
    let mut cert = TbsCert::new(serial(serial_no), issuer_pk.to_subject_name(), val, None, pk, KeyUsage::Ee, Overclaim::Refuse);
    cert.set_authority_key_identifier(Some(issuer_pk.key_identifier()));
    cert.set_ca_issuer(Some(issuer.cert_uri.clone()));
    cert.set_crl_uri(Some(issuer.crl_uri.clone()));
    if with_eku {
        cert.set_extended_key_usage(Some(ExtendedKeyUsage::create_router()));
    }
    if !asns.is_empty() {
        cert.build_as_resource_blocks(|b| push_as(b, asns));
    }
    cert.into_cert(s, &s.ca_keys[issuer.key]).expect("sign router").to_captured().into_bytes()
}

fn sigobj(issuer: &Issuer, obj_uri: &uri::Rsync, val: Validity, serial_no: u128, crl_uri_override: Option<&uri::Rsync>) -> SignedObjectBuilder {
    SignedObjectBuilder::new(serial(serial_no), val, crl_uri_override.cloned().unwrap_or_else(|| issuer.crl_uri.clone()), issuer.cert_uri.clone(), obj_uri.clone())
}

/// ROA with (addr, len, maxlen) entries for `asn`.
pub fn issue_roa(issuer: &Issuer, obj_uri: &uri::Rsync, asn: u32, prefixes: &[(IpAddr, u8, Option<u8>)], val: Validity, serial_no: u128, crl_uri_override: Option<&uri::Rsync>) -> Bytes {
    let s = signer();
    let mut b = RoaBuilder::new(Asn::from_u32(asn));
    for (a, l, m) in prefixes {
        b.push_addr(*a, *l, *m);
    }
    b.finalize(sigobj(issuer, obj_uri, val, serial_no, crl_uri_override), s, &s.ca_keys[issuer.key]).expect("sign roa").to_captured().into_bytes()
}

pub fn issue_aspa(issuer: &Issuer, obj_uri: &uri::Rsync, customer: u32, providers: &[u32], val: Validity, serial_no: u128) -> Bytes {
    let s = signer();
    let b = AspaBuilder::new(Asn::from_u32(customer), providers.iter().map(|p| Asn::from_u32(*p)).collect::<Vec<_>>()).expect("distinct providers");
    b.finalize(sigobj(issuer, obj_uri, val, serial_no, None), s, &s.ca_keys[issuer.key]).expect("sign aspa").to_captured().into_bytes()
}

/// Ghostbusters record (payload-free signed object).
pub fn issue_gbr(issuer: &Issuer, obj_uri: &uri::Rsync, val: Validity, serial_no: u128) -> Bytes {
    let s = signer();
    let mut so = sigobj(issuer, obj_uri, val, serial_no, None);
    so.set_v4_resources_inherit();
    so.set_v6_resources_inherit();
    so.set_as_resources_inherit();
    let vcard = Bytes::from_static(b"BEGIN:VCARD\r\nVERSION:4.0\r\nFN:rv\r\nEND:VCARD\r\n");
    // id-ct-rpkiGhostbusters 1.2.840.113549.1.9.16.1.35
    let oid = bcder::Oid(Bytes::from_static(&[42, 134, 72, 134, 247, 13, 1, 9, 16, 1, 35]));
    let obj = so.finalize(oid, vcard, s, &s.ca_keys[issuer.key]).expect("sign gbr");
    bcder::Captured::from_values(bcder::Mode::Der, obj.encode_ref()).into_bytes()
}

pub fn issue_crl(issuer: &Issuer, this: Time, next: Time, revoked: &[u128], number: u128, sign_with: Option<usize>) -> Bytes {
    let s = signer();
    let issuer_pk = s.pubkey(issuer.key);
    let entries: Vec<CrlEntry> = revoked.iter().map(|r| CrlEntry::new(serial(*r), this)).collect();
    let list = TbsCertList::new(Default::default(), issuer_pk.to_subject_name(), this, next, entries, issuer_pk.key_identifier(), serial(number));
    list.into_crl(s, &s.ca_keys[sign_with.unwrap_or(issuer.key)]).expect("sign crl").to_captured().into_bytes()
}

#[allow(clippy::too_many_arguments)]
pub fn issue_manifest(issuer: &Issuer, mft_uri: &uri::Rsync, number: u128, this: Time, next: Time, entries: &[(String, Vec<u8>)], ee_val: Validity, serial_no: u128, crl_uri_override: Option<&uri::Rsync>) -> Bytes {
    let s = signer();
    let items: Vec<FileAndHash<Bytes, Bytes>> = entries.iter().map(|(n, h)| FileAndHash::new(Bytes::from(n.clone().into_bytes()), Bytes::from(h.clone()))).collect();
    let content = ManifestContent::new(serial(number), this, next, DigestAlgorithm::default(), items.iter());
    content.into_manifest(sigobj(issuer, mft_uri, ee_val, serial_no, crl_uri_override), s, &s.ca_keys[issuer.key]).expect("sign mft").to_captured().into_bytes()
}

/// Flips one byte inside the trailing signature of a DER object.
pub fn corrupt_signature(data: &Bytes) -> Bytes {
    let mut v = data.to_vec();
    let n = v.len();
    if n > 8 {
        v[n - 5] ^= 0x5A;
    }
    Bytes::from(v)
}
