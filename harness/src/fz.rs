//! Glue between rvcheck and the cargo-fuzz crate in `<verif>/fuzz`:
//! the quick tier replays the committed seed corpus through the same judge function the libFuzzer
//! target wraps; the thorough tier builds the target and runs a campaign bounded by `-runs`.

use std::path::{Path, PathBuf};
use std::process::Command;

use serde_json::json;

use crate::bx::Hex;
use crate::core::*;

pub fn corpus_dir(target: &str) -> PathBuf {
    verif_dir().join("corpus").join(target)
}

fn sorted_files(dir: &Path) -> Vec<PathBuf> {
    let mut v: Vec<PathBuf> = std::fs::read_dir(dir).map(|rd| rd.filter_map(|e| e.ok()).map(|e| e.path()).filter(|p| p.is_file()).collect()).unwrap_or_default();
    v.sort();
    v
}

/// Runs every committed corpus file of `target` through `judge` (sub-check name `corpus`).
pub fn replay_corpus<F>(ctx: &Ctx, rep: &mut Report, target: &str, judge: F)
where
    F: Fn(&[u8], &mut CaseInfo) -> Verdict,
{
    let files = sorted_files(&corpus_dir(target));
    rep.extra.insert(format!("corpus_files_{}", target), json!(files.len()));
    for f in files {
        if rep.violated() {
            return;
        }
        let Ok(data) = std::fs::read(&f) else { continue };
        run_case(ctx, rep, &format!("corpus:{}", target), &Hex(data), |d, i| {
            i.class(format!("corpus={}", target));
            judge(&d.0, i)
        });
    }
}

fn infra(msg: String) -> ! {
    eprintln!("{}", msg);
    std::process::exit(2)
}

fn fuzz_cmd(sub: &str, target: &str) -> Command {
    let mut c = Command::new("cargo");
    c.current_dir(verif_dir().join("harness"));
    c.env("CARGO_NET_OFFLINE", "true");
    c.args(["+nightly", "fuzz", sub, "-O", "--fuzz-dir"]).arg(verif_dir().join("fuzz")).arg(target);
    c
}

/// Builds `target` and runs `runs` executions seeded with VERIF_SEED from a fresh corpus directory plus
/// the committed seed corpus. A crash / timeout / oversized malloc found by libFuzzer is judged again by
/// `judge` outside libFuzzer (so it gets an exact key and a replay file); if `judge` does not reproduce
/// it, it is reported under `<id>/fuzz/<target>/not-reproduced-outside-libfuzzer` with the input kept.
pub fn campaign<F>(ctx: &Ctx, rep: &mut Report, target: &str, runs: u64, max_len: usize, judge: F)
where
    F: Fn(&[u8], &mut CaseInfo) -> Verdict,
{
    if rep.violated() {
        return;
    }
    let lock = verif_dir().join("fuzz").join("Cargo.lock");
    if !lock.exists() {
        let _ = std::fs::copy(verif_dir().join("harness").join("Cargo.lock"), &lock);
    }
    let out = fuzz_cmd("build", target).output().unwrap_or_else(|e| infra(format!("cannot run cargo fuzz build: {}", e)));
    if !out.status.success() {
        let err = String::from_utf8_lossy(&out.stderr);
        infra(format!("cargo fuzz build {} failed:\n{}", target, truncate(&err[err.len().saturating_sub(3000)..], 3000)));
    }
    let scratch = ctx.scratch();
    let work = scratch.path().join("corpus");
    let arts = scratch.path().join("artifacts");
    std::fs::create_dir_all(&work).unwrap();
    std::fs::create_dir_all(&arts).unwrap();
    let seed_dir = corpus_dir(target);
    let mut cmd = fuzz_cmd("run", target);
    cmd.arg(&work);
    if seed_dir.is_dir() {
        cmd.arg(&seed_dir);
    }
    let seed = ((ctx.seed_for(target) % 0xffff_fffe) + 1) as u32;
    cmd.arg("--")
        .arg(format!("-runs={}", runs))
        .arg(format!("-seed={}", seed))
        .arg(format!("-max_len={}", max_len))
        .arg("-len_control=0")
        // libFuzzer flags requests of >= N MiB; the property bound is "> 16 MiB", and the fuzz bodies skip
        // inputs whose length fields ask for more than 16 MiB (known shapes), so 17 flags only the unexpected
        .arg("-malloc_limit_mb=17")
        .arg("-rss_limit_mb=3000")
        .arg("-timeout=20")
        .arg("-print_final_stats=1")
        .arg(format!("-artifact_prefix={}/", arts.display()));
    let out = cmd.output().unwrap_or_else(|e| infra(format!("cannot run cargo fuzz run: {}", e)));
    let log = String::from_utf8_lossy(&out.stderr).into_owned();
    let stat = |name: &str| log.lines().find_map(|l| l.strip_prefix(&format!("stat::{}:", name)).map(|v| v.trim().to_string()));
    rep.extra.insert(
        format!("fuzz_{}", target),
        json!({"runs_requested": runs, "seed": seed, "executed_units": stat("number_of_executed_units"), "new_units_added": stat("new_units_added"), "exit_code": out.status.code(), "seed_corpus_files": sorted_files(&seed_dir).len()}),
    );
    // libFuzzer also drops informational `slow-unit-*` files there; only crash-class artifacts count
    let artifacts: Vec<PathBuf> = sorted_files(&arts)
        .into_iter()
        .filter(|p| p.file_name().and_then(|n| n.to_str()).map(|n| ["crash-", "oom-", "timeout-", "leak-"].iter().any(|pre| n.starts_with(pre))).unwrap_or(false))
        .collect();
    if out.status.success() && artifacts.is_empty() {
        return;
    }
    if artifacts.is_empty() {
        infra(format!("cargo fuzz run {} failed without an artifact (exit {:?}):\n{}", target, out.status.code(), truncate(&log[log.len().saturating_sub(3000)..], 3000)));
    }
    for a in artifacts {
        let data = std::fs::read(&a).unwrap_or_default();
        let keep = verif_dir().join("replays");
        let _ = std::fs::create_dir_all(&keep);
        let kept = keep.join(format!("{}-fuzz-{}-{}", ctx.id, target, a.file_name().and_then(|n| n.to_str()).unwrap_or("artifact")));
        let _ = std::fs::write(&kept, &data);
        let sub = format!("fuzz:{}", target);
        let before = rep.violations.len() + rep.known_hits.values().sum::<u64>() as usize;
        run_case(ctx, rep, &sub, &Hex(data.clone()), |d, i| judge(&d.0, i));
        let after = rep.violations.len() + rep.known_hits.values().sum::<u64>() as usize;
        if after == before {
            let tail = truncate(&log[log.len().saturating_sub(2500)..], 2500);
            let tagged = Tagged { sub: sub.clone(), case: Hex(data) };
            rep.failure(ctx, &tagged, &format!("{}/fuzz/{}/not-reproduced-outside-libfuzzer", ctx.id, target), &format!("libFuzzer stopped on {} (kept at {}) but the judge passes it; log tail:\n{}", a.display(), kept.display(), tail));
        }
    }
}
