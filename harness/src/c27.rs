//! C27 Corrupt local data never crashes Routinator.
//!
//! Every reader of local cache data (stored point header / manifest / objects / whole stored-point file,
//! store status, RRDP repository state, RRDP archive file) is run on truncations, bit flips, hostile
//! length / pointer fields and arbitrary bytes. The code under test never runs inside rvcheck: each case
//! is executed by a persistent worker process (`rvchild bytes-worker`) with
//!   * panics caught and reported,
//!   * a counting allocator that stops the worker (exit 77) at the first single request above
//!     max(16 MiB, 64 x input length) — the property's "far beyond the file's size" bound,
//!   * a CPU-time budget per case (SIGXCPU) and a wall-clock watchdog in the parent.
//! Inputs are pre-screened by the harness' own field walker / archive reader; shapes listed as known
//! findings are excluded from the bulk search by construction and one representative per key is run.

use std::cell::RefCell;
use std::collections::BTreeMap;
use std::path::Path;
use std::sync::{Arc, Mutex, OnceLock};

use proptest::prelude::*;
use routinator::collector::verif::RepositoryState;
use routinator::collector::RrdpArchive;
use routinator::store::{StoredManifest, StoredObject, StoredPoint, StoredPointHeader, StoredStatus};
use rpki::uri;
use serde::{Deserialize, Serialize};

use crate::bw::{Handled, Outcome, Worker};
use crate::bx::*;
use crate::core::*;

const OP_ARCHIVE: u8 = 6;
const CALL_VERIFY: u8 = 1;
const CALL_STATE: u8 = 2;
const CALL_LOAD: u8 = 4;
const CALL_OBJECTS: u8 = 8;
const CALL_ALL: u8 = 15;
/// Update operations on the (possibly damaged) archive, as the RRDP collector performs them when
/// the server has moved on: publish, update, delete, state rewrite. Run as a second pass.
const CALL_WRITE: u8 = 16;
const RRDP_META: u64 = 32;

//============ code under test, as run by the worker and by the libFuzzer targets ==================

fn work_dir() -> &'static Path {
    static D: OnceLock<tempfile::TempDir> = OnceLock::new();
    D.get_or_init(|| {
        let base = if Path::new("/dev/shm").is_dir() { "/dev/shm" } else { "/tmp" };
        tempfile::Builder::new().prefix("rv-C27-work-").tempdir_in(base).expect("scratch")
    })
    .path()
}

fn ok_err<T, E: std::fmt::Display>(r: Result<T, E>) -> Handled {
    match r {
        Ok(_) => Handled { status: 0, msg: String::new() },
        Err(e) => Handled { status: 1, msg: truncate(&e.to_string(), 200) },
    }
}

/// Runs the decoder for `rec` on `data`. Status 4 = the reader made no progress / yields without end.
pub fn decode_record(rec: Rec, data: &[u8]) -> Handled {
    let mut s = data;
    match rec {
        Rec::Header => ok_err(StoredPointHeader::read(&mut s)),
        Rec::Manifest => ok_err(StoredManifest::read(&mut s)),
        Rec::Status => ok_err(StoredStatus::read(&mut s)),
        Rec::State => ok_err(RepositoryState::verif_parse(&mut s)),
        Rec::Objects => {
            let mut n = 0usize;
            loop {
                let before = s.len();
                match StoredObject::read(&mut s) {
                    Ok(Some(_)) => n += 1,
                    Ok(None) => return Handled { status: 0, msg: format!("{} objects", n) },
                    Err(e) => return Handled { status: 1, msg: truncate(&e.to_string(), 200) },
                }
                if s.len() >= before {
                    return Handled { status: 4, msg: "StoredObject::read returned an object without consuming input".into() };
                }
            }
        }
        Rec::Point => {
            let path = work_dir().join("point.bin");
            if std::fs::write(&path, data).is_err() {
                return Handled { status: 1, msg: "harness: cannot write file".into() };
            }
            let Some(mut p) = StoredPoint::load_quietly(path) else { return Handled { status: 1, msg: "load_quietly: None".into() } };
            let mut n = 0usize;
            loop {
                match p.next() {
                    None => return Handled { status: 0, msg: format!("manifest={} objects={}", p.manifest().is_some(), n) },
                    Some(Err(e)) => return Handled { status: 1, msg: truncate(&e.to_string(), 200) },
                    Some(Ok(_)) => n += 1,
                }
                if n > data.len() + 1 {
                    return Handled { status: 4, msg: "stored point yields more objects than the file has bytes".into() };
                }
            }
        }
    }
}

/// Runs the RRDP archive readers selected by `calls` on the file at `path`.
pub fn read_archive(path: &Path, probes: &[uri::Rsync], calls: u8) -> Handled {
    if calls & CALL_WRITE != 0 {
        return write_archive(path, probes);
    }
    let file_len = std::fs::metadata(path).map(|m| m.len()).unwrap_or(0);
    let mut log = Vec::new();
    let mut any_err = false;
    if calls & CALL_VERIFY != 0 {
        match RrdpArchive::verify(path) {
            Ok(st) => log.push(format!("verify=ok({} objects)", st.object_count)),
            Err(e) => {
                any_err = true;
                log.push(format!("verify=err({})", e))
            }
        }
    }
    if calls & (CALL_STATE | CALL_LOAD | CALL_OBJECTS) != 0 {
        match RrdpArchive::open(Arc::new(path.to_path_buf())) {
            Err(e) => {
                any_err = true;
                log.push(format!("open=err(fatal={})", e.is_fatal()))
            }
            Ok(a) => {
                if calls & CALL_STATE != 0 {
                    match a.load_state() {
                        Ok(_) => log.push("state=ok".into()),
                        Err(e) => {
                            any_err = true;
                            log.push(format!("state=err(fatal={})", e.is_fatal()))
                        }
                    }
                }
                if calls & CALL_LOAD != 0 {
                    let (mut found, mut missing, mut errs) = (0, 0, 0);
                    for p in probes {
                        match a.load_object(p) {
                            Ok(Some(_)) => found += 1,
                            Ok(None) => missing += 1,
                            Err(_) => errs += 1,
                        }
                    }
                    any_err |= errs > 0;
                    log.push(format!("load=found{}/missing{}/err{}", found, missing, errs));
                }
                if calls & CALL_OBJECTS != 0 {
                    match a.objects() {
                        Err(e) => {
                            any_err = true;
                            log.push(format!("objects=err(fatal={})", e.is_fatal()))
                        }
                        Ok(iter) => {
                            let bound = file_len / OBJ_HEADER + 2;
                            let mut n = 0u64;
                            let mut err = false;
                            for item in iter {
                                n += 1;
                                if item.is_err() {
                                    err = true;
                                    break;
                                }
                                if n > bound {
                                    return Handled { status: 4, msg: format!("objects() yielded {} items from a file of {} bytes (at most {} fit): the iteration does not end", n, file_len, bound) };
                                }
                            }
                            any_err |= err;
                            log.push(format!("objects={}{}", n, if err { "+err" } else { "" }));
                        }
                    }
                }
            }
        }
    }
    Handled { status: if any_err { 1 } else { 0 }, msg: log.join(" ") }
}


/// The collector's update operations on the archive at `path`; every error is fine, only a panic,
/// an abort, an excessive allocation or a hang is not. New objects come in sizes from 1 byte to
/// 12 pages so that every free block of the file is a candidate for reuse.
pub fn write_archive(path: &Path, probes: &[uri::Rsync]) -> Handled {
    let mut a = match RrdpArchive::try_open(Arc::new(path.to_path_buf())) {
        Ok(Some(a)) => a,
        Ok(None) => return Handled { status: 1, msg: "try_open=none".into() },
        Err(e) => return Handled { status: 1, msg: format!("try_open=err(fatal={})", e.is_fatal()) },
    };
    let (mut ok, mut err) = (0u32, 0u32);
    let mut tally = |r: bool| if r { ok += 1 } else { err += 1 };
    // update / delete of what is there (the hash is read back through the archive itself)
    for (i, p) in probes.iter().enumerate() {
        let cur = match a.load_object(p) {
            Ok(Some(c)) => c,
            _ => continue,
        };
        let hash = rpki::rrdp::Hash::from_data(&cur);
        match i % 3 {
            0 => {
                let grown: Vec<u8> = cur.iter().copied().chain(std::iter::repeat(0x5a).take(300)).collect();
                tally(a.update_object(p, hash, &grown).is_ok());
            }
            1 => tally(a.delete_object(p, hash).is_ok()),
            _ => {
                let same: Vec<u8> = cur.iter().map(|b| b ^ 1).collect();
                tally(a.update_object(p, hash, &same).is_ok());
            }
        }
    }
    for (i, len) in [1usize, 100, 180, 200, 256, 300, 450, 500, 700, 960, 1000, 1200, 1500, 2000, 2500, 3000].iter().enumerate() {
        let uri = uri::Rsync::from_string(format!("rsync://h.example/m/w{}.cer", i)).unwrap();
        tally(a.publish_object(&uri, &vec![0x41 + i as u8; *len]).is_ok());
    }
    if let Ok(mut st) = a.load_state() {
        st.serial = st.serial.wrapping_add(1);
        tally(a.update_state(&st).is_ok());
    }
    drop(a);
    // what was written must be readable again without a crash
    let _ = RrdpArchive::verify(path);
    Handled { status: if err > 0 { 1 } else { 0 }, msg: format!("write ops ok={} err={}", ok, err) }
}

fn parse_archive_payload(payload: &[u8]) -> Option<(u8, Vec<Vec<u8>>, &[u8])> {
    let calls = *payload.first()?;
    let n = *payload.get(1)? as usize;
    let mut pos = 2;
    let mut probes = Vec::new();
    for _ in 0..n {
        let len = u16::from_ne_bytes(payload.get(pos..pos + 2)?.try_into().ok()?) as usize;
        pos += 2;
        probes.push(payload.get(pos..pos + len)?.to_vec());
        pos += len;
    }
    Some((calls, probes, &payload[pos..]))
}

fn archive_payload(calls: u8, probes: &[Vec<u8>], file: &[u8]) -> Vec<u8> {
    let mut p = vec![calls, probes.len() as u8];
    for pr in probes {
        p.extend_from_slice(&(pr.len() as u16).to_ne_bytes());
        p.extend_from_slice(pr);
    }
    p.extend_from_slice(file);
    p
}

fn handler(op: u8, payload: &[u8]) -> Handled {
    if op == OP_ARCHIVE {
        let Some((calls, probes, file)) = parse_archive_payload(payload) else { return Handled { status: 1, msg: "harness: bad payload".into() } };
        let path = work_dir().join("archive.bin");
        let _ = std::fs::remove_file(&path);
        if std::fs::write(&path, file).is_err() {
            return Handled { status: 1, msg: "harness: cannot write file".into() };
        }
        let probes: Vec<uri::Rsync> = probes.iter().filter_map(|p| uri::Rsync::from_slice(p).ok()).collect();
        return read_archive(&path, &probes, calls);
    }
    match Rec::from_id(op) {
        Some(rec) => decode_record(rec, payload),
        None => Handled { status: 1, msg: "harness: unknown op".into() },
    }
}

fn limit_of(op: u8, payload: &[u8]) -> usize {
    let len = if op == OP_ARCHIVE { parse_archive_payload(payload).map(|p| p.2.len()).unwrap_or(payload.len()) } else { payload.len() };
    alloc_limit(len) as usize
}

/// Entry of `rvchild bytes-worker [raw]`.
pub fn child_main(args: &[String]) {
    let raw = args.iter().any(|a| a == "raw");
    let _ = work_dir();
    crate::bw::serve(handler, limit_of, !raw, 2);
}

//============ parent side =========================================================================

pub fn site_key(site: Site) -> String {
    format!("C27/binio/{}/oversize-length", site.name())
}
pub const KEY_BUCKET_ZERO: &str = "C27/archive/bucket-count-zero";
pub const KEY_CYCLE_VERIFY: &str = "C27/archive/chain-cycle/verify";
pub const KEY_CYCLE_FIND: &str = "C27/archive/chain-cycle/find";
pub const KEY_CYCLE_OBJECTS: &str = "C27/archive/chain-cycle/objects";

fn hazard_key(h: &ArchHazard) -> &'static str {
    match h {
        ArchHazard::BucketCountZero => KEY_BUCKET_ZERO,
        ArchHazard::CycleVerify => KEY_CYCLE_VERIFY,
        ArchHazard::CycleFind(_) => KEY_CYCLE_FIND,
        ArchHazard::CycleObjects => KEY_CYCLE_OBJECTS,
    }
}

fn norm_panic(msg: &str) -> String {
    // "panicked at <file>:<line>:<col>:\n<text>" -> "<file basename>/<first words of text>"
    let (loc, text) = msg.split_once('\n').unwrap_or(("", msg));
    let file = loc.trim_start_matches("panicked at ").split(':').next().unwrap_or("").rsplit('/').next().unwrap_or("");
    let words: Vec<String> = text.split_whitespace().take(7).map(|w| w.chars().map(|c| if c.is_ascii_digit() { '#' } else { c }).filter(|c| c.is_ascii_alphanumeric() || *c == '#').collect::<String>()).collect();
    format!("{}/{}", file, words.join("-"))
}

fn effect(o: &Outcome) -> String {
    match o {
        Outcome::Done { status: 2, msg, .. } => format!("panic: {}", msg.replace('\n', " ")),
        Outcome::Done { status: 4, msg, .. } => msg.clone(),
        Outcome::Done { status, max_alloc, msg } => format!("returned status {} (largest single allocation {} bytes) {}", status, max_alloc, msg),
        Outcome::AllocCap { size } => format!("asked the allocator for {} bytes in one request (worker stopped before serving it)", size),
        Outcome::Died { signal, code, stderr } => format!("process died (signal {:?}, exit code {:?}) stderr: {}", signal, code, stderr),
        Outcome::Timeout => "no answer before the wall-clock watchdog".into(),
    }
}

fn is_bad(o: &Outcome) -> bool {
    !matches!(o, Outcome::Done { status: 0 | 1, .. })
}

pub struct Exec {
    worker: Mutex<Worker>,
    raw: Mutex<Worker>,
    excluded: RefCell<BTreeMap<String, u64>>,
    max_alloc: RefCell<BTreeMap<String, u64>>,
    /// unexpected failures that cost seconds each (CPU budget, watchdog): after a few of them further
    /// cases are dropped unexecuted so that shrinking a hang does not take hours
    slow: std::cell::Cell<u32>,
}

impl Exec {
    pub fn new(dir: &Path) -> Self {
        let d1 = dir.join("w1");
        let d2 = dir.join("w2");
        std::fs::create_dir_all(&d1).unwrap();
        std::fs::create_dir_all(&d2).unwrap();
        Exec { worker: Mutex::new(Worker::new(&d1, &["bytes-worker"])), raw: Mutex::new(Worker::new(&d2, &["bytes-worker", "raw"])), excluded: Default::default(), max_alloc: Default::default(), slow: Default::default() }
    }

    fn exclude(&self, key: &str) -> Verdict {
        *self.excluded.borrow_mut().entry(key.to_string()).or_default() += 1;
        Verdict::Dropped(format!("excluded-known-shape:{}", key))
    }

    fn note_alloc(&self, what: &str, o: &Outcome) {
        if let Outcome::Done { max_alloc, .. } = o {
            let mut m = self.max_alloc.borrow_mut();
            let e = m.entry(what.to_string()).or_default();
            *e = (*e).max(*max_alloc);
        }
    }

    pub fn flush(&self, rep: &mut Report) {
        for (k, n) in self.excluded.borrow_mut().iter() {
            *rep.excluded_known.entry(k.clone()).or_default() += *n;
        }
        self.excluded.borrow_mut().clear();
        rep.extra.insert("largest_single_allocation_seen_per_decoder".into(), serde_json::json!(*self.max_alloc.borrow()));
        rep.extra.insert("worker_spawns".into(), serde_json::json!(self.worker.lock().unwrap().spawns + self.raw.lock().unwrap().spawns));
    }

    /// Unexpected bad outcome of a case the pre-screen found clean.
    fn unexpected(&self, dec: &str, o: &Outcome, input: &[u8]) -> Verdict {
        let shown = format!("input ({} bytes) = {}", input.len(), truncate(&to_hex(input), 1200));
        match o {
            Outcome::Done { status: 2, msg, .. } => Verdict::fail(format!("C27/{}/panic/{}", dec, norm_panic(msg)), format!("{}; {}", effect(o), shown)),
            Outcome::Done { status: 4, .. } => Verdict::fail(format!("C27/{}/reader-does-not-end", dec), format!("{}; {}", effect(o), shown)),
            Outcome::AllocCap { .. } => Verdict::fail(format!("C27/{}/allocation-over-limit", dec), format!("{}; limit {} bytes; {}", effect(o), alloc_limit(input.len()), shown)),
            Outcome::Died { signal: Some(s), .. } if *s == libc::SIGXCPU => { self.slow.set(self.slow.get() + 1); Verdict::fail(format!("C27/{}/cpu-budget-exceeded", dec), format!("more than 2 s of CPU time on this input; {}", shown)) }
            Outcome::Died { signal, code, .. } => Verdict::fail(format!("C27/{}/died/signal={:?}/code={:?}", dec, signal, code), format!("{}; {}", effect(o), shown)),
            Outcome::Timeout => { self.slow.set(self.slow.get() + 1); Verdict::Dropped("worker_wall_clock_timeout".into()) }
            Outcome::Done { .. } => Verdict::Pass,
        }
    }

    /// One record-decoder case. `run_known`: execute even if the input has a known hazardous shape.
    pub fn judge_record(&self, rec: Rec, data: &[u8], mutated: bool, run_known: bool, info: &mut CaseInfo) -> Verdict {
        let limit = alloc_limit(data.len());
        let w = walk(rec, data, limit);
        info.class(format!("dec={}", rec.name()));
        if self.slow.get() >= 4 && !run_known {
            return Verdict::Dropped("slow-failure-budget-exhausted".into());
        }
        if let Stop::Oversize { site, field, value } = &w.stop {
            let key = site_key(*site);
            if !run_known && is_listed_known("C27", &key) {
                return self.exclude(&key);
            }
            let o = self.worker.lock().unwrap().exec(rec.id(), data);
            info.nt(true);
            return if is_bad(&o) {
                Verdict::fail(key, format!("decoder `{}`: length field `{}` = {} in an input of {} bytes: {}; input = {}", rec.name(), field, value, data.len(), effect(&o), truncate(&to_hex(data), 600)))
            } else {
                Verdict::Pass
            };
        }
        let o = self.worker.lock().unwrap().exec(rec.id(), data);
        self.note_alloc(rec.name(), &o);
        match &o {
            Outcome::Done { status, .. } if *status <= 1 => {
                info.class(if *status == 0 { "result=decoded" } else { "result=error-reported" });
                info.class(match &w.stop {
                    Stop::Done(_) => "walker=complete",
                    Stop::Eof(_) => "walker=eof",
                    Stop::Format(_) => "walker=format",
                    Stop::Oversize { .. } => "walker=oversize",
                });
                info.nt(w.fields_ok >= 1 && (mutated || *status == 1));
                // self-test of the walker: it must agree with the decoder on accept / reject
                let walker_ok = matches!(w.stop, Stop::Done(_)) || (matches!(rec, Rec::Objects | Rec::Point) && false);
                if matches!(rec, Rec::Header | Rec::Manifest | Rec::Status | Rec::State) && walker_ok != (*status == 0) {
                    return Verdict::Dropped(format!("walker_disagrees_with_decoder:{}", rec.name()));
                }
                Verdict::Pass
            }
            _ => self.unexpected(rec.name(), &o, data),
        }
    }

    /// One archive-file case.
    pub fn judge_archive(&self, file: &[u8], probes: &[Vec<u8>], calls: u8, run_known: bool, info: &mut CaseInfo) -> Verdict {
        info.class("dec=archive");
        if self.slow.get() >= 4 && !run_known {
            return Verdict::Dropped("slow-failure-budget-exhausted".into());
        }
        let limit = alloc_limit(file.len());
        let mut all_probes: Vec<Vec<u8>> = probes.to_vec();
        all_probes.push(b"state".to_vec());
        let mut known: Vec<String> = Vec::new();
        for h in archive_hazards(file, RRDP_META, &all_probes) {
            let relevant = match &h {
                ArchHazard::BucketCountZero => calls & (CALL_STATE | CALL_LOAD) != 0,
                ArchHazard::CycleVerify => calls & CALL_VERIFY != 0,
                ArchHazard::CycleFind(n) => {
                    if n == b"state" { calls & CALL_STATE != 0 } else { calls & CALL_LOAD != 0 }
                }
                ArchHazard::CycleObjects => calls & CALL_OBJECTS != 0,
            };
            if relevant {
                known.push(hazard_key(&h).to_string());
            }
        }
        let mut state_note = String::new();
        if calls & CALL_STATE != 0 {
            if let Some(a) = RawArchive::open(file) {
                if a.buckets != 0 && a.find_cycles(b"state") == Some(false) {
                    if let Some(content) = a.fetch(b"state", RRDP_META) {
                        if let Stop::Oversize { site, field, value } = walk(Rec::State, content, limit).stop {
                            known.push(site_key(site));
                            state_note = format!("state object: length field `{}` = {}; ", field, value);
                        }
                    }
                }
            }
        }
        if let Some(key) = known.first() {
            if !run_known && is_listed_known("C27", key) {
                return self.exclude(key);
            }
            let o = self.worker.lock().unwrap().exec(OP_ARCHIVE, &archive_payload(calls, probes, file));
            info.nt(true);
            return if is_bad(&o) {
                Verdict::fail(key.clone(), format!("archive file of {} bytes, reader calls {:#06b}: {}{}", file.len(), calls, state_note, effect(&o)))
            } else {
                Verdict::Pass
            };
        }
        let o = self.worker.lock().unwrap().exec(OP_ARCHIVE, &archive_payload(calls, probes, file));
        self.note_alloc("archive", &o);
        match &o {
            Outcome::Done { status, msg, .. } if *status <= 1 => {
                info.class(if *status == 0 { "result=all-readers-ok" } else { "result=error-reported" });
                let passed_magic = file.len() >= 30 && file[..6] == ARCH_MAGIC;
                info.nt(passed_magic && *status == 1);
                if msg.contains("state=ok") {
                    info.class("state=ok");
                }
                if calls == CALL_ALL && passed_magic {
                    // second pass: the collector's update operations on the same damaged file
                    let w = self.worker.lock().unwrap().exec(OP_ARCHIVE, &archive_payload(CALL_WRITE, probes, file));
                    self.note_alloc("archive-write", &w);
                    match &w {
                        Outcome::Done { status, msg, .. } if *status <= 1 => {
                            info.class(if msg.starts_with("try_open") { "write=not-opened" } else if *status == 0 { "write=all-ops-ok" } else { "write=some-ops-refused" });
                        }
                        _ => return self.unexpected("archive-write", &w, file),
                    }
                }
                Verdict::Pass
            }
            _ => self.unexpected("archive", &o, file),
        }
    }

    /// Runs `data` through the *uncapped* worker to record what the unprotected process does.
    pub fn raw_effect(&self, op: u8, payload: &[u8]) -> String {
        let o = self.raw.lock().unwrap().exec(op, payload);
        effect(&o)
    }
}

//============ cases ==============================================================================

/// Selects an element of a collection: `index(n) = value mod n`.
#[derive(Clone, Copy, Debug, PartialEq, Eq, Serialize, Deserialize)]
pub struct Index(pub u64);

impl Index {
    pub fn index(&self, n: usize) -> usize {
        if n == 0 { 0 } else { (self.0 % n as u64) as usize }
    }
}

fn ix() -> impl Strategy<Value = Index> {
    any::<u64>().prop_map(Index)
}

#[derive(Clone, Debug, Serialize, Deserialize)]
pub enum Base {
    Header(MHeader),
    Manifest(MManifest),
    Objects(Vec<MObject>),
    Status(MTime),
    State(MState),
    Point(MHeader, MManifest, Vec<MObject>),
}

impl Base {
    pub fn rec(&self) -> Rec {
        match self {
            Base::Header(_) => Rec::Header,
            Base::Manifest(_) => Rec::Manifest,
            Base::Objects(_) => Rec::Objects,
            Base::Status(_) => Rec::Status,
            Base::State(_) => Rec::State,
            Base::Point(..) => Rec::Point,
        }
    }
    pub fn encode(&self) -> Enc {
        match self {
            Base::Header(h) => enc_header(h),
            Base::Manifest(m) => enc_manifest(m),
            Base::Objects(os) => {
                let mut e = Enc::default();
                for o in os {
                    e.append(&enc_object(o));
                }
                e
            }
            Base::Status(t) => enc_status(t),
            Base::State(s) => enc_state(s),
            Base::Point(h, m, os) => {
                let mut e = enc_header(h);
                if h.success {
                    e.append(&enc_manifest(m));
                    for o in os {
                        e.append(&enc_object(o));
                    }
                }
                e
            }
        }
    }
}

/// Values written into length / count fields.
#[derive(Clone, Copy, Debug, PartialEq, Eq, Serialize, Deserialize)]
pub enum LenVal {
    Zero,
    One,
    ActualMinus1,
    ActualPlus1,
    RestPlus1,
    K64,
    Limit,
    LimitPlus1,
    Pow31,
    U32Max,
    Pow32,
    Pow40,
    Pow62,
    Pow63,
    U64MaxMinus1,
    U64Max,
}

impl LenVal {
    pub const ALL: [LenVal; 16] = [
        LenVal::Zero, LenVal::One, LenVal::ActualMinus1, LenVal::ActualPlus1, LenVal::RestPlus1, LenVal::K64, LenVal::Limit, LenVal::LimitPlus1, LenVal::Pow31, LenVal::U32Max, LenVal::Pow32, LenVal::Pow40,
        LenVal::Pow62, LenVal::Pow63, LenVal::U64MaxMinus1, LenVal::U64Max,
    ];
    fn value(self, actual: u64, rest: u64, total: usize) -> u64 {
        match self {
            LenVal::Zero => 0,
            LenVal::One => 1,
            LenVal::ActualMinus1 => actual.saturating_sub(1),
            LenVal::ActualPlus1 => actual + 1,
            LenVal::RestPlus1 => rest + 1,
            LenVal::K64 => 65536,
            LenVal::Limit => alloc_limit(total),
            LenVal::LimitPlus1 => alloc_limit(total) + 1,
            LenVal::Pow31 => 1 << 31,
            LenVal::U32Max => u32::MAX as u64,
            LenVal::Pow32 => 1 << 32,
            LenVal::Pow40 => 1 << 40,
            LenVal::Pow62 => 1 << 62,
            LenVal::Pow63 => 1 << 63,
            LenVal::U64MaxMinus1 => u64::MAX - 1,
            LenVal::U64Max => u64::MAX,
        }
    }
}

#[derive(Clone, Debug, Serialize, Deserialize)]
pub enum Mutation {
    None,
    /// keep only a prefix
    Truncate(Index),
    /// flip one bit of a structural field (version, tag, length, count)
    FlipStruct { field: Index, bit: u8 },
    /// flip one bit anywhere
    FlipAny { at: Index, bit: u8 },
    /// overwrite a length / count field
    SetLen { field: Index, value: LenVal },
    /// delete up to `del` bytes at `at` and insert `ins`
    Splice { at: Index, del: u8, ins: Hex },
}

fn struct_fields(e: &Enc) -> Vec<&Field> {
    e.fields.iter().filter(|f| matches!(f.kind, FieldKind::Version | FieldKind::Tag | FieldKind::Len32 | FieldKind::Len64 | FieldKind::Count64)).collect()
}
fn len_fields(e: &Enc) -> Vec<&Field> {
    e.fields.iter().filter(|f| matches!(f.kind, FieldKind::Len32 | FieldKind::Len64 | FieldKind::Count64)).collect()
}

fn set_len(d: &mut [u8], f: &Field, v: LenVal) {
    let total = d.len();
    let rest = (total - f.off - f.len) as u64;
    if f.len == 4 {
        let actual = u32::from_be_bytes(d[f.off..f.off + 4].try_into().unwrap()) as u64;
        let val = v.value(actual, rest, total) as u32; // truncating: the field has 32 bits
        d[f.off..f.off + 4].copy_from_slice(&val.to_be_bytes());
    } else {
        let actual = u64::from_be_bytes(d[f.off..f.off + 8].try_into().unwrap());
        let val = v.value(actual, rest, total);
        d[f.off..f.off + 8].copy_from_slice(&val.to_be_bytes());
    }
}

pub fn apply(e: &Enc, m: &Mutation) -> Vec<u8> {
    let mut d = e.data.clone();
    match m {
        Mutation::None => {}
        Mutation::Truncate(ix) => {
            if !d.is_empty() {
                d.truncate(ix.index(d.len()));
            }
        }
        Mutation::FlipStruct { field, bit } => {
            let fs = struct_fields(e);
            if !fs.is_empty() {
                let f = fs[field.index(fs.len())];
                let b = *bit as usize % (f.len * 8);
                d[f.off + b / 8] ^= 0x80 >> (b % 8);
            }
        }
        Mutation::FlipAny { at, bit } => {
            if !d.is_empty() {
                let i = at.index(d.len());
                d[i] ^= 1 << (bit % 8);
            }
        }
        Mutation::SetLen { field, value } => {
            let fs = len_fields(e);
            if !fs.is_empty() {
                let f = fs[field.index(fs.len())].clone();
                set_len(&mut d, &f, *value);
            }
        }
        Mutation::Splice { at, del, ins } => {
            let i = at.index(d.len() + 1);
            let end = (i + *del as usize).min(d.len());
            d.splice(i..end, ins.0.iter().copied());
        }
    }
    d
}

fn mutation_class(m: &Mutation) -> &'static str {
    match m {
        Mutation::None => "mut=none",
        Mutation::Truncate(_) => "mut=truncate",
        Mutation::FlipStruct { .. } => "mut=flip-struct",
        Mutation::FlipAny { .. } => "mut=flip-any",
        Mutation::SetLen { .. } => "mut=set-len",
        Mutation::Splice { .. } => "mut=splice",
    }
}

#[derive(Clone, Debug, Serialize, Deserialize)]
pub struct RecCase {
    pub base: Base,
    pub mutation: Mutation,
}

#[derive(Clone, Debug, Serialize, Deserialize)]
pub struct RawCase {
    pub rec: Rec,
    pub data: Hex,
}

//------------ archives ----------------------------------------------------------------------------

#[derive(Clone, Debug, Serialize, Deserialize)]
pub struct ArchRecipe {
    pub key: u64,
    pub buckets: u16,
    pub state: Option<MState>,
    /// (uri number, content)
    pub objects: Vec<(u8, MBytes)>,
    /// indexes into `objects` deleted again (leaves free blocks)
    pub deletes: Vec<u8>,
}

pub fn probe_uri(i: u8) -> Vec<u8> {
    format!("rsync://h.example/m/o{}.cer", i % 12).into_bytes()
}
pub fn all_probes() -> Vec<Vec<u8>> {
    (0..12).map(probe_uri).collect()
}

static ARCH_NO: std::sync::atomic::AtomicU64 = std::sync::atomic::AtomicU64::new(0);

/// Builds the archive file with the real writer (valid operations on a valid archive, in-process).
pub fn build_archive(dir: &Path, r: &ArchRecipe) -> Result<Vec<u8>, String> {
    let path = dir.join(format!("base-{}.bin", ARCH_NO.fetch_add(1, std::sync::atomic::Ordering::SeqCst)));
    let mut key = [0u8; 16];
    key[..8].copy_from_slice(&r.key.to_le_bytes());
    key[8..].copy_from_slice(&(!r.key).to_le_bytes());
    std::fs::write(&path, empty_archive(key, r.buckets.max(1) as u64)).map_err(|e| e.to_string())?;
    let res = (|| {
        let mut a = RrdpArchive::try_open(Arc::new(path.clone())).map_err(|_| "try_open failed".to_string())?.ok_or("archive vanished")?;
        if let Some(s) = &r.state {
            a.publish_state(&s.to_real()).map_err(|_| "publish_state failed".to_string())?;
        }
        let mut have: BTreeMap<u8, Vec<u8>> = BTreeMap::new();
        for (n, c) in &r.objects {
            let n = n % 12;
            if have.contains_key(&n) {
                continue;
            }
            let content = c.expand();
            a.publish_object(&uri::Rsync::from_slice(&probe_uri(n)).unwrap(), &content).map_err(|e| format!("publish_object: {:?}", e))?;
            have.insert(n, content);
        }
        for d in &r.deletes {
            if r.objects.is_empty() {
                break;
            }
            let n = r.objects[*d as usize % r.objects.len()].0 % 12;
            if let Some(content) = have.remove(&n) {
                a.delete_object(&uri::Rsync::from_slice(&probe_uri(n)).unwrap(), rpki::rrdp::Hash::from_data(&content)).map_err(|e| format!("delete_object: {:?}", e))?;
            }
        }
        drop(a);
        std::fs::read(&path).map_err(|e| e.to_string())
    })();
    let _ = std::fs::remove_file(&path);
    res
}

#[derive(Clone, Copy, Debug, Serialize, Deserialize, PartialEq, Eq)]
pub enum AField {
    BucketCount,
    /// one of the index slots (including the free-chain slot)
    IndexSlot,
    BlockSize,
    BlockNext,
    BlockEmptyFlag,
    BlockNameLen,
    BlockDataLen,
}

impl AField {
    pub const ALL: [AField; 7] = [AField::BucketCount, AField::IndexSlot, AField::BlockSize, AField::BlockNext, AField::BlockEmptyFlag, AField::BlockNameLen, AField::BlockDataLen];
}

#[derive(Clone, Copy, Debug, Serialize, Deserialize, PartialEq, Eq)]
pub enum AVal {
    Zero,
    One,
    Two,
    /// the position of the block the field belongs to (a self loop for `next`)
    SelfPos,
    /// the position of another block
    OtherBlock,
    /// the first block of the data area
    FirstBlock,
    /// inside the index
    IndexArea,
    FileLenMinus1,
    FileLen,
    FileLenPlus1,
    Pow31,
    Pow63,
    Max,
}

impl AVal {
    pub const ALL: [AVal; 13] = [AVal::Zero, AVal::One, AVal::Two, AVal::SelfPos, AVal::OtherBlock, AVal::FirstBlock, AVal::IndexArea, AVal::FileLenMinus1, AVal::FileLen, AVal::FileLenPlus1, AVal::Pow31, AVal::Pow63, AVal::Max];
}

#[derive(Clone, Debug, Serialize, Deserialize)]
pub enum AMut {
    None,
    Truncate(Index),
    FlipAny { at: Index, bit: u8 },
    /// flip a bit inside the file header, the used index slots or a block header
    FlipStruct { at: Index, bit: u8 },
    SetField { field: AField, which: Index, other: Index, value: AVal },
    /// overwrite a length field inside the stored state record
    StateLen { field: Index, value: LenVal },
    Splice { at: Index, del: u8, ins: Hex },
}

/// Offsets of structural bytes of a valid archive: meta (key + bucket count), non-empty index slots and
/// the free slot, every block header.
fn arch_struct_offsets(l: &Layout) -> Vec<usize> {
    let mut v: Vec<usize> = (6..30).collect();
    for b in 0..=l.buckets {
        let off = (ARCH_META_END + b * 8) as usize;
        v.extend(off..off + 8);
        if b > 16 {
            break;
        }
    }
    for b in &l.blocks {
        v.extend(b.pos as usize..(b.pos + OBJ_HEADER) as usize);
    }
    v
}

pub fn apply_arch(file: &[u8], m: &AMut) -> Vec<u8> {
    let mut d = file.to_vec();
    let layout = read_layout(file, RRDP_META).ok();
    match m {
        AMut::None => {}
        AMut::Truncate(ix) => d.truncate(ix.index(d.len().max(1))),
        AMut::FlipAny { at, bit } => {
            let i = at.index(d.len());
            d[i] ^= 1 << (bit % 8);
        }
        AMut::FlipStruct { at, bit } => {
            if let Some(l) = &layout {
                let offs = arch_struct_offsets(l);
                let i = offs[at.index(offs.len())];
                d[i] ^= 1 << (bit % 8);
            }
        }
        AMut::Splice { at, del, ins } => {
            let i = at.index(d.len() + 1);
            let end = (i + *del as usize).min(d.len());
            d.splice(i..end, ins.0.iter().copied());
        }
        AMut::StateLen { field, value } => {
            if let Some(l) = &layout {
                if let Some(b) = l.objects().find(|b| b.name == b"state") {
                    // locate the state record inside the file and its length fields through the walker's twin: re-encode is not
                    // possible (map order), so find length fields by walking the stored bytes
                    let start = (b.pos + OBJ_HEADER + b.name.len() as u64 + RRDP_META) as usize;
                    let content = &b.data;
                    let fields = state_len_fields(content);
                    if !fields.is_empty() {
                        let (off, len) = fields[field.index(fields.len())];
                        let f = Field { name: "state", kind: FieldKind::Len64, off, len };
                        let mut c = content.clone();
                        set_len(&mut c, &f, *value);
                        d[start..start + c.len()].copy_from_slice(&c);
                    }
                }
            }
        }
        AMut::SetField { field, which, other, value } => {
            if let Some(l) = &layout {
                if l.blocks.is_empty() && !matches!(field, AField::BucketCount | AField::IndexSlot) {
                    return d;
                }
                let blk = if l.blocks.is_empty() { None } else { Some(&l.blocks[which.index(l.blocks.len())]) };
                let self_pos = blk.map(|b| b.pos).unwrap_or(l.index_end);
                let other_pos = if l.blocks.is_empty() { l.index_end } else { l.blocks[other.index(l.blocks.len())].pos };
                let val: u64 = match value {
                    AVal::Zero => 0,
                    AVal::One => 1,
                    AVal::Two => 2,
                    AVal::SelfPos => self_pos,
                    AVal::OtherBlock => other_pos,
                    AVal::FirstBlock => l.index_end,
                    AVal::IndexArea => ARCH_META_END + 8,
                    AVal::FileLenMinus1 => l.file_len - 1,
                    AVal::FileLen => l.file_len,
                    AVal::FileLenPlus1 => l.file_len + 1,
                    AVal::Pow31 => 1 << 31,
                    AVal::Pow63 => 1 << 63,
                    AVal::Max => u64::MAX,
                };
                let (off, width) = match field {
                    AField::BucketCount => (22usize, 8usize),
                    AField::IndexSlot => {
                        // prefer slots in use
                        let used: Vec<u64> = (0..=l.buckets).filter(|b| d[(ARCH_META_END + b * 8) as usize..(ARCH_META_END + b * 8 + 8) as usize] != [0u8; 8]).collect();
                        let slot = if used.is_empty() { which.index(l.buckets as usize + 1) as u64 } else { used[which.index(used.len())] };
                        ((ARCH_META_END + slot * 8) as usize, 8)
                    }
                    AField::BlockSize => (self_pos as usize, 8),
                    AField::BlockNext => (self_pos as usize + 8, 8),
                    AField::BlockEmptyFlag => (self_pos as usize + 16, 1),
                    AField::BlockNameLen => (self_pos as usize + 17, 8),
                    AField::BlockDataLen => (self_pos as usize + 25, 8),
                };
                if width == 1 {
                    d[off] = val as u8;
                } else {
                    d[off..off + 8].copy_from_slice(&val.to_ne_bytes());
                }
            }
        }
    }
    d
}

/// (offset, width) of the length / count fields of a valid encoded state record.
fn state_len_fields(c: &[u8]) -> Vec<(usize, usize)> {
    let mut v = Vec::new();
    if c.len() < 5 {
        return v;
    }
    v.push((1, 4));
    let ulen = u32::from_be_bytes(c[1..5].try_into().unwrap()) as usize;
    let mut p = 5 + ulen + 16 + 8 + 8 + 8;
    if p >= c.len() {
        return v;
    }
    p += if c[p] == 1 { 9 } else { 1 };
    if p + 8 > c.len() {
        return v;
    }
    v.push((p, 8));
    let el = u64::from_be_bytes(c[p..p + 8].try_into().unwrap());
    p += 8;
    if el != u64::MAX {
        p += el as usize;
    }
    if p + 8 <= c.len() {
        v.push((p, 8));
    }
    v
}

fn amut_class(m: &AMut) -> String {
    match m {
        AMut::None => "mut=none".into(),
        AMut::Truncate(_) => "mut=truncate".into(),
        AMut::FlipAny { .. } => "mut=flip-any".into(),
        AMut::FlipStruct { .. } => "mut=flip-struct".into(),
        AMut::SetField { field, .. } => format!("mut=set-{:?}", field),
        AMut::StateLen { .. } => "mut=state-len".into(),
        AMut::Splice { .. } => "mut=splice".into(),
    }
}

#[derive(Clone, Debug, Serialize, Deserialize)]
pub struct ArchCase {
    pub recipe: ArchRecipe,
    pub mutation: AMut,
}

//============ strategies ==========================================================================

fn base_strategy() -> impl Strategy<Value = Base> {
    prop_oneof![
        2 => header_strategy().prop_map(Base::Header),
        3 => manifest_strategy(400).prop_map(Base::Manifest),
        3 => prop::collection::vec(object_strategy(400), 1..4).prop_map(Base::Objects),
        1 => mtime_strategy().prop_map(Base::Status),
        3 => state_strategy(12).prop_map(Base::State),
        3 => (header_strategy(), manifest_strategy(300), prop::collection::vec(object_strategy(300), 0..4)).prop_map(|(h, m, o)| Base::Point(h, m, o)),
    ]
}

fn lenval_strategy() -> impl Strategy<Value = LenVal> {
    prop::sample::select(LenVal::ALL.to_vec())
}

fn mutation_strategy() -> impl Strategy<Value = Mutation> {
    prop_oneof![
        1 => Just(Mutation::None),
        4 => ix().prop_map(Mutation::Truncate),
        5 => (ix(), any::<u8>()).prop_map(|(field, bit)| Mutation::FlipStruct { field, bit }),
        4 => (ix(), any::<u8>()).prop_map(|(at, bit)| Mutation::FlipAny { at, bit }),
        5 => (ix(), lenval_strategy()).prop_map(|(field, value)| Mutation::SetLen { field, value }),
        3 => (ix(), 0u8..12, prop::collection::vec(any::<u8>(), 0..12)).prop_map(|(at, del, ins)| Mutation::Splice { at, del, ins: Hex(ins) }),
    ]
}

fn raw_strategy() -> impl Strategy<Value = RawCase> {
    let data = prop_oneof![
        prop::collection::vec(any::<u8>(), 0..120),
        // plausible first bytes (versions, tags) followed by noise
        (prop::sample::select(vec![0u8, 1, 2]), prop::collection::vec(prop_oneof![Just(0u8), Just(1), Just(0xff), any::<u8>()], 0..120)).prop_map(|(v, mut d)| {
            d.insert(0, v);
            d
        }),
    ];
    (prop::sample::select(Rec::ALL.to_vec()), data).prop_map(|(rec, data)| RawCase { rec, data: Hex(data) })
}

fn recipe_strategy() -> impl Strategy<Value = ArchRecipe> {
    (
        1u64..1000,
        prop_oneof![3 => Just(1u16), 3 => Just(2), 2 => Just(4), 1 => Just(1024)],
        prop::option::weighted(0.9, state_strategy(6)),
        prop::collection::vec((0u8..12, mbytes_strategy(600)), 0..6),
        prop::collection::vec(any::<u8>(), 0..3),
    )
        .prop_map(|(key, buckets, state, objects, deletes)| ArchRecipe { key, buckets, state, objects, deletes })
}

fn amut_strategy() -> impl Strategy<Value = AMut> {
    prop_oneof![
        1 => Just(AMut::None),
        3 => ix().prop_map(AMut::Truncate),
        3 => (ix(), any::<u8>()).prop_map(|(at, bit)| AMut::FlipAny { at, bit }),
        6 => (ix(), any::<u8>()).prop_map(|(at, bit)| AMut::FlipStruct { at, bit }),
        8 => (prop::sample::select(AField::ALL.to_vec()), ix(), ix(), prop::sample::select(AVal::ALL.to_vec())).prop_map(|(field, which, other, value)| AMut::SetField { field, which, other, value }),
        2 => (ix(), lenval_strategy()).prop_map(|(field, value)| AMut::StateLen { field, value }),
        2 => (ix(), 0u8..40, prop::collection::vec(any::<u8>(), 0..40)).prop_map(|(at, del, ins)| AMut::Splice { at, del, ins: Hex(ins) }),
    ]
}

//============ fixed bases for the exhaustive sweeps =================================================

fn fixed_bases() -> Vec<Base> {
    let h1 = MHeader { uri: "rsync://example.com/test/test.mft".into(), notify: Some("https://example.com/notification.xml".into()), success: true, secs: 1_700_000_000 };
    let h2 = MHeader { uri: "rsync://a/b/".into(), notify: None, success: false, secs: -1 };
    let m = MManifest {
        not_after: MTime { secs: 1_759_335_022, nanos: 0 },
        number: Hex({
            let mut a = vec![0u8; 20];
            a[19] = 7;
            a
        }),
        this_update: MTime { secs: 1_275_552_660, nanos: 0 },
        ca_repository: "rsync://example.com/test/".into(),
        manifest: MBytes::of(b"deadbeef"),
        crl_uri: "rsync://example.com/test/test.crl".into(),
        crl: MBytes::of(b"crlbytesgohere"),
    };
    let o1 = MObject { uri: "rsync://example.com/test/obj1.bin".into(), hash: Some(Hex(vec![7; 32])), content: MBytes::of(b"object1content") };
    let o2 = MObject { uri: "rsync://example.com/test/obj2.bin".into(), hash: None, content: MBytes::of(b"object2stuff") };
    let s1 = MState { notify: "https://foo.bar/baz".into(), session: Hex(vec![0xa1; 16]), serial: 0x1234, updated: 1_700_000_000, best_before: 1_700_003_600, last_modified: Some(1_699_999_000), etag: Some(MBytes::of(b"W/\"abc\"")), deltas: vec![(18, 3), (19, 4)] };
    let s2 = MState { notify: "https://foo.bar/baz".into(), session: Hex(vec![0; 16]), serial: 0, updated: 0, best_before: 0, last_modified: None, etag: None, deltas: vec![] };
    vec![
        Base::Header(h1.clone()),
        Base::Header(h2),
        Base::Manifest(m.clone()),
        Base::Objects(vec![o1.clone(), o2.clone()]),
        Base::Status(MTime { secs: 1_700_000_000, nanos: 0 }),
        Base::State(s1),
        Base::State(s2),
        Base::Point(h1, m, vec![o1, o2]),
    ]
}


/// Bases with every variable-length field longer than 64 KiB, so that a damaged length field is
/// followed by more data than any first read chunk: readers that start trusting the claimed length
/// after "enough" real data has arrived are only reachable with such files.
fn big_bases() -> Vec<Base> {
    let big = |seed: u8| MBytes { len: 70_000, seed, head: Hex(vec![]) };
    let h = MHeader { uri: "rsync://example.com/test/test.mft".into(), notify: Some("https://example.com/notification.xml".into()), success: true, secs: 1_700_000_000 };
    let m = MManifest {
        not_after: MTime { secs: 1_759_335_022, nanos: 0 },
        number: Hex({
            let mut a = vec![0u8; 20];
            a[19] = 9;
            a
        }),
        this_update: MTime { secs: 1_275_552_660, nanos: 0 },
        ca_repository: "rsync://example.com/test/".into(),
        manifest: big(1),
        crl_uri: "rsync://example.com/test/test.crl".into(),
        crl: big(2),
    };
    let o1 = MObject { uri: "rsync://example.com/test/obj1.bin".into(), hash: Some(Hex(vec![7; 32])), content: big(3) };
    let o2 = MObject { uri: "rsync://example.com/test/obj2.bin".into(), hash: None, content: big(4) };
    let s = MState { notify: "https://foo.bar/baz".into(), session: Hex(vec![0xa1; 16]), serial: 0x1234, updated: 1_700_000_000, best_before: 1_700_003_600, last_modified: Some(1_699_999_000), etag: Some(big(5)), deltas: vec![(18, 3), (19, 4)] };
    vec![Base::Point(h, m, vec![o1, o2]), Base::State(s)]
}

fn fixed_recipe() -> ArchRecipe {
    let state = MState { notify: "https://foo.bar/baz".into(), session: Hex(vec![0xa1; 16]), serial: 7, updated: 1_700_000_000, best_before: 1_700_003_600, last_modified: Some(1_699_999_000), etag: Some(MBytes::of(b"\"abc\"")), deltas: vec![(6, 1), (7, 2)] };
    ArchRecipe { key: 11, buckets: 2, state: Some(state), objects: vec![(0, MBytes::of(b"object zero")), (1, MBytes { len: 300, seed: 5, head: Hex(vec![]) }), (2, MBytes::of(b"two")), (3, MBytes::of(b"three"))], deletes: vec![1] }
}

//============ known-finding representatives ========================================================

#[derive(Clone, Debug, Serialize, Deserialize)]
pub enum KnownCase {
    /// hostile length at a binio site: (record, field name, value)
    Length { base: Base, field: String, value: LenVal },
    /// archive file shapes
    BucketZero,
    SelfLoopVerify,
    SelfLoopFind,
    SelfLoopObjects,
}

fn known_cases() -> Vec<KnownCase> {
    let b = fixed_bases();
    vec![
        KnownCase::Length { base: b[2].clone(), field: "ca_repository".into(), value: LenVal::Pow31 },
        KnownCase::Length { base: b[5].clone(), field: "rpki_notify".into(), value: LenVal::Pow31 },
        KnownCase::Length { base: b[0].clone(), field: "rpki_notify".into(), value: LenVal::Pow31 },
        KnownCase::Length { base: b[2].clone(), field: "manifest".into(), value: LenVal::Pow62 },
        KnownCase::Length { base: b[2].clone(), field: "manifest".into(), value: LenVal::Pow63 },
        KnownCase::Length { base: b[5].clone(), field: "etag".into(), value: LenVal::Pow62 },
        KnownCase::Length { base: b[5].clone(), field: "delta_state".into(), value: LenVal::Pow40 },
        KnownCase::Length { base: b[5].clone(), field: "delta_state".into(), value: LenVal::U64Max },
        KnownCase::BucketZero,
        KnownCase::SelfLoopVerify,
        KnownCase::SelfLoopFind,
        KnownCase::SelfLoopObjects,
    ]
}

fn judge_known(x: &Exec, dir: &Path, c: &KnownCase, info: &mut CaseInfo) -> Verdict {
    info.class("directed_known_shape");
    match c {
        KnownCase::Length { base, field, value } => {
            let e = base.encode();
            let Some(f) = len_fields(&e).into_iter().find(|f| f.name == field.as_str()).cloned() else { return Verdict::Dropped("no such field".into()) };
            let mut d = e.data.clone();
            set_len(&mut d, &f, *value);
            let v = x.judge_record(base.rec(), &d, true, true, info);
            match v {
                Verdict::Fail { key, msg } if matches!(value, LenVal::Pow62) && field == "manifest" => {
                    // what the unprotected process does with the same bytes
                    let raw = x.raw_effect(base.rec().id(), &d);
                    Verdict::Fail { key, msg: format!("{} || without the allocation cap: {}", msg, raw) }
                }
                other => other,
            }
        }
        KnownCase::BucketZero | KnownCase::SelfLoopVerify | KnownCase::SelfLoopFind | KnownCase::SelfLoopObjects => {
            let file = match build_archive(dir, &fixed_recipe()) {
                Ok(f) => f,
                Err(e) => return Verdict::Dropped(format!("cannot build base archive: {}", e)),
            };
            let Ok(l) = read_layout(&file, RRDP_META) else { return Verdict::Dropped("base archive unreadable".into()) };
            let mut d = file.clone();
            let calls = match c {
                KnownCase::BucketZero => {
                    d[22..30].copy_from_slice(&0u64.to_ne_bytes());
                    CALL_STATE
                }
                KnownCase::SelfLoopVerify => {
                    let b = l.objects().next().unwrap();
                    d[b.pos as usize + 8..b.pos as usize + 16].copy_from_slice(&b.pos.to_ne_bytes());
                    CALL_VERIFY
                }
                KnownCase::SelfLoopFind => {
                    // the chain of the bucket of a name that is absent: point its last member at itself
                    let probe = probe_uri(9);
                    let bucket = sip_bucket(&l.key, &probe, l.buckets).unwrap();
                    let Some(b) = l.objects().filter(|b| b.bucket == Some(bucket)).last() else { return Verdict::Dropped("empty bucket".into()) };
                    // find the member whose next is 0
                    let tail = l.objects().filter(|b| b.bucket == Some(bucket)).find(|b| raw_header(&file, b.pos).map(|h| h.next == 0).unwrap_or(false)).unwrap_or(b);
                    d[tail.pos as usize + 8..tail.pos as usize + 16].copy_from_slice(&tail.pos.to_ne_bytes());
                    CALL_LOAD
                }
                _ => {
                    let b = l.objects().next().unwrap();
                    d[b.pos as usize + 8..b.pos as usize + 16].copy_from_slice(&b.pos.to_ne_bytes());
                    CALL_OBJECTS
                }
            };
            let probes = if matches!(c, KnownCase::SelfLoopFind) { vec![probe_uri(9)] } else { vec![] };
            match x.judge_archive(&d, &probes, calls, true, info) {
                Verdict::Fail { key, msg } => Verdict::Fail { key, msg: format!("{}; file = base archive (recipe key 11, 2 buckets) with {}", msg, describe_patch(&file, &d)) },
                other => other,
            }
        }
    }
}

fn describe_patch(a: &[u8], b: &[u8]) -> String {
    let diffs: Vec<usize> = (0..a.len().min(b.len())).filter(|i| a[*i] != b[*i]).collect();
    match (diffs.first(), diffs.last()) {
        (Some(f), Some(l)) => format!("bytes {}..={} changed from {} to {}", f, l, to_hex(&a[*f..=*l]), to_hex(&b[*f..=*l])),
        _ => "no change".into(),
    }
}

//============ libFuzzer bodies (in-process; hazardous shapes are skipped by the same pre-screen) ====

pub fn fuzz_record(rec: Rec, data: &[u8]) {
    if matches!(walk(rec, data, alloc_limit(data.len())).stop, Stop::Oversize { .. }) {
        return;
    }
    let h = decode_record(rec, data);
    if h.status == 4 {
        panic!("{}", h.msg);
    }
}

pub fn fuzz_archive(data: &[u8]) {
    let probes = all_probes();
    let mut all = probes.clone();
    all.push(b"state".to_vec());
    if !archive_hazards(data, RRDP_META, &all).is_empty() {
        return;
    }
    if let Some(a) = RawArchive::open(data) {
        if let Some(c) = a.fetch(b"state", RRDP_META) {
            if matches!(walk(Rec::State, c, alloc_limit(data.len())).stop, Stop::Oversize { .. }) {
                return;
            }
        }
    }
    let path = work_dir().join(format!("fuzz-archive-{}.bin", std::process::id()));
    let _ = std::fs::remove_file(&path);
    std::fs::write(&path, data).expect("write");
    let uris: Vec<uri::Rsync> = probes.iter().map(|p| uri::Rsync::from_slice(p).unwrap()).collect();
    let h = read_archive(&path, &uris, CALL_ALL);
    if h.status == 4 {
        panic!("{}", h.msg);
    }
}

/// Seed corpus: valid encodings of the fixed bases and a few generated ones.
pub fn write_seed_corpus(dir: &Path) {
    let put = |target: &str, name: &str, data: &[u8]| {
        let d = crate::fz::corpus_dir(target);
        std::fs::create_dir_all(&d).unwrap();
        std::fs::write(d.join(name), data).unwrap();
    };
    for (i, b) in fixed_bases().iter().enumerate() {
        let e = b.encode();
        put(&format!("dec_{}", b.rec().name()), &format!("fixed-{}", i), &e.data);
        put("rt_records", &format!("fixed-{}", i), &e.data);
    }
    let recipe = fixed_recipe();
    put("archive_file", "fixed-2-buckets", &build_archive(dir, &recipe).unwrap());
    put("archive_file", "fixed-1-bucket", &build_archive(dir, &ArchRecipe { buckets: 1, ..recipe.clone() }).unwrap());
    put("archive_file", "empty-4-buckets", &empty_archive([3; 16], 4));
    put("archive_ops", "seq-1", &[0, 1, 0, 1, 2, 3, 4, 0, 2, 9, 9, 1, 4, 1, 0, 0, 1, 2, 3, 4, 7, 8, 2, 1, 4, 4, 4, 0]);
    put("archive_ops", "seq-2", &[65, 7, 0, 6, 8, 1, 1, 0, 7, 2, 0, 2, 4, 6, 0, 0, 6, 4, 1, 0, 7, 0, 6, 2, 2, 2, 8, 7, 6, 0x16]);
}

//============ run ================================================================================

/// Wall time per phase (informational only, written to the evidence).
#[derive(Default)]
struct Phase {
    last: Option<std::time::Instant>,
    secs: BTreeMap<String, f64>,
}

impl Phase {
    fn mark(&mut self, rep: &mut Report, name: &str) {
        let now = std::time::Instant::now();
        let from = self.last.unwrap_or(now);
        *self.secs.entry(name.to_string()).or_default() += (now - from).as_secs_f64();
        self.last = Some(now);
        rep.extra.insert("phase_wall_seconds".into(), serde_json::json!(self.secs));
    }
}

fn record_case(ctx: &Ctx, rep: &mut Report, sub: &str, case: &impl SerDebug, f: impl FnOnce(&mut CaseInfo) -> Verdict) {
    if rep.violated() {
        return;
    }
    let mut info = CaseInfo::default();
    let v = f(&mut info);
    let tagged = Tagged { sub: sub.to_string(), case };
    rep.record(ctx, &tagged, &info, &v);
}

pub trait SerDebug: Serialize + std::fmt::Debug {}
impl<T: Serialize + std::fmt::Debug> SerDebug for T {}

pub fn run(ctx: &Ctx, rep: &mut Report, replay: Option<&serde_json::Value>) {
    rep.rule("(a) valid encodings of generated records (point header, manifest, object sequences, whole stored-point files, status, RRDP state) and RRDP archive files built with the real writer (1/2/4/1024 buckets, state + up to 6 objects, deletions leaving free blocks) under one mutation each: truncation, bit flip in a structural field or anywhere, length/count fields set to {0,1,len-1,len+1,rest+1,64Ki,limit,limit+1,2^31,2^32-1,2^32,2^40,2^62,2^63,2^64-2,2^64-1}, archive pointer/size/flag fields set to {0,1,2,self,other block,first block,inside index,EOF-1,EOF,EOF+1,2^31,2^63,2^64-1}, splices; (b) exhaustive sweeps over fixed bases: every truncation, every bit of every structural field, every length value for every length field; the bit and length sweeps also over a stored point and an RRDP state whose variable-length fields each hold 70 000 bytes (more data than any first read chunk follows a damaged length); (c) arbitrary byte strings per decoder; (d) the seed corpus of the fuzz targets; archive cases get a second pass in which the collector's update operations (update/delete of present objects, 16 publishes of 1 byte..12 pages, state rewrite, verify) run on the damaged file; each case runs in a worker process with panics caught, a cap on single allocations of max(16 MiB, 64 x input) and a CPU budget; non-trivial = the decoder got past at least one field (archives: past the magic) and then reported an error, or decoded a mutated input; distinct by serialised case");
    rep.assume("a single allocation request above max(16 MiB, 64 x input length) counts as 'far beyond the file's size' (DESIGN §1 C27); constant-size allocations below that (the decoder's 65536-entry map pre-allocation, about 5.4 MB) are reported in largest_single_allocation_seen_per_decoder but not judged");
    rep.assume("more than 2 s of CPU time on an input of a few KiB counts as not terminating; a wall-clock timeout alone is dropped as inconclusive");
    rep.assume("the whole-engine leg (module c27e) covers caches written through the rsync transport (stored points, status file, trust anchors); RRDP archives are covered at the RrdpArchive level only");
    let scratch = ctx.scratch();
    let dir = scratch.path().to_path_buf();
    if std::env::var("RV_WRITE_CORPUS").is_ok() {
        write_seed_corpus(&dir);
        println!("seed corpus written");
        std::process::exit(0);
    }
    let x = Exec::new(&dir);
    let probes = all_probes();
    // a replayed case is executed even if it has a known hazardous shape
    let rk = replay.is_some();

    let rec_case = |c: &RecCase, i: &mut CaseInfo| {
        i.class(mutation_class(&c.mutation));
        let e = c.base.encode();
        let d = apply(&e, &c.mutation);
        x.judge_record(c.base.rec(), &d, !matches!(c.mutation, Mutation::None), rk, i)
    };
    let raw_case = |c: &RawCase, i: &mut CaseInfo| {
        i.class("mut=arbitrary-bytes");
        x.judge_record(c.rec, &c.data.0, true, rk, i)
    };
    let base_cache: RefCell<std::collections::HashMap<String, Vec<u8>>> = RefCell::new(Default::default());
    let arch_case = |c: &ArchCase, i: &mut CaseInfo| {
        i.class(amut_class(&c.mutation));
        i.class(format!("buckets={}", c.recipe.buckets));
        // base archives are built once per recipe (building costs ~3 ms of mmap/munmap system calls)
        let rkey = serde_json::to_string(&c.recipe).unwrap_or_default();
        let cached = base_cache.borrow().get(&rkey).cloned();
        let base = match cached {
            Some(b) => b,
            None => match build_archive(&dir, &c.recipe) {
                Ok(b) => {
                    let mut cache = base_cache.borrow_mut();
                    if cache.len() >= 4096 {
                        cache.clear();
                    }
                    cache.insert(rkey, b.clone());
                    b
                }
                Err(e) => return Verdict::Dropped(format!("cannot build base archive: {}", e)),
            },
        };
        let d = apply_arch(&base, &c.mutation);
        x.judge_archive(&d, &probes, CALL_ALL, rk, i)
    };
    let arch_bytes = |d: &Hex, i: &mut CaseInfo| x.judge_archive(&d.0, &probes, CALL_ALL, rk, i);
    let known_case = |c: &KnownCase, i: &mut CaseInfo| judge_known(&x, &dir, c, i);

    if let Some(v) = replay {
        let t: Tagged<serde_json::Value> = serde_json::from_value(v.clone()).expect("replay");
        let sub = t.sub.as_str();
        match sub {
            "records" | "sweep-records" => run_case(ctx, rep, sub, &serde_json::from_value::<RecCase>(t.case).expect("case"), rec_case),
            "bytes" => run_case(ctx, rep, sub, &serde_json::from_value::<RawCase>(t.case).expect("case"), raw_case),
            "archive" | "sweep-archive" => run_case(ctx, rep, sub, &serde_json::from_value::<ArchCase>(t.case).expect("case"), arch_case),
            "known" => run_case(ctx, rep, sub, &serde_json::from_value::<KnownCase>(t.case).expect("case"), known_case),
            "engine" => crate::c27e::run(ctx, rep, replay),
            "corpus:archive_file" | "archive-bytes" | "fuzz:archive_file" => run_case(ctx, rep, sub, &serde_json::from_value::<Hex>(t.case).expect("case"), arch_bytes),
            other if other.starts_with("fuzz:dec_") || other.starts_with("corpus:dec_") => {
                let name = other.rsplit("dec_").next().unwrap_or("");
                let rec = Rec::ALL.iter().copied().find(|r| r.name() == name).expect("decoder name");
                run_case(ctx, rep, other, &serde_json::from_value::<Hex>(t.case).expect("case"), |d, i| x.judge_record(rec, &d.0, true, true, i))
            }
            other => panic!("unknown sub {}", other),
        }
        return;
    }

    let mut phase = Phase::default();
    phase.mark(rep, "start");
    // one directed representative per known key
    for c in known_cases() {
        if rep.violated() {
            break;
        }
        run_case(ctx, rep, "known", &c, known_case);
    }

    phase.mark(rep, "known");
    // (b) exhaustive sweeps over fixed bases
    for base in fixed_bases() {
        let e = base.encode();
        let mut muts: Vec<Mutation> = vec![Mutation::None];
        let len = e.data.len();
        for n in 0..len {
            muts.push(Mutation::Truncate(Index(n as u64)));
        }
        let sf = struct_fields(&e);
        for (fi, f) in sf.iter().enumerate() {
            for bit in 0..(f.len * 8) {
                muts.push(Mutation::FlipStruct { field: Index(fi as u64), bit: bit as u8 });
            }
        }
        let lf = len_fields(&e);
        for fi in 0..lf.len() {
            for v in LenVal::ALL {
                muts.push(Mutation::SetLen { field: Index(fi as u64), value: v });
            }
        }
        for m in muts {
            let c = RecCase { base: base.clone(), mutation: m };
            record_case(ctx, rep, "sweep-records", &c, |i| rec_case(&c, i));
        }
    }
    // the same for bases whose variable-length fields exceed 64 KiB: every length value and every bit
    // of every structural field, a few truncations (not all: the files have ~280 000 bytes)
    for base in big_bases() {
        let e = base.encode();
        let mut muts: Vec<Mutation> = vec![Mutation::None];
        let len = e.data.len();
        for k in 1..16u64 {
            muts.push(Mutation::Truncate(Index(len as u64 * k / 16)));
        }
        let sf = struct_fields(&e);
        for (fi, f) in sf.iter().enumerate() {
            for bit in 0..(f.len * 8) {
                muts.push(Mutation::FlipStruct { field: Index(fi as u64), bit: bit as u8 });
            }
        }
        let lf = len_fields(&e);
        for fi in 0..lf.len() {
            for v in LenVal::ALL {
                muts.push(Mutation::SetLen { field: Index(fi as u64), value: v });
            }
        }
        for m in muts {
            let c = RecCase { base: base.clone(), mutation: m };
            record_case(ctx, rep, "sweep-records", &c, |i| rec_case(&c, i));
        }
    }
    phase.mark(rep, "sweep-records");
    {
        let recipe = fixed_recipe();
        let base = build_archive(&dir, &recipe).expect("fixed archive");
        let l = read_layout(&base, RRDP_META).expect("fixed archive layout");
        let mut muts: Vec<AMut> = vec![AMut::None];
        let step = ctx.tier.pick(3, 1);
        for n in (0..base.len()).step_by(step) {
            muts.push(AMut::Truncate(Index(n as u64)));
        }
        let offs = arch_struct_offsets(&l);
        for oi in 0..offs.len() {
            for bit in 0..8u8 {
                if ctx.tier == Tier::Quick && (oi * 8 + bit as usize) % 2 == 1 && offs[oi] < 22 {
                    continue; // hash key bits: every second one in the quick tier
                }
                muts.push(AMut::FlipStruct { at: Index(oi as u64), bit });
            }
        }
        for field in AField::ALL {
            let n = if matches!(field, AField::BucketCount) { 1 } else { l.blocks.len().max(3) };
            for w in 0..n {
                for value in AVal::ALL {
                    muts.push(AMut::SetField { field, which: Index(w as u64), other: Index(((w + 1) % n) as u64), value });
                }
            }
        }
        for fi in 0..3 {
            for v in LenVal::ALL {
                muts.push(AMut::StateLen { field: Index(fi as u64), value: v });
            }
        }
        for m in muts {
            let c = ArchCase { recipe: recipe.clone(), mutation: m };
            // same as arch_case, with the base built once
            record_case(ctx, rep, "sweep-archive", &c, |i| {
                i.class(amut_class(&c.mutation));
                i.class(format!("buckets={}", c.recipe.buckets));
                x.judge_archive(&apply_arch(&base, &c.mutation), &probes, CALL_ALL, false, i)
            });
        }
    }
    x.flush(rep);
    phase.mark(rep, "sweep-archive");

    // (a) generated bases, one mutation each; (c) arbitrary bytes
    run_prop(ctx, rep, "records", ctx.tier.pick(20_000, 300_000), (base_strategy(), mutation_strategy()).prop_map(|(base, mutation)| RecCase { base, mutation }), rec_case);
    run_prop(ctx, rep, "bytes", ctx.tier.pick(10_000, 100_000), raw_strategy(), raw_case);
    phase.mark(rep, "records+bytes");
    // recipes come from a pool generated once from the seed, so that base archives can be reused
    let pool = sample_strategy(&recipe_strategy(), ctx.seed_for("archive-recipes"), ctx.tier.pick(150, 3_000));
    run_prop(ctx, rep, "archive", ctx.tier.pick(8_000, 100_000), (prop::sample::select(pool), amut_strategy()).prop_map(|(recipe, mutation)| ArchCase { recipe, mutation }), arch_case);
    run_prop(ctx, rep, "archive-bytes", ctx.tier.pick(500, 10_000), prop::collection::vec(any::<u8>(), 0..200).prop_map(|mut d| {
        for (i, b) in ARCH_MAGIC.iter().enumerate() {
            if i < d.len() && d.len() % 4 != 0 {
                d[i] = *b;
            }
        }
        Hex(d)
    }), arch_bytes);
    x.flush(rep);
    phase.mark(rep, "archive");

    // (d) seed corpus of the fuzz targets through the same judges
    for rec in Rec::ALL {
        let target = format!("dec_{}", rec.name());
        crate::fz::replay_corpus(ctx, rep, &target, |d, i| x.judge_record(rec, d, true, false, i));
    }
    crate::fz::replay_corpus(ctx, rep, "archive_file", |d, i| x.judge_archive(d, &probes, CALL_ALL, false, i));
    x.flush(rep);

    // (e) whole-engine leg: corrupt files in a real cache directory, full validation run in a child
    crate::c27e::run(ctx, rep, None);

    if ctx.tier == Tier::Thorough {
        for rec in Rec::ALL {
            let target = format!("dec_{}", rec.name());
            crate::fz::campaign(ctx, rep, &target, 60_000, 1024, |d, i| x.judge_record(rec, d, true, true, i));
        }
        crate::fz::campaign(ctx, rep, "archive_file", 50_000, 4096, |d, i| x.judge_archive(d, &probes, CALL_ALL, true, i));
        x.flush(rep);
    }
}

