//! C20 Route origin validation follows RFC 6811.
//!
//! Reference: an own cover test on left-aligned u128 address bits. Routes are derived from the
//! generated VRPs (equal, inside, at max-len -1/=/+1, covering, sibling, other family) so that
//! the interesting relations are the common case. Observed through `RouteValidity`, the request
//! list readers/writers used by the `validate` command, both GET endpoints of the real HTTP
//! dispatcher, the batch POST endpoint over a loopback listener and the `validate` command line run
//! in a child process (`rvchild routinator …`, the steps of routinator's main.rs).

use std::net::{IpAddr, Ipv4Addr, Ipv6Addr, SocketAddr};

use proptest::prelude::*;
use routinator::metrics::Metrics;
use routinator::validity::{RequestList, RouteState, RouteValidity};
use rpki::resources::addr::Prefix;
use rpki::resources::asn::Asn;
use serde::{Deserialize, Serialize};

use crate::core::*;
use crate::fmtx::*;
use crate::parsers::*;
use crate::pay::*;

#[derive(Serialize, Deserialize, Clone, Debug, PartialEq, Eq, Hash)]
pub struct Route {
    pub addr: IpAddr,
    pub len: u8,
    pub asn: u32,
}

impl Route {
    fn bits(&self) -> u128 {
        match self.addr {
            IpAddr::V4(a) => (u32::from(a) as u128) << 96,
            IpAddr::V6(a) => u128::from(a),
        }
    }
    fn prefix(&self) -> Prefix {
        Prefix::new(self.addr, self.len).expect("route prefix")
    }
    fn text(&self) -> String {
        format!("{}/{}", self.addr, self.len)
    }
}

/// How a route is derived from the VRP set.
#[derive(Serialize, Deserialize, Clone, Debug)]
pub struct RouteSpec {
    /// index into the VRP list (modulo its length)
    pub vrp: usize,
    /// 0 equal, 1 inside (len+k), 2 len=max_len-1, 3 len=max_len, 4 len=max_len+1, 5 covering (len-k),
    /// 6 sibling, 7 other family, 8 unrelated random
    pub rel: u8,
    pub k: u8,
    pub bits: u128,
    /// 0 VRP's AS, 1 AS of the next VRP, 2 AS0, 3 VRP's AS + 1, 4 random
    pub asn_sel: u8,
    pub asn_rnd: u32,
}

#[derive(Serialize, Deserialize, Clone, Debug)]
pub struct Case {
    pub vrps: Vec<MOrigin>,
    pub specs: Vec<RouteSpec>,
}

fn from_bits(v4: bool, bits: u128, len: u8) -> (IpAddr, u8) {
    let fam = if v4 { 32 } else { 128 };
    let len = len.min(fam);
    let m = if len == 0 { 0 } else { u128::MAX << (128 - len as u32) };
    let b = bits & m;
    if v4 {
        (IpAddr::V4(Ipv4Addr::from((b >> 96) as u32)), len)
    } else {
        (IpAddr::V6(Ipv6Addr::from(b)), len)
    }
}

pub fn derive_route(vrps: &[MOrigin], s: &RouteSpec) -> Route {
    let fallback = MOrigin::new(IpAddr::V4(Ipv4Addr::new(10, 0, 0, 0)), 8, None, 64496);
    let v = if vrps.is_empty() { &fallback } else { &vrps[s.vrp % vrps.len()] };
    let v4 = v.is_v4();
    let fam: u8 = if v4 { 32 } else { 128 };
    // low bits below the VRP's length are free
    let low = if v.len == 0 { s.bits } else if v.len as u32 >= 128 { 0 } else { s.bits >> v.len as u32 };
    let inside = v.bits() | low;
    let (addr, len) = match s.rel {
        0 => from_bits(v4, v.bits(), v.len),
        1 => from_bits(v4, inside, v.len.saturating_add(1 + s.k % 9)),
        2 => from_bits(v4, inside, v.max_len.saturating_sub(1).max(v.len)),
        3 => from_bits(v4, inside, v.max_len),
        4 => from_bits(v4, inside, v.max_len.saturating_add(1)),
        5 => from_bits(v4, v.bits(), v.len.saturating_sub(1 + s.k % 9)),
        6 => {
            if v.len == 0 {
                from_bits(v4, v.bits(), 0)
            } else {
                let flip = 1u128 << (128 - v.len as u32);
                from_bits(v4, (v.bits() ^ flip) | (low & (flip - 1)), v.len.saturating_add(s.k % 3))
            }
        }
        7 => {
            // same leading bits, other family
            if v4 {
                from_bits(false, v.bits(), v.len.min(fam))
            } else {
                from_bits(true, v.bits(), v.len.min(32))
            }
        }
        _ => from_bits(s.k % 2 == 0, s.bits, s.k % (if s.k % 2 == 0 { 33 } else { 129 })),
    };
    let next = if vrps.is_empty() { &fallback } else { &vrps[(s.vrp + 1) % vrps.len()] };
    let asn = match s.asn_sel {
        0 => v.asn,
        1 => next.asn,
        2 => 0,
        3 => v.asn.wrapping_add(1),
        _ => s.asn_rnd,
    };
    Route { addr, len, asn }
}

//------------------------------------------------------------------------------------------
// Reference (RFC 6811 section 2)

pub fn covers(v: &MOrigin, r: &Route) -> bool {
    if v.is_v4() != r.addr.is_ipv4() || v.len > r.len {
        return false;
    }
    if v.len == 0 {
        return true;
    }
    (v.bits() ^ r.bits()) >> (128 - v.len as u32) == 0
}

#[derive(Clone, Debug, PartialEq, Eq)]
pub enum RState {
    Valid,
    Invalid,
    NotFound,
}

impl RState {
    fn name(&self) -> &'static str {
        match self {
            RState::Valid => "valid",
            RState::Invalid => "invalid",
            RState::NotFound => "not-found",
        }
    }
}

pub struct Expect {
    pub state: RState,
    pub covering: Vec<MOrigin>,
    pub matched: Vec<MOrigin>,
    pub as_only: usize,
    pub len_only: usize,
    pub both: usize,
}

pub fn expect(vrps: &[MOrigin], r: &Route) -> Expect {
    let covering: Vec<MOrigin> = vrps.iter().filter(|v| covers(v, r)).cloned().collect();
    let matched: Vec<MOrigin> = covering.iter().filter(|v| v.asn == r.asn && r.len <= v.max_len).cloned().collect();
    let as_only = covering.iter().filter(|v| v.asn != r.asn && r.len <= v.max_len).count();
    let len_only = covering.iter().filter(|v| v.asn == r.asn && r.len > v.max_len).count();
    let both = covering.iter().filter(|v| v.asn != r.asn && r.len > v.max_len).count();
    let state = if !matched.is_empty() {
        RState::Valid
    } else if !covering.is_empty() {
        RState::Invalid
    } else {
        RState::NotFound
    };
    Expect { state, covering, matched, as_only, len_only, both }
}

/// What an observation point reported for one route.
pub struct Observed {
    pub state: String,
    pub reason: Option<String>,
    pub matched: Vec<MOrigin>,
    pub bad_asn: Vec<MOrigin>,
    pub bad_len: Vec<MOrigin>,
}

fn sorted<T: Ord>(mut v: Vec<T>) -> Vec<T> {
    v.sort();
    v
}

/// The oracle. `via` names the observation point and is part of the failure key.
pub fn judge_route(via: &str, vrps: &[MOrigin], r: &Route, obs: &Observed, info: &mut CaseInfo) -> Verdict {
    let e = expect(vrps, r);
    info.class(format!("leg={}", via));
    info.class(format!("state={}", e.state.name()));
    let verdict_kinds = (!e.matched.is_empty()) as u8 + (e.as_only > 0) as u8 + (e.len_only > 0) as u8 + (e.both > 0) as u8;
    info.nt(e.covering.len() >= 2 && verdict_kinds >= 2);
    if e.both > 0 {
        info.class("vrp_fails_as_and_length");
    }
    if e.covering.len() >= 2 && verdict_kinds >= 2 {
        info.class("mixed_verdicts");
    }
    if e.covering.iter().any(|v| v.max_len == r.len) {
        info.class("len_eq_maxlen");
    }
    if e.covering.iter().any(|v| v.max_len as u16 + 1 == r.len as u16) {
        info.class("len_eq_maxlen_plus_1");
    }
    let ctx = || format!("route {} AS{} against {:?}", r.text(), r.asn, vrps);
    if obs.state != e.state.name() {
        return Verdict::fail(format!("C20/{}/state/expected={}/got={}", via, e.state.name(), obs.state), format!("{}: state {:?}, reference {:?} (covering {:?})", ctx(), obs.state, e.state.name(), e.covering));
    }
    if sorted(obs.matched.clone()) != sorted(e.matched.clone()) {
        return Verdict::fail(format!("C20/{}/matched-list", via), format!("{}: matched {:?}, reference {:?}", ctx(), obs.matched, e.matched));
    }
    let mut un: Vec<MOrigin> = obs.bad_asn.iter().chain(obs.bad_len.iter()).cloned().collect();
    un.sort();
    let ref_un: Vec<MOrigin> = sorted(e.covering.iter().filter(|v| !e.matched.contains(v)).cloned().collect());
    if un != ref_un {
        return Verdict::fail(format!("C20/{}/unmatched-lists", via), format!("{}: unmatched_as {:?} + unmatched_length {:?} is not the set of covering, non-matching VRPs {:?}", ctx(), obs.bad_asn, obs.bad_len, ref_un));
    }
    if let Some(v) = obs.bad_asn.iter().find(|v| v.asn == r.asn) {
        return Verdict::fail(format!("C20/{}/unmatched-as-has-same-as", via), format!("{}: {:?} listed as unmatched_as", ctx(), v));
    }
    if let Some(v) = obs.bad_len.iter().find(|v| r.len <= v.max_len) {
        return Verdict::fail(format!("C20/{}/unmatched-length-has-fitting-length", via), format!("{}: {:?} listed as unmatched_length", ctx(), v));
    }
    match (e.state == RState::Invalid, obs.reason.as_deref()) {
        (false, None) => {}
        (false, Some(x)) => return Verdict::fail(format!("C20/{}/reason-on-{}", via, e.state.name()), format!("{}: reason {:?} given for state {}", ctx(), x, e.state.name())),
        (true, None) => return Verdict::fail(format!("C20/{}/reason-missing", via), format!("{}: invalid without reason", ctx())),
        (true, Some("as")) => {
            info.class("reason=as");
            if obs.bad_asn.is_empty() {
                return Verdict::fail(format!("C20/{}/reason-as-without-unmatched-as", via), ctx());
            }
        }
        (true, Some("length")) => {
            info.class("reason=length");
            if obs.bad_len.is_empty() {
                return Verdict::fail(format!("C20/{}/reason-length-without-unmatched-length", via), ctx());
            }
        }
        (true, Some(x)) => return Verdict::fail(format!("C20/{}/reason-unknown", via), format!("{}: reason {:?}", ctx(), x)),
    }
    Verdict::Pass
}

fn state_name(s: RouteState) -> &'static str {
    match s {
        RouteState::Valid => "valid",
        RouteState::Invalid => "invalid",
        RouteState::NotFound => "not-found",
    }
}

/// Decodes one "validated route" JSON object (manual: validity-checker.rst).
pub fn decode_route_json(v: &JVal) -> Result<(Route, Observed), String> {
    let route = v.get("route").ok_or("route member missing")?;
    let asn = parse_asn_strict(route.get("origin_asn").and_then(|x| x.as_str()).ok_or("origin_asn missing")?)?;
    let (addr, len) = parse_prefix(route.get("prefix").and_then(|x| x.as_str()).ok_or("prefix missing")?)?;
    let val = v.get("validity").ok_or("validity member missing")?;
    let state = val.get("state").and_then(|x| x.as_str()).ok_or("state missing")?.to_string();
    let reason = match val.get("reason") {
        None => None,
        Some(JVal::Str(s)) => Some(s.clone()),
        Some(_) => return Err("reason is not a string".into()),
    };
    val.get("description").and_then(|x| x.as_str()).ok_or("description missing")?;
    let lists = val.get("VRPs").ok_or("VRPs member missing")?;
    let list = |name: &str| -> Result<Vec<MOrigin>, String> {
        let arr = lists.get(name).filter(|a| a.is_arr()).ok_or_else(|| format!("{} missing", name))?;
        arr.items()
            .iter()
            .map(|i| {
                let asn = parse_asn_strict(i.get("asn").and_then(|x| x.as_str()).ok_or("vrp asn missing")?)?;
                let p = parse_prefix(i.get("prefix").and_then(|x| x.as_str()).ok_or("vrp prefix missing")?)?;
                let m = parse_u8(i.get("max_length").and_then(|x| x.as_str()).ok_or("vrp max_length missing")?)?;
                Ok(MOrigin { addr: p.0, len: p.1, max_len: m, asn })
            })
            .collect()
    };
    Ok((Route { addr, len, asn }, Observed { state, reason, matched: list("matched")?, bad_asn: list("unmatched_as")?, bad_len: list("unmatched_length")? }))
}

fn snapshot_of(vrps: &[MOrigin]) -> routinator::payload::PayloadSnapshot {
    MSet::from_items(vrps.iter().cloned().map(MItem::Origin)).to_snapshot()
}

fn dedup(vrps: &[MOrigin]) -> Vec<MOrigin> {
    let set: std::collections::BTreeSet<MOrigin> = vrps.iter().cloned().collect();
    set.into_iter().collect()
}

fn routes_of(case: &Case, vrps: &[MOrigin], info: &mut CaseInfo) -> Vec<Route> {
    case.specs
        .iter()
        .map(|s| {
            info.class(format!("rel={}", s.rel.min(8)));
            derive_route(vrps, s)
        })
        .collect()
}

//------------------------------------------------------------------------------------------
// Legs

/// Leg A+B: `RouteValidity::new` and the request-list readers / writers of the validate command.
fn prop_api(case: &Case, info: &mut CaseInfo) -> Verdict {
    let vrps = dedup(&case.vrps);
    let snap = snapshot_of(&vrps);
    let routes = routes_of(case, &vrps, info);
    for r in &routes {
        let rv = RouteValidity::new(r.prefix(), Asn::from_u32(r.asn), &snap);
        let conv = |l: &[(rpki::rtr::payload::RouteOrigin, &routinator::payload::PayloadInfo)]| l.iter().map(|(o, _)| MOrigin::from_rpki(*o)).collect::<Vec<_>>();
        let obs = Observed { state: state_name(rv.state()).to_string(), reason: rv.reason().map(|s| s.to_string()), matched: conv(rv.matched()), bad_asn: conv(rv.bad_asn()), bad_len: conv(rv.bad_len()) };
        if let Verdict::Fail { key, msg } = judge_route("api", &vrps, r, &obs, info) {
            return Verdict::Fail { key, msg };
        }
    }
    if routes.is_empty() {
        return Verdict::Pass;
    }
    // the validate command's file inputs: plain "PREFIX => ASN" lines and the JSON document
    let plain: String = routes.iter().enumerate().map(|(i, r)| if i % 2 == 0 { format!("{} => {}\n", r.text(), r.asn) } else { format!("  {}   =>  AS{}  # comment {}\n\n", r.text(), r.asn, i) }).collect();
    let json_in = serde_json::json!({"routes": routes.iter().enumerate().map(|(i, r)| if i % 2 == 0 { serde_json::json!({"asn": format!("AS{}", r.asn), "prefix": r.text()}) } else { serde_json::json!({"prefix": r.text(), "asn": r.asn}) }).collect::<Vec<_>>()}).to_string();
    let lists = [("plain-input", RequestList::from_plain_reader(plain.as_bytes()).map_err(|e| e.to_string())), ("json-input", RequestList::from_json_reader(&mut json_in.as_bytes()).map_err(|e| e.to_string()))];
    for (via, list) in lists {
        let list = match list {
            Ok(l) => l,
            Err(e) => return Verdict::fail(format!("C20/{}/rejected", via), format!("well-formed request list rejected: {}", e)),
        };
        let result = list.validity(&snap);
        let states: Vec<(Route, String)> = result.iter_state().map(|(p, a, s)| (Route { addr: p.addr(), len: p.len(), asn: a.into_u32() }, state_name(s).to_string())).collect();
        if states.iter().map(|s| &s.0).collect::<Vec<_>>() != routes.iter().collect::<Vec<_>>() {
            return Verdict::fail(format!("C20/{}/routes-differ", via), format!("read {:?}, written {:?}", states, routes));
        }
        let mut plain_out = Vec::new();
        result.write_plain(&mut plain_out).expect("write_plain");
        let want: String = routes.iter().map(|r| format!("{} => AS{}: {}\n", r.text(), r.asn, expect(&vrps, r).state.name())).collect();
        if String::from_utf8_lossy(&plain_out) != want {
            return Verdict::fail(format!("C20/{}/plain-output", via), format!("plain output {:?}, reference {:?} for VRPs {:?}", String::from_utf8_lossy(&plain_out), want, vrps));
        }
        let mut json_out = Vec::new();
        result.write_json(&mut json_out).expect("write_json");
        if let Verdict::Fail { key, msg } = judge_batch_json(via, &vrps, &routes, &json_out, info) {
            return Verdict::Fail { key, msg };
        }
    }
    Verdict::Pass
}

fn judge_batch_json(via: &str, vrps: &[MOrigin], routes: &[Route], body: &[u8], info: &mut CaseInfo) -> Verdict {
    let doc = match JVal::parse(body) {
        Ok(d) => d,
        Err(e) => return Verdict::fail(format!("C20/{}/invalid-json", via), format!("{}: {:?}", e, String::from_utf8_lossy(body))),
    };
    let arr = match doc.get("validated_routes") {
        Some(a) if a.is_arr() => a.items(),
        _ => return Verdict::fail(format!("C20/{}/json-shape", via), "validated_routes missing"),
    };
    if arr.len() != routes.len() {
        return Verdict::fail(format!("C20/{}/route-count", via), format!("{} routes asked, {} answered", routes.len(), arr.len()));
    }
    for (r, v) in routes.iter().zip(arr) {
        let (echo, obs) = match decode_route_json(v) {
            Ok(x) => x,
            Err(e) => return Verdict::fail(format!("C20/{}/json-shape", via), e),
        };
        if echo != *r {
            return Verdict::fail(format!("C20/{}/route-echo", via), format!("asked {:?}, answered for {:?}", r, echo));
        }
        if let Verdict::Fail { key, msg } = judge_route(via, vrps, r, &obs, info) {
            return Verdict::Fail { key, msg };
        }
    }
    Verdict::Pass
}

pub struct Env<'a> {
    pub kit: &'a Kit,
    pub rt: &'a tokio::runtime::Runtime,
    pub ctx: &'a Ctx,
}

fn install_vrps(env: &Env, served: &Served, vrps: &[MOrigin], published: bool) {
    if published {
        served.update(env.kit, &[PubSpec { tal_name: "ta".into(), origins: vrps.to_vec(), aspas: vec![] }], &LocalSpec::default(), Metrics::new());
    } else {
        served.update(env.kit, &[], &LocalSpec { origins: vrps.iter().cloned().map(|o| (o, None)).collect(), keys: vec![] }, Metrics::new());
    }
}

/// Leg C: the two GET endpoints through the real dispatcher.
fn prop_http(env: &Env, case: &Case, info: &mut CaseInfo) -> Verdict {
    let vrps = dedup(&case.vrps);
    let served = Served::new(env.ctx.scratch(), 2, false);
    install_vrps(env, &served, &vrps, case.specs.len() % 2 == 0);
    let routes = routes_of(case, &vrps, info);
    for (i, r) in routes.iter().enumerate() {
        let (via, uri) = match i % 3 {
            0 => ("get-path", format!("/api/v1/validity/AS{}/{}", r.asn, r.text())),
            1 => ("get-path", format!("/api/v1/validity/{}/{}", r.asn, r.text())),
            _ => ("get-query", format!("/validity?asn={}&prefix={}", if i % 2 == 0 { format!("AS{}", r.asn) } else { r.asn.to_string() }, pct(&r.text()))),
        };
        let resp = get(env.rt, &served.handler, &uri);
        if resp.status != 200 {
            return Verdict::fail(format!("C20/{}/status", via), format!("GET {} -> {} {:?}", uri, resp.status, String::from_utf8_lossy(&resp.body())));
        }
        let body = resp.body();
        let doc = match JVal::parse(&body) {
            Ok(d) => d,
            Err(e) => return Verdict::fail(format!("C20/{}/invalid-json", via), format!("GET {}: {}", uri, e)),
        };
        let v = match doc.get("validated_route") {
            Some(v) => v,
            None => return Verdict::fail(format!("C20/{}/json-shape", via), "validated_route missing"),
        };
        let (echo, obs) = match decode_route_json(v) {
            Ok(x) => x,
            Err(e) => return Verdict::fail(format!("C20/{}/json-shape", via), format!("GET {}: {}", uri, e)),
        };
        if echo != *r {
            return Verdict::fail(format!("C20/{}/route-echo", via), format!("GET {} answered for {:?}", uri, echo));
        }
        if let Verdict::Fail { key, msg } = judge_route(via, &vrps, r, &obs, info) {
            return Verdict::Fail { key, msg };
        }
    }
    Verdict::Pass
}

/// Leg D: batch POST over a real loopback listener serving `served`.
fn prop_post(env: &Env, served: &Served, addr: SocketAddr, case: &Case, info: &mut CaseInfo) -> Verdict {
    let vrps = dedup(&case.vrps);
    install_vrps(env, served, &vrps, case.specs.len() % 2 == 1);
    let routes = routes_of(case, &vrps, info);
    let body = serde_json::json!({"routes": routes.iter().map(|r| serde_json::json!({"asn": format!("AS{}", r.asn), "prefix": r.text()})).collect::<Vec<_>>()}).to_string();
    if body.len() > 90_000 {
        return Verdict::Dropped("post_body_near_limit".into());
    }
    let (status, _, resp) = match http_request(addr, "POST", "/validity", &[("Content-Type", "application/json")], body.as_bytes()) {
        Ok(x) => x,
        Err(e) => return Verdict::Dropped(format!("post_transport_error:{}", e.split(':').next().unwrap_or(""))),
    };
    if status != 200 {
        return Verdict::fail("C20/post/status", format!("POST /validity -> {} {:?}", status, String::from_utf8_lossy(&resp)));
    }
    judge_batch_json("post", &vrps, &routes, &resp, info)
}

/// Leg E: the `validate` command, in-process through clap → `Operation::run`, VRPs from a local
/// exceptions file, no trust anchors, no network.
fn prop_cli(env: &Env, case: &Case, info: &mut CaseInfo) -> Verdict {
    let vrps = dedup(&case.vrps);
    let routes = routes_of(case, &vrps, info);
    if routes.is_empty() {
        return Verdict::Pass;
    }
    let dir = env.ctx.scratch();
    let p = |n: &str| dir.path().join(n);
    std::fs::create_dir_all(p("tals")).unwrap();
    std::fs::write(p("exceptions.json"), slurm_json(&LocalSpec { origins: vrps.iter().cloned().map(|o| (o, None)).collect(), keys: vec![] })).unwrap();
    let json = case.specs.len() % 2 == 0;
    let single = routes.len() == 1;
    if json {
        std::fs::write(p("in"), serde_json::json!({"routes": routes.iter().map(|r| serde_json::json!({"asn": format!("AS{}", r.asn), "prefix": r.text()})).collect::<Vec<_>>()}).to_string()).unwrap();
    } else {
        std::fs::write(p("in"), routes.iter().map(|r| format!("{} => {}\n", r.text(), r.asn)).collect::<String>()).unwrap();
    }
    let s = |x: std::path::PathBuf| x.to_string_lossy().to_string();
    let mut args: Vec<String> = vec![
        "routinator".into(),
        "--config".into(),
        s(p("none.conf")),
        "-r".into(),
        s(p("cache")),
        "--no-rir-tals".into(),
        "--extra-tals-dir".into(),
        s(p("tals")),
        "--disable-rsync".into(),
        "--disable-rrdp".into(),
        "-x".into(),
        s(p("exceptions.json")),
        "--logfile".into(),
        s(p("log")),
        "validate".into(),
        "--noupdate".into(),
        "-o".into(),
        s(p("out")),
    ];
    if json {
        args.push("--json".into());
    }
    if single {
        info.class("cli_single_route_form");
        args.extend(["--asn".into(), routes[0].asn.to_string(), "--prefix".into(), routes[0].text()]);
    } else {
        args.extend(["-i".into(), s(p("in"))]);
    }
    std::fs::write(p("none.conf"), format!("repository-dir = {:?}\n", s(p("cache")))).unwrap();
    let (code, _stdout, stderr) = run_routinator(&args[1..], dir.path());
    if code != Some(0) {
        let log = std::fs::read_to_string(p("log")).unwrap_or_default();
        return Verdict::fail("C20/cli/exit-status", format!("validate exited with {:?} for a well-formed request: {} {}", code, truncate(&log, 600), truncate(&String::from_utf8_lossy(&stderr), 600)));
    }
    let out = std::fs::read(p("out")).unwrap_or_default();
    if json {
        judge_batch_json("cli-json", &vrps, &routes, &out, info)
    } else {
        let want: String = routes.iter().map(|r| format!("{} => AS{}: {}\n", r.text(), r.asn, expect(&vrps, r).state.name())).collect();
        for r in &routes {
            info.class("leg=cli-plain");
            info.class(format!("state={}", expect(&vrps, r).state.name()));
            let e = expect(&vrps, r);
            info.nt(e.covering.len() >= 2 && e.matched.len() < e.covering.len());
        }
        if String::from_utf8_lossy(&out) != want {
            return Verdict::fail("C20/cli-plain/output", format!("output {:?}, reference {:?} for VRPs {:?}", String::from_utf8_lossy(&out), want, vrps));
        }
        Verdict::Pass
    }
}

//------------------------------------------------------------------------------------------
// Generators

/// VRP sets: a few seeds plus VRPs derived from them (same prefix other AS / max-len, more and
/// less specific), so that several VRPs cover the same routes.
fn vrps_strategy(max_seeds: usize, max_derived: usize) -> impl Strategy<Value = Vec<MOrigin>> {
    (prop::collection::vec(origin_strategy(), 0..=max_seeds), prop::collection::vec((any::<usize>(), -6i8..=6, 0u8..5, any::<u8>(), 0u8..4, any::<u128>()), 0..=max_derived)).prop_map(|(seeds, derived)| {
        let mut out = seeds.clone();
        if seeds.is_empty() {
            return out;
        }
        for (idx, dlen, mclass, rnd, asel, bits) in derived {
            let base = &seeds[idx % seeds.len()];
            let fam: i16 = if base.is_v4() { 32 } else { 128 };
            let len = (base.len as i16 + dlen as i16).clamp(0, fam) as u8;
            let low = if base.len == 0 { bits } else if base.len >= 128 { 0 } else { bits >> base.len as u32 };
            let (addr, len) = from_bits(base.is_v4(), base.bits() | low, len);
            let max = match mclass {
                0 => None,
                1 => Some(len),
                2 => Some((len + 1).min(fam as u8)),
                3 => Some(fam as u8),
                _ => Some(len + rnd % (fam as u8 - len + 1)),
            };
            let asn = match asel {
                0 => base.asn,
                1 => base.asn.wrapping_add(1),
                2 => 0,
                _ => 64496 + (rnd as u32 % 4),
            };
            out.push(MOrigin::new(addr, len, max, asn));
        }
        out
    })
}

fn spec_strategy() -> impl Strategy<Value = RouteSpec> {
    (any::<usize>(), prop_oneof![8 => 0u8..8, 1 => Just(8u8)], any::<u8>(), any::<u128>(), prop_oneof![5 => Just(0u8), 2 => Just(1u8), 1 => Just(2u8), 1 => Just(3u8), 1 => Just(4u8)], asn_strategy())
        .prop_map(|(vrp, rel, k, bits, asn_sel, asn_rnd)| RouteSpec { vrp, rel, k, bits, asn_sel, asn_rnd })
}

fn case_strategy(max_routes: usize) -> impl Strategy<Value = Case> {
    (vrps_strategy(8, 22), prop::collection::vec(spec_strategy(), 1..=max_routes)).prop_map(|(vrps, specs)| Case { vrps, specs })
}

/// Reference self-test on hand-computed RFC 6811 examples (preamble; failure = exit 2).
fn selftest() -> Result<(), String> {
    let v = |a: [u8; 4], len: u8, max: u8, asn: u32| MOrigin::new(IpAddr::V4(Ipv4Addr::from(a)), len, Some(max), asn);
    let r = |a: [u8; 4], len: u8, asn: u32| Route { addr: IpAddr::V4(Ipv4Addr::from(a)), len, asn };
    let vrps = vec![v([10, 0, 0, 0], 8, 16, 1), v([10, 1, 0, 0], 16, 24, 2), v([0, 0, 0, 0], 0, 0, 3)];
    let cases = [
        (r([10, 1, 0, 0], 16, 1), RState::Valid, 3usize),
        (r([10, 1, 0, 0], 24, 2), RState::Valid, 3),
        (r([10, 1, 0, 0], 25, 2), RState::Invalid, 3),
        (r([10, 1, 0, 0], 17, 1), RState::Invalid, 3),
        (r([11, 0, 0, 0], 8, 1), RState::Invalid, 1),
        (r([0, 0, 0, 0], 0, 3), RState::Valid, 1),
        (r([10, 0, 0, 0], 7, 1), RState::Invalid, 1),
    ];
    for (route, state, ncover) in cases {
        let e = expect(&vrps, &route);
        if e.state != state || e.covering.len() != ncover {
            return Err(format!("reference self-test: {:?} gives {:?}/{} covering, expected {:?}/{}", route, e.state, e.covering.len(), state, ncover));
        }
    }
    let v6 = MOrigin::new("2001:db8::".parse().unwrap(), 32, Some(48), 5);
    let r6 = Route { addr: "2001:db8:1::".parse().unwrap(), len: 48, asn: 5 };
    if expect(&[v6.clone()], &r6).state != RState::Valid || expect(&[v6.clone()], &r([32, 1, 13, 184], 32, 5)).state != RState::NotFound {
        return Err("reference self-test: IPv6 / other-family example".into());
    }
    if expect(&[v6], &Route { addr: "2001:db9::".parse().unwrap(), len: 32, asn: 5 }).state != RState::NotFound {
        return Err("reference self-test: sibling".into());
    }
    Ok(())
}

pub fn run(ctx: &Ctx, rep: &mut Report, replay: Option<&serde_json::Value>) {
    rep.rule(
        "VRP sets of 0..=30 entries (seeds from a small address pool plus VRPs derived from them: other AS / max-len, more and less specific) and 1..=12 routes derived from the VRPs (equal, inside, at max-len-1/=/+1, covering, sibling, other family, unrelated; AS equal / another VRP's / 0 / +1 / random), judged by an own u128 cover test; legs: RouteValidity::new, request-list plain+JSON readers and writers, GET /api/v1/validity/AS/prefix and /validity?asn&prefix through the real dispatcher, POST /validity over a loopback listener, the validate command line in a child process; non-trivial = route covered by >=2 VRPs with different verdicts; distinct by serialised case",
    );
    rep.assume("a VRP that fails both the AS and the length test may be reported in either unmatched list (the property only demands a partition); reason must agree with the reported lists; 'description' is not judged");
    rep.assume("the validate command line is run in a child process that performs the steps of routinator's main.rs (Operation::prepare, clap parsing, Config, Operation::run) with VRPs supplied by a local-exceptions file and no trust anchors");
    if let Err(e) = selftest() {
        eprintln!("C20 preamble failed: {}", e);
        std::process::exit(2);
    }
    let kit = Kit::new();
    let rt = runtime();
    let env = Env { kit: &kit, rt: &rt, ctx };
    let start_listener = || spawn_listener(ctx);
    if let Some(v) = replay {
        let t: Tagged<Case> = serde_json::from_value(v.clone()).expect("replay");
        match t.sub.as_str() {
            "api" => run_case(ctx, rep, "api", &t.case, prop_api),
            "http" => run_case(ctx, rep, "http", &t.case, |c, i| prop_http(&env, c, i)),
            "post" => {
                let (served, addr) = start_listener().unwrap_or_else(|| {
                    eprintln!("C20: cannot start loopback listener");
                    std::process::exit(2)
                });
                run_case(ctx, rep, "post", &t.case, |c, i| prop_post(&env, &served, addr, c, i))
            }
            "cli" => run_case(ctx, rep, "cli", &t.case, |c, i| prop_cli(&env, c, i)),
            other => panic!("unknown sub {}", other),
        }
        return;
    }
    // VERIF_ONLY_SUB=<api|http|post|cli> restricts the run to one leg (used for sensitivity runs).
    let only = std::env::var("VERIF_ONLY_SUB").ok();
    let want = |s: &str| only.as_deref().map(|o| o == s).unwrap_or(true);
    if want("api") {
        run_prop(ctx, rep, "api", ctx.tier.pick(6_000, 250_000), case_strategy(12), prop_api);
    }
    if want("http") {
        run_prop(ctx, rep, "http", ctx.tier.pick(700, 20_000), case_strategy(9), |c, i| prop_http(&env, c, i));
    }
    if want("post") {
        match start_listener() {
            Some((served, addr)) => run_prop(ctx, rep, "post", ctx.tier.pick(150, 3_000), case_strategy(40), |c, i| prop_post(&env, &served, addr, c, i)),
            None => {
                eprintln!("C20: cannot start loopback listener");
                std::process::exit(2);
            }
        }
    }
    if want("cli") {
        // one child process per case: sampled cases without shrinking (the other legs deliver
        // shrunk counterexamples for the same oracle)
        for case in sample_strategy(&case_strategy(6), ctx.seed_for("cli"), ctx.tier.pick(24, 400)) {
            if rep.violated() {
                break;
            }
            run_case(ctx, rep, "cli", &case, |c, i| prop_cli(&env, c, i));
        }
    }
}
