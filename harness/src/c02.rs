//! C02 Valid payload is never silently dropped (completeness direction + clean/faulty differential).

use proptest::strategy::Strategy;

use crate::c01::judge_scenario;
use crate::core::*;
use crate::erpki::*;
use crate::escen::*;


/// In a third of the scenarios an ancestor announces, in a ROA of its own, the address space it
/// delegated to one of its descendants. Such payload overlaps the resources of another CA: when that
/// CA's publication point is rejected, only the unsafe-vrps policy `reject` may remove it.
pub fn with_overlapping_roa(mut sc: Scenario, words: &[u16]) -> Scenario {
    let mut d = D::new(words);
    for _ in 0..23 {
        d.next();
    }
    if !d.chance(1, 3) {
        return sc;
    }
    let non_roots: Vec<usize> = (0..sc.cas.len()).filter(|i| sc.cas[*i].parent.is_some()).collect();
    if non_roots.is_empty() {
        return sc;
    }
    let x = non_roots[d.below(non_roots.len())];
    let anc = if d.chance(1, 2) { root_of(&sc, x) } else { sc.cas[x].parent.unwrap() };
    let r = own_res(x);
    let prefixes: Vec<(std::net::IpAddr, u8, Option<u8>)> = vec![(std::net::IpAddr::V4(r.v4[0].0), r.v4[0].1, None), (std::net::IpAddr::V6(r.v6[0].0), r.v6[0].1, Some(56))];
    for v in sc.cas[anc].versions.iter_mut() {
        v.objs.push(Obj { kind: ObjKind::RoaRaw { asn: 64990, prefixes: prefixes.clone() }, not_after: 86400 * 30, fault: None });
    }
    sc
}

pub fn run(ctx: &Ctx, rep: &mut Report, replay: Option<&serde_json::Value>) {
    rep.rule("same E-rpki single-run scenarios as C01, completeness direction: every item of every valid, enabled object under an accepted chain (minus documented filters: prefix-length limits, unsafe-VRP reject, disabled BGPsec/ASPA) must be served; in a third of the scenarios an ancestor's ROA announces a descendant's delegated space (payload overlapping another CA's resources: removed only under unsafe-vrps reject when that CA is rejected); non-trivial = >=1 fault and >=1 valid payload item elsewhere; distinct by serialised scenario");
    rep.assume("reference model Appendix A; see C01");
    let profile = Profile::default();
    ctx.shrink_iters.store(150, std::sync::atomic::Ordering::Relaxed);
    if let Some(v) = replay {
        let t: Tagged<Scenario> = serde_json::from_value(v.clone()).expect("replay");
        if t.sub == "rrdp" {
            run_case(ctx, rep, &t.sub, &t.case, |sc, i| crate::c01::rrdp_single_prop("C02/rrdp", sc, i, false, true));
            return;
        }
        run_case(ctx, rep, &t.sub, &t.case, |sc, i| judge_scenario("C02", sc, i, false, true));
        return;
    }
    let p = profile.clone();
    run_prop_par(ctx, rep, "single", ctx.tier.pick(320, 8000), 16, || genome(160).prop_map({
        let p = p.clone();
        move |w| with_overlapping_roa(single_run(&w, &p), &w)
    }), |sc, i| {
        if sc.cas.iter().any(|c| c.versions.iter().any(|v| v.objs.iter().any(|o| matches!(o.kind, ObjKind::RoaRaw { asn: 64990, .. })))) {
            i.class("ancestor_roa_overlaps_descendant");
        }
        judge_scenario("C02", sc, i, false, true)
    });
    crate::c01::run_rrdp_single(ctx, rep, "C02/rrdp", false, true);
}
