//! C02 Valid payload is never silently dropped (completeness direction + clean/faulty differential).

use proptest::strategy::Strategy;

use crate::c01::judge_scenario;
use crate::core::*;
use crate::erpki::*;
use crate::escen::*;

pub fn run(ctx: &Ctx, rep: &mut Report, replay: Option<&serde_json::Value>) {
    rep.rule("same E-rpki single-run scenarios as C01, completeness direction: every item of every valid, enabled object under an accepted chain (minus documented filters: prefix-length limits, unsafe-VRP reject, disabled BGPsec/ASPA) must be served; non-trivial = >=1 fault and >=1 valid payload item elsewhere; distinct by serialised scenario");
    rep.assume("reference model Appendix A; see C01");
    let profile = Profile::default();
    ctx.shrink_iters.store(150, std::sync::atomic::Ordering::Relaxed);
    if let Some(v) = replay {
        let t: Tagged<Scenario> = serde_json::from_value(v.clone()).expect("replay");
        if t.sub == "rrdp" {
            run_case(ctx, rep, &t.sub, &t.case, |sc, i| crate::c01::rrdp_single_prop("C02/rrdp", sc, i, false, true));
            return;
        }
        run_case(ctx, rep, &t.sub, &t.case, |sc, i| judge_scenario("C02", sc, i, false, true));
        return;
    }
    let p = profile.clone();
    run_prop_par(ctx, rep, "single", ctx.tier.pick(320, 8000), 16, || genome(160).prop_map({
        let p = p.clone();
        move |w| single_run(&w, &p)
    }), |sc, i| judge_scenario("C02", sc, i, false, true));
    crate::c01::run_rrdp_single(ctx, rep, "C02/rrdp", false, true);
}
