//! C35 Printed configuration reads back identically.
//!
//! A = configuration obtained exactly like `main.rs` does (clap command built by
//! `Operation::config_args(Config::config_args(..))`, `Config::from_arg_matches`,
//! `Operation::from_arg_matches` for the `config` sub-command) from a generated command line,
//! optionally on top of a generated base config file; F = what `routinator config` prints
//! (`println!("{}", config)`); B = configuration read from `-c F` in the same working directory.
//! B must load and equal A field by field.

use std::collections::{BTreeMap, BTreeSet};
use std::path::{Path, PathBuf};
use std::sync::Mutex;

use clap::Command;
use proptest::prelude::*;
use routinator::{Config, Operation};
use serde::{Deserialize, Serialize};

use crate::core::*;

//------------ option table ------------------------------------------------------------------------

#[derive(Clone, Copy, Debug, PartialEq, Eq)]
enum Kind {
    Flag,
    /// u64 / usize on the command line
    Num,
    /// u8 with an upper limit
    Small(u8),
    Str,
    PathV,
    PathList,
    StrList,
    Policy,
    Fallback,
    Ip,
    SockList,
    /// -v / -q, value = count
    Count,
    Facility,
    Logfile,
}

struct Opt {
    /// long option name on the command line
    cli: &'static str,
    /// key in the config file ("" = none of its own)
    key: &'static str,
    /// field of `Config`
    field: &'static str,
    kind: Kind,
    /// argument of the sub-command (server options) rather than global
    server: bool,
}

const fn o(cli: &'static str, key: &'static str, field: &'static str, kind: Kind, server: bool) -> Opt {
    Opt { cli, key, field, kind, server }
}

use Kind::*;
static OPTS: &[Opt] = &[
    o("repository-dir", "repository-dir", "cache_dir", PathV, false),
    o("no-rir-tals", "no-rir-tals", "no_rir_tals", Flag, false),
    o("tal", "tals", "bundled_tals", StrList, false),
    o("extra-tals-dir", "extra-tals-dir", "extra_tals_dir", PathV, false),
    o("exceptions", "exceptions", "exceptions", PathList, false),
    o("strict", "strict", "strict", Flag, false),
    o("stale", "stale", "stale", Policy, false),
    o("unsafe-vrps", "unsafe-vrps", "unsafe_vrps", Policy, false),
    o("unknown-objects", "unknown-objects", "unknown_objects", Policy, false),
    o("limit-v4-len", "limit-v4-len", "limit_v4_len", Small(32), false),
    o("limit-v6-len", "limit-v6-len", "limit_v6_len", Small(128), false),
    o("allow-dubious-hosts", "allow-dubious-hosts", "allow_dubious_hosts", Flag, false),
    o("disable-rsync", "disable-rsync", "disable_rsync", Flag, false),
    o("rsync-command", "rsync-command", "rsync_command", Str, false),
    o("rsync-timeout", "rsync-timeout", "rsync_timeout", Num, false),
    o("disable-rrdp", "disable-rrdp", "disable_rrdp", Flag, false),
    o("rrdp-max-delta-count", "rrdp-max-delta-count", "rrdp_max_delta_count", Num, false),
    o("rrdp-max-delta-list-len", "rrdp-max-delta-list-len", "rrdp_max_delta_list_len", Num, false),
    o("rrdp-fallback", "rrdp-fallback", "rrdp_fallback", Fallback, false),
    o("rrdp-fallback-time", "rrdp-fallback-time", "rrdp_fallback_time", Num, false),
    o("rrdp-timeout", "rrdp-timeout", "rrdp_timeout", Num, false),
    o("rrdp-read-timeout", "rrdp-read-timeout", "rrdp_read_timeout", Num, false),
    o("rrdp-connect-timeout", "rrdp-connect-timeout", "rrdp_connect_timeout", Num, false),
    o("rrdp-tcp-keepalive", "rrdp-tcp-keepalive", "rrdp_tcp_keepalive", Num, false),
    o("rrdp-local-addr", "rrdp-local-addr", "rrdp_local_addr", Ip, false),
    o("rrdp-root-cert", "rrdp-root-certs", "rrdp_root_certs", PathList, false),
    o("rrdp-proxy", "rrdp-proxies", "rrdp_proxies", StrList, false),
    o("max-object-size", "max-object-size", "max_object_size", Num, false),
    o("max-ca-depth", "max-ca-depth", "max_ca_depth", Num, false),
    o("enable-bgpsec", "enable-bgpsec", "enable_bgpsec", Flag, false),
    o("enable-aspa", "enable-aspa", "enable_aspa", Flag, false),
    o("dirty-repository", "dirty", "dirty_repository", Flag, false),
    o("validation-threads", "validation-threads", "validation_threads", Num, false),
    o("verbose", "log-level", "log_level", Count, false),
    o("quiet", "log-level", "log_level", Count, false),
    o("syslog", "log", "log_target", Flag, false),
    o("syslog-facility", "syslog-facility", "log_target", Facility, false),
    o("logfile", "log-file", "log_target", Logfile, false),
    o("log-repository-issues", "log-repository-issues", "log_repository_issues", Flag, false),
    // server options (arguments of the `config` and `server` sub-commands)
    o("refresh", "refresh", "refresh", Num, true),
    o("min-refresh", "min-refresh", "min_refresh", Num, true),
    o("retry", "retry", "retry", Num, true),
    o("expire", "expire", "expire", Num, true),
    o("history", "history-size", "history_size", Num, true),
    o("rtr", "rtr-listen", "rtr_listen", SockList, true),
    o("rtr-tls", "rtr-tls-listen", "rtr_tls_listen", SockList, true),
    o("http", "http-listen", "http_listen", SockList, true),
    o("http-tls", "http-tls-listen", "http_tls_listen", SockList, true),
    o("systemd-listen", "systemd-listen", "systemd_listen", Flag, true),
    o("rtr-tcp-keepalive", "rtr-tcp-keepalive", "rtr_tcp_keepalive", Num, true),
    o("rtr-client-metrics", "rtr-client-metrics", "rtr_client_metrics", Flag, true),
    o("rtr-tls-key", "rtr-tls-key", "rtr_tls_key", PathV, true),
    o("rtr-tls-cert", "rtr-tls-cert", "rtr_tls_cert", PathV, true),
    o("http-tls-key", "http-tls-key", "http_tls_key", PathV, true),
    o("http-tls-cert", "http-tls-cert", "http_tls_cert", PathV, true),
    o("pid-file", "pid-file", "pid_file", PathV, true),
    o("working-dir", "working-dir", "working_dir", PathV, true),
    o("chroot", "chroot", "chroot", PathV, true),
    o("user", "user", "user", Str, true),
    o("group", "group", "group", Str, true),
];

/// Documented as command-line only (manual: `--config`, `--fresh`), not part of the printed file.
const CLI_ONLY: &[&str] = &["config", "fresh", "help", "version"];

fn opt(cli: &str) -> Option<&'static Opt> {
    OPTS.iter().find(|o| o.cli == cli)
}

//------------ case --------------------------------------------------------------------------------

#[derive(Serialize, Deserialize, Clone, Debug, PartialEq, Eq)]
pub struct Arg {
    /// long option name without the dashes
    pub opt: String,
    /// values; one `--opt=value` per entry (flags: empty; -v/-q: one entry holding the count)
    pub vals: Vec<String>,
}

#[derive(Serialize, Deserialize, Clone, Debug, PartialEq, Eq)]
pub struct Case {
    /// Base config file: (key, TOML text of the value). `repository-dir` is added if missing.
    pub base: Option<Vec<(String, String)>>,
    pub args: Vec<Arg>,
}

impl Case {
    fn command_line(&self, base_path: Option<&Path>) -> Vec<String> {
        let mut v = vec!["routinator".to_string()];
        if let Some(p) = base_path {
            v.push(format!("--config={}", p.display()));
        }
        let push = |v: &mut Vec<String>, a: &Arg| match opt(&a.opt).map(|o| o.kind) {
            Some(Flag) => v.push(format!("--{}", a.opt)),
            Some(Count) => {
                let n: usize = a.vals.first().and_then(|s| s.parse().ok()).unwrap_or(1);
                for _ in 0..n {
                    v.push(format!("--{}", a.opt));
                }
            }
            _ => {
                for val in &a.vals {
                    v.push(format!("--{}={}", a.opt, val));
                }
            }
        };
        for a in self.args.iter().filter(|a| opt(&a.opt).map(|o| !o.server).unwrap_or(true)) {
            push(&mut v, a);
        }
        v.push("config".to_string());
        for a in self.args.iter().filter(|a| opt(&a.opt).map(|o| o.server).unwrap_or(false)) {
            push(&mut v, a);
        }
        v
    }
}

//------------ value classes -----------------------------------------------------------------------

const I64MAX: u64 = i64::MAX as u64;

fn num_class(s: &str) -> &'static str {
    match s.parse::<u64>() {
        Ok(0) => "zero",
        Ok(v) if v <= 65535 => "le_u16",
        Ok(v) if v <= I64MAX => "gt_u16",
        Ok(_) => "gt_i64max",
        Err(_) => "not_a_number",
    }
}

fn str_class(s: &str) -> &'static str {
    if s.is_empty() {
        "empty"
    } else if s.chars().any(|c| c == '\n' || c == '\r') {
        "newline"
    } else if s.chars().any(|c| c.is_control()) {
        "control"
    } else if s.contains('"') || s.contains('\'') {
        "quote"
    } else if s.contains('\\') {
        "backslash"
    } else if !s.is_ascii() {
        "unicode"
    } else {
        "plain"
    }
}

fn facility_class(s: &str) -> String {
    let l = s.to_lowercase();
    l.strip_prefix("log_").unwrap_or(&l).to_string()
}

/// Class of an option's value, the second half of a failure key.
fn value_class(o: &Opt, vals: &[String]) -> String {
    match o.kind {
        Flag => "set".into(),
        Num | Small(_) => vals.first().map(|s| num_class(s)).unwrap_or("none").into(),
        Count => format!("count{}", vals.first().cloned().unwrap_or_default()),
        Facility => vals.first().map(|s| facility_class(s)).unwrap_or_default(),
        Policy | Fallback | Ip => vals.first().cloned().unwrap_or_default(),
        Str | PathV | Logfile | PathList | StrList | SockList => {
            // worst class among the values
            let order = ["newline", "control", "quote", "backslash", "unicode", "empty", "plain"];
            let classes: Vec<&str> = vals.iter().map(|s| str_class(s)).collect();
            order.iter().find(|c| classes.contains(c)).copied().unwrap_or("none").into()
        }
    }
}

fn key_for(opt: &str, class: &str) -> String {
    format!("C35/option={}/class={}", opt, class)
}

//------------ generators --------------------------------------------------------------------------

fn num_strategy() -> BoxedStrategy<String> {
    prop_oneof![
        Just(0u64),
        Just(1),
        Just(65535),
        Just(65536),
        Just(1 << 32),
        Just(I64MAX),
        Just(I64MAX + 1),
        Just(u64::MAX),
        2u64..1000,
        65537u64..(1 << 32),
        any::<u64>(),
    ]
    .prop_map(|v| v.to_string())
    .boxed()
}

fn text_strategy() -> BoxedStrategy<String> {
    prop_oneof![
        Just("rsync".to_string()),
        Just("a b".to_string()),
        Just("say \"hi\"".to_string()),
        Just("it's".to_string()),
        Just("line1\nline2".to_string()),
        Just("tab\there".to_string()),
        Just("back\\slash".to_string()),
        Just("Grüße ☃ 𝄞 日本".to_string()),
        Just("".to_string()),
        Just("-x".to_string()),
        Just("bell\u{7}del\u{7f}".to_string()),
        Just("#not a comment".to_string()),
        Just("'''".to_string()),
        Just("\"\"\"".to_string()),
        "[a-zA-Z0-9_.:/@-]{1,12}",
        "\\PC{1,8}",
    ]
    .boxed()
}

fn path_strategy() -> BoxedStrategy<String> {
    prop_oneof![
        Just("/abs/dir/file".to_string()),
        Just("rel/file".to_string()),
        Just("./dot".to_string()),
        Just("../up/x".to_string()),
        Just("/".to_string()),
        Just("trailing/".to_string()),
        Just("with space/x y".to_string()),
        Just("qu\"ote".to_string()),
        Just("dîr/ünï ☃".to_string()),
        Just("new\nline".to_string()),
        Just("back\\slash".to_string()),
        Just("/a//b/./c".to_string()),
        "[a-z0-9_./-]{1,16}",
    ]
    .boxed()
}

const FACILITIES: [&str; 24] = [
    "kern", "user", "mail", "daemon", "auth", "syslog", "lpr", "news", "uucp", "cron", "authpriv", "ftp", "ntp", "audit", "alert", "clock_daemon", "local0", "local1", "local2", "local3",
    "local4", "local5", "local6", "local7",
];

fn facility_strategy() -> BoxedStrategy<String> {
    (prop::sample::select(FACILITIES.to_vec()), 0u8..4)
        .prop_map(|(f, form)| match form {
            0 => f.to_string(),
            1 => format!("LOG_{}", f.to_uppercase()),
            2 => format!("log_{}", f),
            _ => f.to_uppercase(),
        })
        .boxed()
}

fn sock_strategy() -> BoxedStrategy<String> {
    prop_oneof![
        Just("127.0.0.1:3323".to_string()),
        Just("0.0.0.0:0".to_string()),
        Just("192.0.2.1:65535".to_string()),
        Just("[::1]:323".to_string()),
        Just("[2001:db8::4]:8323".to_string()),
        Just("[::ffff:192.0.2.128]:80".to_string()),
        Just("[::]:1".to_string()),
        Just("[fe80::1%3]:179".to_string()),
        (any::<[u8; 4]>(), any::<u16>()).prop_map(|(a, p)| format!("{}.{}.{}.{}:{}", a[0], a[1], a[2], a[3], p)),
        (any::<[u16; 8]>(), any::<u16>()).prop_map(|(a, p)| format!("[{}]:{}", std::net::Ipv6Addr::from(a), p)),
    ]
    .boxed()
}

fn ip_strategy() -> BoxedStrategy<String> {
    prop_oneof![
        Just("127.0.0.1".to_string()),
        Just("::1".to_string()),
        Just("2001:db8::1".to_string()),
        Just("::ffff:10.0.0.1".to_string()),
        Just("0.0.0.0".to_string()),
        any::<[u8; 4]>().prop_map(|a| std::net::Ipv4Addr::from(a).to_string()),
        any::<[u16; 8]>().prop_map(|a| std::net::Ipv6Addr::from(a).to_string()),
    ]
    .boxed()
}

fn list_of(s: BoxedStrategy<String>) -> BoxedStrategy<Vec<String>> {
    // empty list = option absent; 1 and 3 are the documented boundary sizes, 2 for good measure
    prop_oneof![3 => prop::collection::vec(s.clone(), 1..=1), 1 => prop::collection::vec(s.clone(), 2..=2), 3 => prop::collection::vec(s, 3..=3)].boxed()
}

fn one(s: BoxedStrategy<String>) -> BoxedStrategy<Vec<String>> {
    s.prop_map(|x| vec![x]).boxed()
}

fn tal_name_strategy() -> BoxedStrategy<String> {
    // any string is accepted at configuration time ("list" prints the list and exits: not a configuration)
    prop_oneof![Just("nlnetlabs-testbed".to_string()), Just("apnic-testbed".to_string()), Just("arin-ote".to_string()), Just("no-such-tal".to_string()), "[a-z-]{1,10}".prop_filter("list is a command", |s| s != "list")]
        .boxed()
}

fn vals_strategy(o: &Opt) -> BoxedStrategy<Vec<String>> {
    match o.kind {
        Flag => Just(Vec::new()).boxed(),
        Num => one(num_strategy()),
        Small(max) => one(prop_oneof![Just(0u8), Just(1), Just(max), 0..=max].prop_map(|v| v.to_string()).boxed()),
        Str => one(text_strategy()),
        PathV => one(path_strategy()),
        PathList => list_of(path_strategy()),
        StrList if o.cli == "tal" => list_of(tal_name_strategy()),
        StrList => list_of(text_strategy()),
        Policy => one(prop::sample::select(vec!["reject", "warn", "accept"]).prop_map(String::from).boxed()),
        Fallback => one(prop::sample::select(vec!["never", "stale", "new"]).prop_map(String::from).boxed()),
        Ip => one(ip_strategy()),
        SockList => list_of(sock_strategy()),
        Count => one((1u8..=3).prop_map(|v| v.to_string()).boxed()),
        Facility => one(facility_strategy()),
        Logfile => one(prop_oneof![1 => Just("-".to_string()), 4 => path_strategy()].boxed()),
    }
}

fn toml_str(s: &str) -> String {
    toml_edit::Value::from(s).to_string()
}

fn toml_list(v: &[String]) -> String {
    format!("[{}]", v.iter().map(|s| toml_str(s)).collect::<Vec<_>>().join(", "))
}

/// Entries of a base config file for an option, in the file's own notation.
fn base_entry_strategy(o: &'static Opt) -> BoxedStrategy<Vec<(String, String)>> {
    let key = o.key.to_string();
    let k1 = move |text: String| vec![(key.clone(), text)];
    match o.kind {
        Flag if o.cli == "syslog" => Just(Vec::new()).boxed(),
        Flag => any::<bool>().prop_map(move |b| k1(b.to_string())).boxed(),
        // the file format holds i64 integers; the two u16-limited keys are documented as such by the reader
        Num => {
            let small = o.cli == "validation-threads" || o.cli == "history";
            prop_oneof![Just(0u64), Just(1), Just(65535), 2u64..1000, if small { Just(65535u64).boxed() } else { prop_oneof![Just(65536u64), Just(1u64 << 32), Just(I64MAX), 65536u64..I64MAX].boxed() }]
                .prop_map(move |v| k1(v.to_string()))
                .boxed()
        }
        Small(max) => (0..=max).prop_map(move |v| k1(v.to_string())).boxed(),
        Str => text_strategy().prop_map(move |s| k1(toml_str(&s))).boxed(),
        PathV => path_strategy().prop_map(move |s| k1(toml_str(&s))).boxed(),
        PathList if o.cli == "exceptions" => prop_oneof![
            path_strategy().prop_map({
                let k1 = k1.clone();
                move |s| k1(toml_str(&s))
            }),
            prop::collection::vec(path_strategy(), 0..=3).prop_map(move |v| k1(toml_list(&v))),
        ]
        .boxed(),
        PathList => prop::collection::vec(path_strategy(), 0..=3).prop_map(move |v| k1(toml_list(&v))).boxed(),
        StrList if o.cli == "tal" => prop::collection::vec(tal_name_strategy(), 0..=3).prop_map(move |v| k1(toml_list(&v))).boxed(),
        StrList => prop::collection::vec(text_strategy(), 0..=3).prop_map(move |v| k1(toml_list(&v))).boxed(),
        Policy => prop::sample::select(vec!["reject", "warn", "accept"]).prop_map(move |s| k1(toml_str(s))).boxed(),
        Fallback => prop::sample::select(vec!["never", "stale", "new"]).prop_map(move |s| k1(toml_str(s))).boxed(),
        Ip => ip_strategy().prop_map(move |s| k1(toml_str(&s))).boxed(),
        SockList => prop::collection::vec(sock_strategy(), 0..=3).prop_map(move |v| k1(toml_list(&v))).boxed(),
        // log-level / log target are generated as groups below
        Count | Facility | Logfile => Just(Vec::new()).boxed(),
    }
}

fn base_strategy() -> BoxedStrategy<Vec<(String, String)>> {
    let mut parts: Vec<BoxedStrategy<Vec<(String, String)>>> = Vec::new();
    for o in OPTS {
        if o.cli == "quiet" {
            continue;
        }
        parts.push(prop_oneof![9 => Just(Vec::new()), 1 => base_entry_strategy(o)].boxed());
    }
    // log level
    parts.push(
        prop_oneof![
            3 => Just(Vec::new()),
            1 => prop::sample::select(vec!["off", "error", "warn", "info", "debug", "trace", "WARN", "Info"]).prop_map(|s| vec![("log-level".to_string(), toml_str(s))]),
        ]
        .boxed(),
    );
    // log target variants
    parts.push(
        prop_oneof![
            3 => Just(Vec::new()),
            1 => Just(vec![("log".to_string(), toml_str("default"))]),
            1 => Just(vec![("log".to_string(), toml_str("stderr"))]),
            1 => facility_strategy().prop_map(|f| vec![("log".to_string(), toml_str("syslog")), ("syslog-facility".to_string(), toml_str(&f))]),
            1 => facility_strategy().prop_map(|f| vec![("syslog-facility".to_string(), toml_str(&f))]),
            2 => path_strategy().prop_map(|p| vec![("log".to_string(), toml_str("file")), ("log-file".to_string(), toml_str(&p))]),
        ]
        .boxed(),
    );
    // options that only exist in the file
    parts.push(prop_oneof![2 => Just(Vec::new()), 1 => prop::collection::vec(text_strategy(), 0..=3).prop_map(|v| vec![("rsync-args".to_string(), toml_list(&v))])].boxed());
    parts.push(
        prop_oneof![
            1 => Just(Vec::new()),
            2 => prop::collection::btree_map(text_strategy(), text_strategy(), 0..=3).prop_map(|m| {
                vec![("tal-labels".to_string(), format!("[{}]", m.iter().map(|(k, v)| format!("[{}, {}]", toml_str(k), toml_str(v))).collect::<Vec<_>>().join(", ")))]
            }),
        ]
        .boxed(),
    );
    parts.prop_map(|v| v.into_iter().flatten().collect()).boxed()
}

fn case_strategy() -> BoxedStrategy<Case> {
    let mut parts: Vec<BoxedStrategy<Option<Arg>>> = Vec::new();
    for o in OPTS {
        let name = o.cli.to_string();
        let s = vals_strategy(o).prop_map(move |vals| Arg { opt: name.clone(), vals });
        parts.push(prop::option::weighted(0.12, s).boxed());
    }
    (prop::option::weighted(0.4, base_strategy()), parts)
        .prop_map(|(base, args)| {
            let mut args: Vec<Arg> = args.into_iter().flatten().collect();
            // -v and -q exclude each other on the command line (clap: conflicts_with)
            if args.iter().any(|a| a.opt == "verbose") {
                args.retain(|a| a.opt != "quiet");
            }
            Case { base, args }
        })
        .boxed()
}

//------------ evaluation --------------------------------------------------------------------------

struct Env {
    /// working directory of the routinator invocations
    cwd: PathBuf,
    /// directory of the base config file (different from cwd on purpose)
    base_dir: PathBuf,
}

fn cli() -> Command {
    Operation::config_args(Config::config_args(Command::new("Routinator")))
}

enum LoadErr {
    Cli(String),
    Config,
    Operation,
}

/// The steps of `main.rs` up to (not including) `operation.run`.
fn load(args: &[String], cwd: &Path) -> Result<Config, LoadErr> {
    let matches = cli().try_get_matches_from(args).map_err(|e| LoadErr::Cli(e.to_string()))?;
    let mut config = Config::from_arg_matches(&matches, cwd).map_err(|_| LoadErr::Config)?;
    Operation::from_arg_matches(&matches, cwd, &mut config).map_err(|_| LoadErr::Operation)?;
    Ok(config)
}

fn load_printed(text: &str, env: &Env) -> Result<Config, LoadErr> {
    let path = env.cwd.join("printed.conf");
    std::fs::write(&path, text).expect("write printed config");
    load(&["routinator".to_string(), "--config=printed.conf".to_string(), "config".to_string()], &env.cwd)
}

/// Names of the pub fields of `Config` in which a and b differ.
fn diff_fields(a: &Config, b: &Config) -> Vec<&'static str> {
    let mut d = Vec::new();
    macro_rules! cmp {
        ($($f:ident),* $(,)?) => { $( if a.$f != b.$f { d.push(stringify!($f)); } )* };
    }
    cmp!(
        config_file, cache_dir, no_rir_tals, bundled_tals, extra_tals_dir, exceptions, strict, stale, unsafe_vrps, unknown_objects, limit_v4_len, limit_v6_len,
        allow_dubious_hosts, fresh, disable_rsync, rsync_command, rsync_args, rsync_timeout, disable_rrdp, rrdp_fallback, rrdp_fallback_time, rrdp_max_delta_count,
        rrdp_max_delta_list_len, rrdp_timeout, rrdp_read_timeout, rrdp_connect_timeout, rrdp_tcp_keepalive, rrdp_local_addr, rrdp_root_certs, rrdp_proxies, rrdp_user_agent,
        max_object_size, max_ca_depth, enable_bgpsec, enable_aspa, dirty_repository, validation_threads, refresh, min_refresh, retry, expire, history_size, rtr_listen,
        rtr_tls_listen, http_listen, http_tls_listen, systemd_listen, rtr_tcp_keepalive, rtr_client_metrics, rtr_tls_key, rtr_tls_cert, http_tls_key, http_tls_cert, log_level,
        log_target, log_repository_issues, pid_file, working_dir, chroot, user, group, tal_labels,
    );
    if d.is_empty() && a != b {
        d.push("(field unknown to the harness)");
    }
    d
}

fn field_debug(c: &Config, f: &str) -> String {
    // Debug output of the whole struct is long; pick the field's line from the pretty form.
    let all = format!("{:#?}", c);
    let needle = format!("    {}: ", f);
    match all.find(&needle) {
        Some(i) => {
            let rest = &all[i + needle.len()..];
            let mut out = String::new();
            for line in rest.lines() {
                if !out.is_empty() && !line.starts_with("     ") && !line.starts_with("    ]") && !line.starts_with("    )") && !line.starts_with("    }") {
                    break;
                }
                out.push_str(line.trim());
                out.push(' ');
            }
            truncate(out.trim_end_matches([' ', ',']), 300)
        }
        None => "?".into(),
    }
}

/// Who set `field` / `key` in this case: the command line wins over the base file.
fn culprit(case: &Case, field: Option<&str>, key: Option<&str>) -> Option<(String, String)> {
    let matches = |o: &Opt| field.map(|f| o.field == f).unwrap_or(false) || key.map(|k| o.key == k).unwrap_or(false);
    // Prefer the most specific option for the log target group.
    let mut hits: Vec<(&Opt, Vec<String>)> = Vec::new();
    for a in &case.args {
        if let Some(o) = opt(&a.opt) {
            if matches(o) {
                hits.push((o, a.vals.clone()));
            }
        }
    }
    if let Some(base) = &case.base {
        for (k, text) in base {
            for o in OPTS.iter().filter(|o| o.key == k && o.cli != "quiet" && o.cli != "syslog") {
                if matches(o) && !hits.iter().any(|h| h.0.cli == o.cli) {
                    hits.push((o, base_values(text)));
                }
            }
        }
    }
    // syslog-facility is more specific than syslog
    hits.sort_by_key(|h| match h.0.cli {
        "syslog-facility" => 0,
        "logfile" => 1,
        _ => 2,
    });
    hits.first().map(|(o, vals)| (o.cli.to_string(), value_class(o, vals)))
}

/// Values of a base file entry (TOML text) as plain strings.
fn base_values(text: &str) -> Vec<String> {
    let doc: Result<toml_edit::DocumentMut, _> = format!("x = {}", text).parse();
    let Ok(doc) = doc else { return vec![text.to_string()] };
    fn flat(v: &toml_edit::Value, out: &mut Vec<String>) {
        match v {
            toml_edit::Value::String(s) => out.push(s.value().clone()),
            toml_edit::Value::Integer(i) => out.push(i.value().to_string()),
            toml_edit::Value::Boolean(b) => out.push(b.value().to_string()),
            toml_edit::Value::Array(a) => a.iter().for_each(|x| flat(x, out)),
            other => out.push(other.to_string()),
        }
    }
    let mut out = Vec::new();
    if let Some(v) = doc.get("x").and_then(|i| i.as_value()) {
        flat(v, &mut out);
    }
    out
}

/// Finds the first key (in file order sorted by key) of the printed file that makes loading fail:
/// keys are added one by one to a file that only has `repository-dir`.
fn offending_key(printed: &str, env: &Env) -> Option<String> {
    let doc: toml_edit::DocumentMut = printed.parse().ok()?;
    let mut keys: Vec<String> = doc.iter().map(|(k, _)| k.to_string()).collect();
    keys.sort();
    let mut cur = toml_edit::DocumentMut::new();
    if let Some(item) = doc.get("repository-dir") {
        cur.insert("repository-dir", item.clone());
    }
    if load_printed(&cur.to_string(), env).is_err() {
        return Some("repository-dir".into());
    }
    for k in keys {
        if k == "repository-dir" {
            continue;
        }
        cur.insert(&k, doc.get(&k).unwrap().clone());
        if load_printed(&cur.to_string(), env).is_err() {
            return Some(k);
        }
    }
    None
}

/// Candidate finding keys an argument could hit; used for the exclusion of listed findings.
fn candidate_keys(o: &Opt, vals: &[String]) -> Vec<String> {
    vec![key_for(o.cli, &value_class(o, vals)), key_for(o.cli, "not_printed")]
}

/// Removes the exact shapes of listed findings from a case (exclusion by construction); returns the keys hit.
fn strip_known(known: &BTreeSet<String>, case: &Case) -> (Case, Vec<String>) {
    if known.is_empty() {
        return (case.clone(), Vec::new());
    }
    let mut hit = Vec::new();
    let mut out = case.clone();
    out.args.retain(|a| {
        let Some(o) = opt(&a.opt) else { return true };
        match candidate_keys(o, &a.vals).into_iter().find(|k| known.contains(k)) {
            Some(k) => {
                hit.push(k);
                false
            }
            None => true,
        }
    });
    if let Some(base) = out.base.as_mut() {
        base.retain(|(k, text)| {
            for o in OPTS.iter().filter(|o| o.key == k && o.cli != "quiet" && o.cli != "syslog") {
                let vals = base_values(text);
                // a `false` flag or an empty list in the file is the default and prints nothing by design
                let effective = match o.kind {
                    Flag => vals.first().map(|v| v == "true").unwrap_or(false),
                    StrList | PathList | SockList => !vals.is_empty(),
                    _ => true,
                };
                if !effective {
                    continue;
                }
                if let Some(k) = candidate_keys(o, &vals).into_iter().find(|k| known.contains(k)) {
                    hit.push(k);
                    return false;
                }
            }
            true
        });
    }
    (out, hit)
}

fn evaluate(case: &Case, env: &Env, info: &mut CaseInfo) -> Verdict {
    // classes
    let mut nondefault = case.args.len();
    for a in &case.args {
        if let Some(o) = opt(&a.opt) {
            info.class(format!("opt:{}", o.cli));
            match o.kind {
                Num => info.class(format!("num:{}", a.vals.first().map(|s| num_class(s)).unwrap_or("none"))),
                Str | PathV | Logfile | PathList | StrList => info.class(format!("text:{}", value_class(o, &a.vals))),
                _ => {}
            }
            if matches!(o.kind, PathList | StrList | SockList) {
                info.class(format!("list_len:{}", a.vals.len()));
            }
        }
    }
    if let Some(b) = &case.base {
        info.class("base_file");
        nondefault += b.len();
        for (k, _) in b {
            info.class(format!("base:{}", k));
        }
    }
    info.nt(nondefault >= 3);

    // A: command line (+ base file)
    let base_path = case.base.as_ref().map(|entries| {
        let mut text = String::new();
        if !entries.iter().any(|(k, _)| k == "repository-dir") {
            text.push_str("repository-dir = \"base-cache\"\n");
        }
        for (k, v) in entries {
            text.push_str(&format!("{} = {}\n", k, v));
        }
        let p = env.base_dir.join("base.conf");
        std::fs::write(&p, text).expect("write base config");
        p
    });
    let argv = case.command_line(base_path.as_deref());
    let a = match load(&argv, &env.cwd) {
        Ok(c) => c,
        // not a configuration routinator accepts: outside the property's domain (generator problem, counted)
        Err(LoadErr::Cli(e)) => return Verdict::Dropped(format!("cli_rejected:{}", truncate(e.lines().next().unwrap_or(""), 60))),
        Err(LoadErr::Config) => return Verdict::Dropped("base_file_rejected".into()),
        Err(LoadErr::Operation) => return Verdict::Dropped("operation_rejected".into()),
    };
    // F: what `routinator config` prints (PrintConfig::run: println!("{}", config))
    let printed = format!("{}\n", a);
    // B: read back
    let b = match load_printed(&printed, env) {
        Ok(b) => b,
        Err(_) => {
            let bad = offending_key(&printed, env);
            let (o, class) = bad.as_deref().and_then(|k| culprit(case, None, Some(k))).unwrap_or_else(|| (format!("key:{}", bad.clone().unwrap_or_else(|| "?".into())), "unset".into()));
            let line = bad.as_deref().and_then(|k| printed.lines().find(|l| l.starts_with(&format!("{} =", k)))).unwrap_or("").to_string();
            return Verdict::fail(
                key_for(&o, &class),
                format!("`{}` prints a file that routinator rejects as config file; offending entry: `{}` (set by option {} with value class {})", argv.join(" "), truncate(&line, 200), o, class),
            );
        }
    };
    let mut b = b;
    b.config_file = a.config_file.clone();
    let diffs = diff_fields(&a, &b);
    if diffs.is_empty() {
        return Verdict::Pass;
    }
    let field = diffs[0];
    let printed_keys: BTreeSet<String> = printed.parse::<toml_edit::DocumentMut>().map(|d| d.iter().map(|(k, _)| k.to_string()).collect()).unwrap_or_default();
    let (o, mut class) = culprit(case, Some(field), None).unwrap_or_else(|| (format!("field:{}", field), "unset".into()));
    if let Some(op) = opt(&o) {
        if !op.key.is_empty() && !printed_keys.contains(op.key) {
            class = "not_printed".into();
        }
    }
    Verdict::fail(
        key_for(&o, &class),
        format!(
            "`{}`: field {} differs after print + read back: configured {} but read back {} (all differing fields: {:?})",
            argv.join(" "),
            field,
            field_debug(&a, field),
            field_debug(&b, field),
            diffs
        ),
    )
}

/// The clap definitions must be covered by the option table (else the harness needs an update: exit 2).
fn preamble() {
    let cmd = cli();
    let mut missing = Vec::new();
    let mut seen = BTreeSet::new();
    for a in cmd.get_arguments() {
        if let Some(l) = a.get_long() {
            seen.insert(l.to_string());
            if opt(l).map(|o| o.server).unwrap_or(true) && !CLI_ONLY.contains(&l) {
                missing.push(format!("global --{}", l));
            }
        }
    }
    let sub = cmd.find_subcommand("config").expect("config sub-command");
    for a in sub.get_arguments() {
        if let Some(l) = a.get_long() {
            seen.insert(l.to_string());
            if opt(l).map(|o| !o.server).unwrap_or(true) && !CLI_ONLY.contains(&l) {
                missing.push(format!("config --{}", l));
            }
        }
    }
    for o in OPTS {
        if !seen.contains(o.cli) {
            missing.push(format!("table entry --{} has no clap definition", o.cli));
        }
    }
    if !missing.is_empty() {
        eprintln!("C35: option table out of date: {:?}", missing);
        std::process::exit(2);
    }
}

/// Directed representatives (one per suspected/listed shape): (option, extra options, values).
fn directed() -> Vec<Case> {
    let arg = |o: &str, v: &[&str]| Arg { opt: o.to_string(), vals: v.iter().map(|s| s.to_string()).collect() };
    let big = (I64MAX + 1).to_string();
    let mut v = vec![
        Case { base: None, args: vec![arg("tal", &["nlnetlabs-testbed"])] },
        Case { base: None, args: vec![arg("no-rir-tals", &[])] },
        Case { base: None, args: vec![arg("validation-threads", &["65536"])] },
        Case { base: None, args: vec![arg("history", &["65536"])] },
        Case { base: None, args: vec![arg("syslog", &[]), arg("syslog-facility", &["clock_daemon"])] },
    ];
    for o in OPTS.iter().filter(|o| o.kind == Num) {
        v.push(Case { base: None, args: vec![arg(o.cli, &[&big])] });
    }
    v
}

pub fn run(ctx: &Ctx, rep: &mut Report, replay: Option<&serde_json::Value>) {
    rep.rule("command lines generated from routinator's clap definitions (every global option and every option of the `config` sub-command except the documented command-line-only --config/--fresh; each present with p=0.12; numbers at 0, 1, 65535, 65536, 2^32, i64::MAX, i64::MAX+1, u64::MAX and random; lists of 1-3 values; strings/paths with quotes, newlines, control characters, Unicode, absolute and relative), optionally on top of a generated base config file in another directory (any option in file notation, log target variants, log-level, rsync-args, tal-labels); non-trivial = at least 3 options/entries set; distinct by serialised case");
    rep.assume("paths are valid UTF-8 (TOML strings cannot hold other paths; stated limit of the domain); `--tal list` is a command, not a configuration");
    rep.assume("the in-process steps Config::from_arg_matches + Operation::from_arg_matches + Display are exactly what the binary's main() executes for `routinator config`");
    // no $HOME/.routinator.conf may leak into the check
    let scratch = ctx.scratch();
    let home = scratch.path().join("home");
    let env = Env { cwd: scratch.path().join("cwd"), base_dir: scratch.path().join("elsewhere").join("etc") };
    for d in [&home, &env.cwd, &env.base_dir] {
        std::fs::create_dir_all(d).expect("mkdir");
    }
    std::env::set_var("HOME", &home);
    preamble();
    if let Some(v) = replay {
        let t: Tagged<Case> = serde_json::from_value(v.clone()).expect("replay");
        run_case(ctx, rep, "cli", &t.case, |c, i| evaluate(c, &env, i));
        return;
    }
    // Listed findings are excluded by construction: the generator removes exactly the option whose
    // (option, value class) is a listed key and keeps the rest of the command line.
    let known: BTreeSet<String> = if ctx.strict { BTreeSet::new() } else { ctx.known.iter().filter(|k| k.property == ctx.id && k.status == "known").map(|k| k.key.clone()).collect() };
    let excluded: std::sync::Arc<Mutex<BTreeMap<String, u64>>> = Default::default();
    let strategy = {
        let excluded = excluded.clone();
        case_strategy().prop_map(move |case| {
            let (stripped, hit) = strip_known(&known, &case);
            if !hit.is_empty() {
                let mut e = excluded.lock().unwrap();
                for k in hit {
                    *e.entry(k).or_default() += 1;
                }
            }
            stripped
        })
    };
    run_prop(ctx, rep, "cli", ctx.tier.pick(30_000, 600_000), strategy, |case, info| evaluate(case, &env, info));
    let excluded = std::mem::take(&mut *excluded.lock().unwrap());
    for (k, n) in excluded {
        for _ in 0..n {
            rep.exclude_known(&k);
        }
    }
    if rep.violated() {
        return;
    }
    for case in directed() {
        run_case(ctx, rep, "cli", &case, |c, i| evaluate(c, &env, i));
    }
}
