//! Shared machinery of the schedule checks over `SharedHistory` + the HTTP dispatcher (C15, C16, C17):
//! a fixture (config, engine without TALs), per-case instances (history, notifier, handler), hand
//! polling of handler futures with a counting waker, and trace analysis (where the updater's
//! `process_once` steps and the readers' lock acquisitions fall relative to each other).
//!
//! Trace model. The updater thread brackets each `Server::verif_process_once` call with the notes
//! `U<i> begin` / `U<i> end`. Inside one call the steps resumed from the label `history.write` are, in
//! order: `mark_update_start`, the installing write of `SharedHistory::update`, `mark_update_done`;
//! the step resumed from `process_once.before_notify` sends the notification (if the data changed).
//! A thread parked at label L performs the action *behind* L when it is picked, so the trace index
//! of `Step{tid, label: L}` is the linearisation point of that action (one controlled thread runs
//! at a time).

use std::future::Future;
use std::pin::Pin;
use std::sync::atomic::{AtomicUsize, Ordering};
use std::sync::Arc;
use std::task::{Context, Poll, Wake, Waker};

use routinator::config::Config;
use routinator::engine::Engine;
use routinator::http::verif::{Handler, PlainResponse};
use routinator::metrics::RtrServerMetrics;
use routinator::operation::Server;
use routinator::payload::SharedHistory;
use rpki::rtr::server::NotifySender;

use crate::core::Ctx;
use crate::hist::{exceptions_for, init_process, Env};
use crate::pay::MSet;
use crate::sched::{self, Event};

/// Labels at which a participant of these checks can really block: none. No lock of the history or
/// of `utils::sync` is held across a yield point by any participant (the write guard of `update` /
/// `mark_update_done` and all read guards are released before the next yield point), so a thread
/// coming back to the same label has always made progress.
pub const STUTTER_LABELS: &[&str] = &[];

pub struct Fixture {
    pub env: Env,
    pub engine: Arc<Engine>,
}

impl Fixture {
    pub fn new(ctx: &Ctx) -> Fixture {
        init_process();
        let env = Env::new(ctx.scratch());
        let config = env.config(&[], &[]).expect("engine config");
        let mut engine = Engine::new(&config, true).expect("engine");
        engine.ignite().expect("ignite");
        Fixture { env, engine: Arc::new(engine) }
    }

    pub fn config(&self, keep: usize) -> Config {
        self.env.config(&[], &["--enable-bgpsec".into(), "--history".into(), keep.to_string()]).expect("config")
    }
}

/// One server instance: what `Server::run` wires together.
#[derive(Clone)]
pub struct Inst {
    pub config: Arc<Config>,
    pub engine: Arc<Engine>,
    pub history: SharedHistory,
    pub notify: NotifySender,
    pub handler: Arc<Handler>,
}

impl Inst {
    pub fn new(config: Arc<Config>, engine: Arc<Engine>) -> Inst {
        let history = SharedHistory::from_config(&config);
        let notify = NotifySender::new();
        let handler = Arc::new(Handler::new(&config, history.clone(), Arc::new(RtrServerMetrics::new(false)), notify.clone()));
        Inst { config, engine, history, notify, handler }
    }

    /// One `process_once` with the data set carried by the local exceptions. Returns false if the
    /// run failed (never expected: the engine has no TALs).
    pub fn process_once(&self, notify: &mut NotifySender, set: &MSet, initial: bool) -> bool {
        let exceptions = exceptions_for(set);
        Server::verif_process_once(&self.config, &self.engine, &self.history, notify, &exceptions, initial).is_ok()
    }

    pub fn session(&self) -> u64 {
        self.history.read().session()
    }
}

//------------------------------------------------------------------------------------------
// Hand polling

/// Wake-up bookkeeping of a hand-polled task, shareable with the scheduler side.
#[derive(Default, Debug)]
pub struct WakeState {
    /// number of times the task's waker was invoked
    pub wakes: AtomicUsize,
    /// value of `wakes` when the task was last polled
    pub seen: AtomicUsize,
}

impl WakeState {
    /// Was the task woken since its last poll (an executor would poll it again)?
    pub fn woken(&self) -> bool {
        self.wakes.load(Ordering::SeqCst) > self.seen.load(Ordering::SeqCst)
    }
}

impl Wake for WakeState {
    fn wake(self: Arc<Self>) {
        self.wakes.fetch_add(1, Ordering::SeqCst);
    }
    fn wake_by_ref(self: &Arc<Self>) {
        self.wakes.fetch_add(1, Ordering::SeqCst);
    }
}

/// A future polled by hand: "still pending" and "was woken" are observable facts.
pub struct Task<'a, T> {
    fut: Pin<Box<dyn Future<Output = T> + 'a>>,
    state: Arc<WakeState>,
    waker: Waker,
    pub polls: usize,
    pub result: Option<T>,
}

impl<'a, T> Task<'a, T> {
    pub fn new(fut: impl Future<Output = T> + 'a) -> Self {
        Self::with_state(fut, Arc::new(WakeState::default()))
    }

    pub fn with_state(fut: impl Future<Output = T> + 'a, state: Arc<WakeState>) -> Self {
        let waker = Waker::from(state.clone());
        Task { fut: Box::pin(fut), state, waker, polls: 0, result: None }
    }

    /// Polls once (no-op when finished). True if the future is finished afterwards.
    pub fn poll(&mut self) -> bool {
        if self.result.is_some() {
            return true;
        }
        self.state.seen.store(self.state.wakes.load(Ordering::SeqCst), Ordering::SeqCst);
        self.polls += 1;
        let mut cx = Context::from_waker(&self.waker);
        match self.fut.as_mut().poll(&mut cx) {
            Poll::Ready(v) => {
                self.result = Some(v);
                true
            }
            Poll::Pending => false,
        }
    }

    pub fn woken(&self) -> bool {
        self.state.woken()
    }

    pub fn wakes(&self) -> usize {
        self.state.wakes.load(Ordering::SeqCst)
    }
}

/// Label at which a hand-polled task waits for a wake-up.
pub const IDLE: &str = "harness.idle";

/// Chooser adapter modelling the executor: a thread parked at [`IDLE`] is schedulable only when
/// its task was woken or `release` is set (the rest of the program has finished).
pub struct IdleFilter<'a> {
    pub inner: &'a mut dyn sched::Chooser,
    pub idle_tid: usize,
    pub state: Arc<WakeState>,
    pub release: Arc<std::sync::atomic::AtomicBool>,
}

impl sched::Chooser for IdleFilter<'_> {
    fn choose(&mut self, enabled: &[(usize, &'static str)]) -> usize {
        let runnable = self.state.woken() || self.release.load(Ordering::SeqCst);
        let idx: Vec<usize> = enabled.iter().enumerate().filter(|(_, (tid, label))| !(*tid == self.idle_tid && *label == IDLE && !runnable)).map(|(i, _)| i).collect();
        if idx.is_empty() || idx.len() == enabled.len() {
            return self.inner.choose(enabled);
        }
        let sub: Vec<(usize, &'static str)> = idx.iter().map(|i| enabled[*i]).collect();
        idx[self.inner.choose(&sub).min(sub.len() - 1)]
    }
}

/// A request that never waits (all endpoints except the notify long-poll): polled until ready.
pub fn request_now(handler: &Handler, uri: &str, headers: &[(String, String)]) -> PlainResponse {
    let mut task = Task::new(handler.request("GET", uri, headers));
    for _ in 0..64 {
        if task.poll() {
            return task.result.take().unwrap();
        }
    }
    panic!("request {} still pending after 64 polls", uri);
}

//------------------------------------------------------------------------------------------
// Updater job + trace analysis

/// The updater's job: one `process_once` per data set, bracketed by notes. `first` = index of the
/// first call in the whole history of the instance (calls before it were made sequentially).
pub fn updater_job(inst: &Inst, sets: Vec<MSet>, first: usize) -> sched::Job {
    let inst = inst.clone();
    Box::new(move || {
        let mut notify = inst.notify.clone();
        for (i, set) in sets.iter().enumerate() {
            sched::note(format!("U{} begin", first + i));
            let ok = inst.process_once(&mut notify, set, first + i == 0);
            sched::note(format!("U{} end ok={}", first + i, ok));
        }
    })
}

/// Positions (trace indices) of the steps of one `process_once` call.
#[derive(Clone, Debug, Default)]
pub struct UpdPos {
    pub begin: usize,
    pub mark_start: Option<usize>,
    /// `update`'s read of the current snapshot (delta construction input)
    pub read: Option<usize>,
    /// the installing write of `update`
    pub install: Option<usize>,
    pub mark_done: Option<usize>,
    /// the step that sends the notification (if any is due)
    pub notify: Option<usize>,
    pub end: Option<usize>,
    pub ok: bool,
}

/// Extracts the positions of the updater's calls from a trace.
pub fn updater_positions(trace: &[Event], upd_tid: usize) -> Vec<UpdPos> {
    let mut res: Vec<UpdPos> = Vec::new();
    let mut open = false;
    let mut writes = 0;
    for (i, ev) in trace.iter().enumerate() {
        match ev {
            Event::Note { tid, text } if *tid == upd_tid => {
                if text.starts_with('U') && text.ends_with("begin") {
                    res.push(UpdPos { begin: i, ..Default::default() });
                    open = true;
                    writes = 0;
                } else if text.starts_with('U') && text.contains(" end") {
                    if let Some(u) = res.last_mut() {
                        u.end = Some(i);
                        u.ok = text.ends_with("ok=true");
                    }
                    open = false;
                }
            }
            Event::Step { tid, label } if *tid == upd_tid && open => {
                let u = res.last_mut().unwrap();
                match *label {
                    "history.write" => {
                        writes += 1;
                        match writes {
                            1 => u.mark_start = Some(i),
                            2 => u.install = Some(i),
                            3 => u.mark_done = Some(i),
                            _ => {}
                        }
                    }
                    "history.read" if writes == 1 && u.read.is_none() => u.read = Some(i),
                    "process_once.before_notify" => u.notify = Some(i),
                    _ => {}
                }
            }
            _ => {}
        }
    }
    res
}

/// The reference model of a history of installs: serial k belongs to the k-th change.
#[derive(Clone, Debug)]
pub struct Model {
    /// data set installed by call i
    pub sets: Vec<MSet>,
    /// serial after call i
    pub serial_after: Vec<u32>,
    /// data set of serial k
    pub by_serial: Vec<MSet>,
}

impl Model {
    pub fn new(sets: &[MSet]) -> Model {
        let mut serial_after = Vec::new();
        let mut by_serial: Vec<MSet> = Vec::new();
        for s in sets {
            match by_serial.last() {
                None => by_serial.push(s.clone()),
                Some(last) if last != s => by_serial.push(s.clone()),
                _ => {}
            }
            serial_after.push((by_serial.len() - 1) as u32);
        }
        Model { sets: sets.to_vec(), serial_after, by_serial }
    }

    /// Serial served after `n >= 1` installs.
    pub fn serial(&self, n: usize) -> u32 {
        self.serial_after[n - 1]
    }

    pub fn set_of(&self, serial: u32) -> Option<&MSet> {
        self.by_serial.get(serial as usize)
    }

    /// Did call i change the data (=> a notification is due)?
    pub fn changed(&self, i: usize) -> bool {
        i == 0 || self.serial_after[i] != self.serial_after[i - 1]
    }
}

/// Number of entries of `positions` (sorted trace indices) that lie before `at`.
pub fn count_before(positions: &[usize], at: usize) -> usize {
    positions.iter().filter(|p| **p < at).count()
}

/// Trace indices of the steps thread `tid` resumed from `label` between the trace positions
/// `from..to`.
pub fn steps_between(trace: &[Event], tid: usize, label: &str, from: usize, to: usize) -> Vec<usize> {
    (from..to.min(trace.len())).filter(|i| matches!(&trace[*i], Event::Step { tid: t, label: l } if *t == tid && *l == label)).collect()
}

/// Compact rendering of a trace for failure messages.
pub fn render_trace(trace: &[Event]) -> String {
    let mut out = String::new();
    for ev in trace {
        match ev {
            Event::Step { tid, label } => out.push_str(&format!("{}:{} ", tid, label)),
            Event::Note { tid, text } => out.push_str(&format!("[{}:{}] ", tid, text)),
            Event::Done { tid } => out.push_str(&format!("<{} done> ", tid)),
        }
    }
    out
}

/// Data set number `id`: the subset (bit mask, 4 bits) of a universe of three origins and one
/// router key; id 0 is the empty set. Arbitrary pairs of sets differ by announcements and withdrawals.
pub fn set_of(id: u8) -> MSet {
    use crate::pay::{MItem, MKey, MOrigin};
    let universe = [
        MItem::Origin(MOrigin::new(std::net::IpAddr::from([10, 0, 1, 0]), 24, Some(24), 64501)),
        MItem::Origin(MOrigin::new(std::net::IpAddr::from([10, 0, 2, 0]), 24, Some(26), 64502)),
        MItem::Origin(MOrigin::new("2001:db8:3::".parse().unwrap(), 48, Some(48), 64503)),
        MItem::Key(MKey { ski: [7; 20], asn: 64504, info: vec![0xAA; 91] }),
    ];
    MSet::from_items(universe.iter().enumerate().filter(|(i, _)| id & (1 << i) != 0).map(|(_, it)| it.clone()))
}

//------------------------------------------------------------------------------------------
// Enumeration with a preemption bound

/// Enumerates schedules through a [`sched::Dfs`] with two reductions:
/// * the `start` steps (a thread running from its entry to its first yield point touches nothing
///   shared) are taken first, in thread order, without branching — a sound reduction;
/// * at most `bound` preemptions (switching away from the thread that ran last although it could
///   continue); `usize::MAX` = every schedule. A bounded enumeration is complete for all
///   schedules with that many preemptions, it is not exhaustive.
/// `taken` records every decision (index into the enabled list), usable as a `BytesChooser` string.
pub struct Bounded<'a> {
    pub dfs: &'a mut sched::Dfs,
    pub bound: usize,
    pub used: usize,
    last: Option<usize>,
    pub taken: Vec<u8>,
}

impl<'a> Bounded<'a> {
    pub fn new(dfs: &'a mut sched::Dfs, bound: usize) -> Self {
        Bounded { dfs, bound, used: 0, last: None, taken: Vec::new() }
    }
}

impl sched::Chooser for Bounded<'_> {
    fn choose(&mut self, enabled: &[(usize, &'static str)]) -> usize {
        if let Some(i) = enabled.iter().position(|(_, l)| *l == "start") {
            self.taken.push(i as u8);
            self.last = None;
            return i;
        }
        let cont = self.last.and_then(|t| enabled.iter().position(|(tid, _)| *tid == t));
        let i = match cont {
            Some(ci) if self.used >= self.bound => ci,
            _ if enabled.len() == 1 => 0,
            _ => self.dfs.choose(enabled).min(enabled.len() - 1),
        };
        if let Some(ci) = cont {
            if i != ci {
                self.used += 1;
            }
        }
        self.last = Some(enabled[i].0);
        self.taken.push(i as u8);
        i
    }
}

//------------------------------------------------------------------------------------------
// Locating the installs independently of the updater's step order

/// Observer for `sched::run`'s `on_step` (all participants parked): records at which trace position
/// the served snapshot object was replaced (`update`'s installing write) and at which position the
/// completion time changed (`mark_update_done`). Only the *position* of these events is taken
/// from the implementation's state; what must be served afterwards comes from the model.
pub struct Watch {
    history: SharedHistory,
    last_ptr: usize,
    last_done: Option<chrono::DateTime<chrono::Utc>>,
    pub installs: Vec<usize>,
    pub mark_dones: Vec<usize>,
}

impl Watch {
    pub fn new(history: &SharedHistory) -> Watch {
        let (last_ptr, last_done) = Self::peek(history);
        Watch { history: history.clone(), last_ptr, last_done, installs: Vec::new(), mark_dones: Vec::new() }
    }

    fn peek(history: &SharedHistory) -> (usize, Option<chrono::DateTime<chrono::Utc>>) {
        let h = history.read();
        (h.current().map(|a| Arc::as_ptr(&a) as usize).unwrap_or(0), h.last_update_done())
    }

    pub fn on_step(&mut self, trace: &[Event]) {
        let (ptr, done) = Self::peek(&self.history);
        let pos = trace.iter().rposition(|e| matches!(e, Event::Step { .. })).unwrap_or(0);
        if ptr != self.last_ptr {
            self.last_ptr = ptr;
            self.installs.push(pos);
        }
        if done != self.last_done {
            self.last_done = done;
            self.mark_dones.push(pos);
        }
    }

    /// Puts the observed positions into the per-call records (k-th install = k-th call). False if
    /// the numbers do not match.
    pub fn apply(&self, ups: &mut [UpdPos]) -> bool {
        if self.installs.len() != ups.len() || self.mark_dones.len() != ups.len() {
            return false;
        }
        for (i, u) in ups.iter_mut().enumerate() {
            u.install = Some(self.installs[i]);
            u.mark_done = Some(self.mark_dones[i]);
            if !(u.begin < self.installs[i] && u.end.map(|e| self.installs[i] < e).unwrap_or(true)) {
                return false;
            }
        }
        true
    }
}
