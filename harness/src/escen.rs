//! Scenario generators for E-rpki: a scenario is decoded from a vector of small integers so that
//! proptest shrinking (shorter vector, smaller numbers) yields structurally simpler scenarios.

use proptest::prelude::*;

use crate::erpki::*;

/// Cursor over the genome; exhausted genome yields zeros (= simplest choice everywhere).
pub struct D<'a> {
    w: &'a [u16],
    i: usize,
}

impl<'a> D<'a> {
    pub fn new(w: &'a [u16]) -> Self {
        D { w, i: 0 }
    }
    pub fn next(&mut self) -> u16 {
        let v = self.w.get(self.i).copied().unwrap_or(0);
        self.i += 1;
        v
    }
    /// Value in 0..n, monotone in the genome word.
    pub fn below(&mut self, n: usize) -> usize {
        if n <= 1 {
            self.next();
            return 0;
        }
        ((self.next() as usize) * n) >> 16
    }
    pub fn chance(&mut self, num: usize, den: usize) -> bool {
        // word 0 => false (simplest)
        self.below(den) >= den - num
    }
    pub fn pick<T: Clone>(&mut self, items: &[T]) -> T {
        items[self.below(items.len())].clone()
    }
}

pub fn genome(len: usize) -> impl Strategy<Value = Vec<u16>> {
    prop::collection::vec(any::<u16>(), len..=len)
}

#[derive(Clone, Debug)]
pub struct Profile {
    pub max_cas: usize,
    pub max_tals: usize,
    pub max_objs: usize,
    pub versions: usize,
    /// probability (x/16) that a given fault site gets a fault
    pub fault_16: usize,
    pub obj_faults: bool,
    pub cert_faults: bool,
    pub pp_faults: bool,
    pub vary_cfg: bool,
    pub modules: usize,
    /// probability (x/16) that a CA is published through RRDP as well (0 = rsync only; the decoding of
    /// everything else is unchanged then)
    pub rrdp_16: usize,
    /// number of RRDP repositories the RRDP CAs are spread over
    pub rrdp_repos: usize,
}

impl Default for Profile {
    fn default() -> Self {
        Profile { max_cas: 7, max_tals: 2, max_objs: 5, versions: 1, fault_16: 3, obj_faults: true, cert_faults: true, pp_faults: true, vary_cfg: true, modules: 3, rrdp_16: 0, rrdp_repos: 2 }
    }
}

/// Assigns RRDP repositories to CAs and picks the fallback policy. Reads from a cursor over its own
/// genome so that the rest of the scenario is decoded exactly as without RRDP.
pub fn decode_rrdp(d: &mut D, p: &Profile, cfg: &mut Cfg, cas: &mut [Ca]) {
    if p.rrdp_16 == 0 {
        return;
    }
    cfg.rrdp_fallback = d.pick(&[1u8, 0, 2]);
    for ca in cas.iter_mut() {
        let yes = d.chance(p.rrdp_16, 16);
        let r = d.below(p.rrdp_repos.max(1));
        if yes && !ca.sia_under_parent_mft {
            ca.rrdp = Some(r);
        }
    }
}

/// `single_run` plus RRDP decisions decoded from the second genome; each RRDP repository fails with
/// chance `fail_rrdp_16`/16 and each rsync module (the fallback target) with 2/16.
pub fn single_run_rrdp(words: &[u16], rwords: &[u16], p: &Profile, fail_rrdp_16: usize) -> Scenario {
    let mut sc = single_run(words, p);
    let mut d = D::new(rwords);
    decode_rrdp(&mut d, p, &mut sc.cfg, &mut sc.cas);
    if p.rrdp_16 > 0 {
        for step in sc.steps.iter_mut() {
            step.fail_rrdp = (0..p.rrdp_repos.max(1)).filter(|_| d.chance(fail_rrdp_16, 16)).collect();
            step.fail_modules = (0..p.modules).filter(|_| d.chance(2, 16)).collect();
        }
    }
    sc
}

/// `history_run` plus RRDP decisions (repositories per CA, fallback policy, failing repositories per
/// step) decoded from the second genome.
pub fn history_run_rrdp(words: &[u16], rwords: &[u16], hp: &HistProfile) -> Scenario {
    let mut sc = history_run(words, hp);
    let mut d = D::new(rwords);
    decode_rrdp(&mut d, &hp.base, &mut sc.cfg, &mut sc.cas);
    if hp.base.rrdp_16 > 0 {
        for step in sc.steps.iter_mut() {
            step.fail_rrdp = (0..hp.base.rrdp_repos.max(1)).filter(|_| d.chance(hp.fail_rrdp_16, 16)).collect();
        }
    }
    sc
}

/// Genome for the RRDP decisions of one scenario.
pub fn rrdp_genome() -> impl Strategy<Value = Vec<u16>> {
    genome(40)
}

pub fn count_rrdp_cas(sc: &Scenario) -> usize {
    sc.cas.iter().filter(|c| c.rrdp.is_some()).count()
}

pub const OBJ_FAULTS: [ObjFault; 7] = [ObjFault::BadSig, ObjFault::Garbage, ObjFault::Expired, ObjFault::NotYetValid, ObjFault::Revoked, ObjFault::WrongCrlUri, ObjFault::Overclaim];
pub const CERT_FAULTS: [CertFault; 11] = [
    CertFault::CycleTo(1),
    CertFault::BadSig,
    CertFault::Garbage,
    CertFault::Expired,
    CertFault::NotYetValid,
    CertFault::Revoked,
    CertFault::Overclaim,
    CertFault::NoManifestSia,
    CertFault::LoopKey(1),
    CertFault::LoopKey(2),
    CertFault::WrongCrlUri,
];
pub const PP_FAULTS: [PpFault; 15] = [
    PpFault::MftBadSig,
    PpFault::MftGarbage,
    PpFault::MftMissing,
    PpFault::MftEeExpired,
    PpFault::MftWrongCrlUri,
    PpFault::CrlMissing,
    PpFault::CrlNotListed,
    PpFault::CrlBadSig,
    PpFault::CrlGarbage,
    PpFault::CrlHashMismatch,
    PpFault::CrlRevokesMftEe,
    PpFault::FileMissing(0),
    PpFault::HashMismatch(0),
    PpFault::StrayFile,
    PpFault::OddFiles,
];

pub fn decode_cfg(d: &mut D, vary: bool) -> Cfg {
    let mut c = Cfg::default();
    if !vary {
        return c;
    }
    c.strict = d.chance(1, 4);
    c.stale = d.below(3) as u8;
    c.unsafe_vrps = [2u8, 1, 0][d.below(3)];
    c.limit_v4 = d.pick(&[None, None, Some(24u8), Some(23), Some(25), Some(32)]);
    c.limit_v6 = d.pick(&[None, None, Some(64u8), Some(63), Some(48), Some(128)]);
    c.bgpsec = !d.chance(1, 4);
    c.aspa = !d.chance(1, 4);
    c.threads = d.pick(&[2usize, 1, 8]);
    c
}

pub fn decode_obj(d: &mut D, p: &Profile) -> Obj {
    let kind = match d.below(8) {
        0..=3 => ObjKind::Roa { extra: d.below(3) as u8, maxlen_delta: d.pick(&[0u8, 1, 8]), v6: false },
        4 => ObjKind::Roa { extra: d.below(2) as u8, maxlen_delta: d.pick(&[0u8, 1, 64]), v6: true },
        5 => ObjKind::Aspa { providers: d.pick(&[2u8, 1, 5, 3]) },
        6 => ObjKind::Router { asns: d.pick(&[1u8, 2, 3]) },
        _ => ObjKind::Gbr,
    };
    let not_after = d.pick(&[86400i64 * 30, 3600 * 5, 86400 * 400, 86400]);
    let fault = if p.obj_faults && d.chance(p.fault_16, 16) { Some(d.pick(&OBJ_FAULTS)) } else { None };
    Obj { kind, not_after, fault }
}

pub fn decode_version(d: &mut D, p: &Profile, v: usize) -> Version {
    let nobj = d.below(p.max_objs + 1);
    let objs: Vec<Obj> = (0..nobj).map(|_| decode_obj(d, p)).collect();
    let fault = if p.pp_faults && d.chance(p.fault_16, 16) {
        let f = d.pick(&PP_FAULTS);
        let k = d.below(8) as u8;
        Some(match f {
            PpFault::FileMissing(_) => PpFault::FileMissing(k),
            PpFault::HashMismatch(_) => PpFault::HashMismatch(k),
            other => other,
        })
    } else {
        None
    };
    Version {
        number: 5 + 10 * v as u64,
        this_off: -7200 + 600 * v as i64,
        next_off: d.pick(&[86400i64, 86400 * 2, 3600 * 3]),
        crl_next_off: d.pick(&[86400i64, 86400 * 3, 3600 * 2]),
        ee_after_off: d.pick(&[86400i64 * 7, 86400 * 2, 3600 * 4]),
        objs,
        fault,
        omit_children: Vec::new(),
    }
}

/// Decodes the CA forest (with `p.versions` versions each) and no steps.
pub fn decode_forest(d: &mut D, p: &Profile) -> Vec<Ca> {
    let ntals = 1 + d.below(p.max_tals);
    let ncas = ntals + d.below(p.max_cas - ntals + 1);
    let mut cas: Vec<Ca> = Vec::new();
    for i in 0..ncas {
        let parent = if i < ntals { None } else { Some(d.below(i)) };
        let cert_fault = if parent.is_some() && p.cert_faults && d.chance(p.fault_16, 16) { Some(d.pick(&CERT_FAULTS)) } else { None };
        let module = d.below(p.modules);
        let not_after = d.pick(&[86400i64 * 365, 86400 * 3, 3600 * 6]);
        let versions = (0..p.versions).map(|v| decode_version(d, p, v)).collect();
        cas.push(Ca { parent, key: i, module, not_after, cert_fault, versions, extra_res: None, ta_alt: vec![], sia_under_parent_mft: false, rrdp: None });
    }
    // LoopKey(2) needs a grandparent; degrade to LoopKey(1) otherwise
    for i in 0..cas.len() {
        if let Some(CertFault::CycleTo(n)) = cas[i].cert_fault {
            let _ = n;
        }
        if let Some(CertFault::LoopKey(2)) = cas[i].cert_fault {
            let has_gp = cas[i].parent.and_then(|p| cas[p].parent).is_some();
            if !has_gp {
                cas[i].cert_fault = Some(CertFault::LoopKey(1));
            }
        }
    }
    cas
}

/// Single run from an empty cache, version 0 everywhere.
pub fn single_run(words: &[u16], p: &Profile) -> Scenario {
    let mut d = D::new(words);
    let cfg = decode_cfg(&mut d, p.vary_cfg);
    let cas = decode_forest(&mut d, p);
    let steps = vec![Step { publish: vec![0; cas.len()], fail_modules: vec![], offline: false, stale: None, foreign_tal_key: vec![], ta_serve: vec![], fail_rrdp: vec![] }];
    Scenario { cfg, cas, steps }
}

pub fn count_faults(sc: &Scenario) -> usize {
    sc.cas.iter().map(|c| c.cert_fault.is_some() as usize + c.versions.iter().map(|v| v.fault.is_some() as usize + v.objs.iter().filter(|o| o.fault.is_some()).count()).sum::<usize>()).sum()
}

pub fn fault_classes(sc: &Scenario) -> Vec<String> {
    let mut res = Vec::new();
    for c in &sc.cas {
        if let Some(f) = c.cert_fault {
            res.push(format!("cert:{:?}", f).replace(|ch: char| ch.is_ascii_digit() || ch == '(' || ch == ')', ""));
        }
        for v in &c.versions {
            if let Some(f) = v.fault {
                res.push(format!("pp:{:?}", f).replace(|ch: char| ch.is_ascii_digit() || ch == '(' || ch == ')', ""));
            }
            for o in &v.objs {
                if let Some(f) = o.fault {
                    res.push(format!("obj:{:?}", f));
                }
            }
        }
    }
    res
}

//------------------------------------------------------------------------------------------
// Histories

#[derive(Clone, Debug)]
pub struct HistProfile {
    pub base: Profile,
    pub max_steps: usize,
    /// x/16 chance that a (ca, step) publishes an arbitrary version instead of the step's default
    pub rollback_16: usize,
    /// x/16 chance that a version's (number, thisUpdate) does not increase regularly
    pub irregular_16: usize,
    pub fail_module_16: usize,
    pub offline_16: usize,
    /// x/16 chance that a version gets an incomplete-fetch fault (FileMissing / HashMismatch)
    pub incomplete_16: usize,
    /// x/16 chance that an RRDP repository's notification fails (HTTP 500) in a step
    pub fail_rrdp_16: usize,
}

impl Default for HistProfile {
    fn default() -> Self {
        HistProfile {
            base: Profile { max_cas: 5, max_tals: 2, max_objs: 5, versions: 3, fault_16: 2, obj_faults: true, cert_faults: false, pp_faults: true, vary_cfg: true, modules: 2, rrdp_16: 0, rrdp_repos: 2 },
            max_steps: 4,
            rollback_16: 3,
            irregular_16: 0,
            fail_module_16: 2,
            offline_16: 1,
            incomplete_16: 3,
            fail_rrdp_16: 0,
        }
    }
}

/// Multi-run history over a persistent cache.
pub fn history_run(words: &[u16], hp: &HistProfile) -> Scenario {
    let mut d = D::new(words);
    let p = &hp.base;
    let cfg = decode_cfg(&mut d, p.vary_cfg);
    let mut cas = decode_forest(&mut d, p);
    // version numbering classes
    for ca in cas.iter_mut() {
        let base_no: u64 = d.pick(&[100u64, 100, 1 << 32, 1 << 63, u64::MAX - 1000]);
        let mut number = base_no;
        let mut this_off: i64 = -40_000;
        for (v, ver) in ca.versions.iter_mut().enumerate() {
            if v > 0 {
                let (dn, dt): (i64, i64) = if d.chance(hp.irregular_16, 16) { d.pick(&[(0, 600), (-3, 600), (10, 0), (10, -600), (-3, -600), (0, 0), (1, 1)]) } else { (10, 600) };
                number = number.wrapping_add_signed(dn);
                this_off += dt;
            }
            ver.number = number;
            ver.this_off = this_off;
            if d.chance(hp.incomplete_16, 16) && !ver.objs.is_empty() {
                let k = d.below(8) as u8;
                ver.fault = Some(if d.chance(1, 2) { PpFault::HashMismatch(k) } else { PpFault::FileMissing(k) });
            }
        }
    }
    let nsteps = 2 + d.below(hp.max_steps - 1);
    let mut steps = Vec::new();
    for s in 0..nsteps {
        let publish = cas
            .iter()
            .map(|ca| {
                let nv = ca.versions.len().max(1);
                if d.chance(hp.rollback_16, 16) {
                    d.below(nv)
                } else {
                    s.min(nv - 1)
                }
            })
            .collect();
        let fail_modules = (0..p.modules).filter(|_| d.chance(hp.fail_module_16, 16)).collect();
        let offline = s > 0 && d.chance(hp.offline_16, 16);
        steps.push(Step { publish, fail_modules, offline, stale: None, foreign_tal_key: vec![], ta_serve: vec![], fail_rrdp: vec![] });
    }
    Scenario { cfg, cas, steps }
}

pub fn history_classes(sc: &Scenario) -> Vec<String> {
    let mut res = Vec::new();
    if sc.steps.iter().any(|s| s.offline) {
        res.push("offline_step".to_string());
    }
    if sc.steps.iter().any(|s| !s.fail_modules.is_empty()) {
        res.push("module_failure".to_string());
    }
    if sc.steps.iter().any(|s| !s.fail_rrdp.is_empty()) {
        res.push("rrdp_failure".to_string());
    }
    for (i, ca) in sc.cas.iter().enumerate() {
        let seq: Vec<usize> = sc.steps.iter().map(|s| s.publish.get(i).copied().unwrap_or(0)).collect();
        if seq.windows(2).any(|w| w[1] < w[0]) {
            res.push("rollback_published".to_string());
        }
        if ca.versions.windows(2).any(|w| w[1].number <= w[0].number || w[1].this_off <= w[0].this_off) {
            res.push("irregular_numbering".to_string());
        }
    }
    res.sort();
    res.dedup();
    res
}
