//! C19 RTR listener keeps accepting after a failed connection setup.
//!
//! A real `rtr_listener` (in-process, own tokio runtime, one installed data set) is contacted by a
//! generated sequence of plain-TCP RTR clients, one after the other. Faults: (hook) a generated
//! subset of accepted connections fails its setup via `verif::set_fail_rtr_setup`; (natural) a
//! `rtr-tcp-keepalive` value the kernel rejects, which makes the setup of *every* connection fail.
//! Oracle: every connection whose setup is not failed gets its Reset Query answered; every connection
//! whose setup fails is accepted and closed (the listener "continues to accept") — both within a
//! bounded wait T, extended once to 4T, and only judged when a fault-free control listener running
//! beside it answers promptly at that moment.

use std::sync::atomic::{AtomicBool, AtomicU64, Ordering};
use std::sync::Arc;
use std::time::{Duration, Instant};

use proptest::prelude::*;
use serde::{Deserialize, Serialize};

use crate::core::*;
use crate::rtrnet::*;

const KEY_STALL: &str = "C19/stall-after-failed-setup";
const KEY_GONE: &str = "C19/listener-gone-after-failed-setup";

#[derive(Serialize, Deserialize, Clone, Debug)]
pub struct Conn {
    /// Fail the setup of this connection through the hook.
    pub fail: bool,
    /// RTR protocol version of the Reset Query (0..=2).
    pub version: u8,
}

#[derive(Serialize, Deserialize, Clone, Debug)]
pub struct Case {
    /// `rtr-tcp-keepalive` in seconds (None = keepalive off).
    pub keepalive: Option<u64>,
    pub conns: Vec<Conn>,
}

static ARMED: AtomicBool = AtomicBool::new(false);
/// number of accepted connections whose setup still has to fail (burst sub-check)
static BURST_FAIL_LEFT: AtomicU64 = AtomicU64::new(0);
static HOOK_CALLS: AtomicU64 = AtomicU64::new(0);

fn install_hook() {
    static ONCE: std::sync::Once = std::sync::Once::new();
    ONCE.call_once(|| {
        routinator::verif::set_fail_rtr_setup(Some(Arc::new(|| {
            HOOK_CALLS.fetch_add(1, Ordering::SeqCst);
            if BURST_FAIL_LEFT.fetch_update(Ordering::SeqCst, Ordering::SeqCst, |v| v.checked_sub(1)).is_ok() {
                return true;
            }
            ARMED.swap(false, Ordering::SeqCst)
        })));
    });
}

/// Does this kernel accept the keepalive value? Same socket options routinator sets
/// (SO_KEEPALIVE, TCP_KEEPIDLE, TCP_KEEPINTVL with the value clamped to u32), issued through libc.
pub fn kernel_accepts_keepalive(secs: u64) -> bool {
    let v: u32 = u32::try_from(secs).unwrap_or(u32::MAX);
    unsafe {
        let fd = libc::socket(libc::AF_INET, libc::SOCK_STREAM, 0);
        if fd < 0 {
            return false;
        }
        let one: libc::c_int = 1;
        let mut ok = libc::setsockopt(fd, libc::SOL_SOCKET, libc::SO_KEEPALIVE, &one as *const _ as *const libc::c_void, 4) == 0;
        ok = ok && libc::setsockopt(fd, libc::IPPROTO_TCP, libc::TCP_KEEPIDLE, &v as *const _ as *const libc::c_void, 4) == 0;
        ok = ok && libc::setsockopt(fd, libc::IPPROTO_TCP, libc::TCP_KEEPINTVL, &v as *const _ as *const libc::c_void, 4) == 0;
        libc::close(fd);
        ok
    }
}

struct Params {
    t: Duration,
}

fn will_fail(case: &Case, i: usize, rejected: bool) -> bool {
    rejected || case.conns[i].fail
}

/// The shape of the listed finding: some connection follows one whose setup fails.
fn first_followed_failure(case: &Case, rejected: bool) -> Option<usize> {
    (0..case.conns.len().saturating_sub(1)).find(|i| will_fail(case, *i, rejected))
}

fn evaluate(case: &Case, p: &Params, info: &mut CaseInfo) -> Verdict {
    install_hook();
    let rejected = case.keepalive.map(|s| !kernel_accepts_keepalive(s)).unwrap_or(false);
    let n = case.conns.len();
    let nt = first_followed_failure(case, rejected).is_some();
    info.nt(nt);
    info.class(match (case.keepalive, rejected) {
        (None, _) => "keepalive=off".to_string(),
        (Some(_), true) => "keepalive=rejected_by_kernel".to_string(),
        (Some(_), false) => "keepalive=accepted".to_string(),
    });
    let nfail = (0..n).filter(|i| will_fail(case, *i, rejected)).count();
    info.class(format!("failed_setups={}", match nfail { 0 => "0", 1 => "1", _ => "2+" }));
    if nt {
        info.class("connection_after_failed_setup");
    }
    let subject = match RtrTestServer::start(1, case.keepalive.map(Duration::from_secs), false) {
        Ok(s) => s,
        Err(e) => return Verdict::Dropped(format!("listener_start:{}", truncate(&e, 40))),
    };
    let control = match RtrTestServer::start(1, Some(Duration::from_secs(60)), false) {
        Ok(s) => s,
        Err(e) => return Verdict::Dropped(format!("control_start:{}", truncate(&e, 40))),
    };
    let lo: std::net::IpAddr = "127.0.0.1".parse().unwrap();
    let t = p.t;
    let control_ok = |bound: Duration| -> bool {
        ARMED.store(false, Ordering::SeqCst);
        control.rt.block_on(async {
            match RtrClient::connect_from(lo, control.ports[0]).await {
                Ok(mut c) => matches!(c.reset_query(1, bound).await, Exchange::Answered { error_code: None, .. }),
                Err(_) => false,
            }
        })
    };
    if !control_ok(t) {
        return Verdict::Dropped("control_slow_at_start".into());
    }
    let mut failed_before = false;
    for i in 0..n {
        let expect_fail = will_fail(case, i, rejected);
        let calls0 = HOOK_CALLS.load(Ordering::SeqCst);
        ARMED.store(case.conns[i].fail, Ordering::SeqCst);
        let version = case.conns[i].version.min(2);
        let started = Instant::now();
        let (first, second) = subject.rt.block_on(async {
            let mut c = match RtrClient::connect_from(lo, subject.ports[0]).await {
                Ok(c) => c,
                Err(e) => return (Exchange::Io(e), None),
            };
            let first = c.reset_query(version, t).await;
            if first == Exchange::Timeout {
                // a miss is re-tried once: keep waiting on the same connection up to 4T in total
                let second = c.read_answer(t * 3).await;
                (first, Some(second))
            } else {
                (first, None)
            }
        });
        ARMED.store(false, Ordering::SeqCst);
        let accepted = HOOK_CALLS.load(Ordering::SeqCst) > calls0;
        let elapsed = started.elapsed();
        let as_expected = |e: &Exchange| if expect_fail { *e == Exchange::Closed } else { matches!(e, Exchange::Answered { error_code: None, .. }) };
        let what = format!(
            "connection {} of {} (keepalive {:?}{}, setup {}): first wait {:?} -> {:?}{}; listener consulted the setup hook: {}; {} ms",
            i + 1,
            n,
            case.keepalive,
            if rejected { " = rejected by the kernel" } else { "" },
            if expect_fail { "fails" } else { "succeeds" },
            t,
            first,
            second.as_ref().map(|s| format!(", extended wait {:?} -> {:?}", t * 3, s)).unwrap_or_default(),
            accepted,
            elapsed.as_millis()
        );
        match (&first, &second) {
            (f, None) if as_expected(f) => {}
            (Exchange::Io(e), _) if failed_before && e.contains("refused") => {
                // nobody listens on the port any more; loopback connects in sequence never overflow a backlog
                if !control_ok(t / 2) {
                    return Verdict::Dropped("control_slow".into());
                }
                return Verdict::fail(KEY_GONE, format!("{} — the connection was refused: the listener no longer exists although the control listener answered within {:?}; an earlier connection on this listener had a failed setup", what, t / 2));
            }
            (Exchange::Io(e), _) => return Verdict::Dropped(format!("client_io:{}", truncate(e, 40))),
            (Exchange::Timeout, Some(s)) if as_expected(s) => return Verdict::Dropped("late_answer".into()),
            (Exchange::Timeout, Some(Exchange::Timeout)) => {
                // still nothing after 4T: judge only if the control listener is responsive right now
                if !control_ok(t / 2) {
                    return Verdict::Dropped("control_slow".into());
                }
                return if failed_before {
                    Verdict::fail(KEY_STALL, format!("{} — neither answered nor closed although the fault-free control listener answered within {:?}; an earlier connection on this listener had a failed setup", what, t / 2))
                } else {
                    Verdict::fail("C19/connection-unanswered", format!("{} — neither answered nor closed although the control listener answered within {:?}", what, t / 2))
                };
            }
            (f, s) => {
                let got = s.as_ref().unwrap_or(f);
                return if expect_fail && matches!(got, Exchange::Answered { .. }) {
                    // the fault was not applied to this connection: harness problem, never a verdict
                    Verdict::Dropped("fault_not_applied".into())
                } else if !expect_fail && *got == Exchange::Closed {
                    Verdict::fail("C19/good-connection-closed", format!("{} — closed without an answer although its setup was not failed", what))
                } else {
                    Verdict::fail("C19/unexpected-answer", what)
                };
            }
        }
        failed_before |= expect_fail;
    }
    Verdict::Pass
}

/// `fault_free_share`: share of sequences without any failed setup (accepted keepalive values, no hook
/// fault); raised while the stall finding is listed so that the bulk search still exercises complete
/// sequences of served connections.
/// A burst of connections already queued when the listener starts; the first `failing` of them
/// (in accept order) have their setup failed; afterwards `followers` fresh connections are made.
#[derive(Serialize, Deserialize, Clone, Debug)]
pub struct BurstCase {
    pub burst: usize,
    pub failing: usize,
    pub followers: usize,
    /// fail every setup through a keepalive value the kernel rejects instead of the hook
    pub natural: bool,
}

fn evaluate_burst(case: &BurstCase, p: &Params, info: &mut CaseInfo) -> Verdict {
    use std::io::{Read, Write};
    install_hook();
    let natural = case.natural && !kernel_accepts_keepalive(100_000);
    let failing = if natural { case.burst } else { case.failing.min(case.burst) };
    info.nt(failing >= 1);
    info.class(format!("burst={}", match case.burst { 0..=3 => "1-3", 4..=8 => "4-8", 9..=16 => "9-16", _ => "17+" }));
    info.class(format!("failing_in_burst={}", match failing { 0 => "0", 1..=7 => "1-7", 8..=15 => "8-15", _ => "16+" }));
    info.class(if natural { "fault=keepalive_rejected" } else { "fault=hook" });
    let t = p.t;
    let control = match RtrTestServer::start(1, Some(Duration::from_secs(60)), false) {
        Ok(s) => s,
        Err(e) => return Verdict::Dropped(format!("control_start:{}", truncate(&e, 40))),
    };
    BURST_FAIL_LEFT.store(if natural { 0 } else { failing as u64 }, Ordering::SeqCst);
    ARMED.store(false, Ordering::SeqCst);
    let subject = match RtrTestServer::start_with_backlog(1, if natural { Some(Duration::from_secs(100_000)) } else { Some(Duration::from_secs(60)) }, false, case.burst) {
        Ok(s) => s,
        Err(e) => {
            BURST_FAIL_LEFT.store(0, Ordering::SeqCst);
            return Verdict::Dropped(format!("listener_start:{}", truncate(&e, 40)));
        }
    };
    // Reset Query v1 on every queued connection, then wait for "answered" or "closed" on each
    let query: [u8; 8] = [1, 2, 0, 0, 0, 0, 0, 8];
    let deadline = Instant::now() + t * 4;
    let mut states: Vec<&'static str> = Vec::new();
    for s in subject.preconnected.iter() {
        let mut s = s;
        let _ = s.set_read_timeout(Some(Duration::from_millis(50)));
        let _ = s.write_all(&query);
    }
    let mut pending: Vec<usize> = (0..subject.preconnected.len()).collect();
    let mut got: Vec<Vec<u8>> = vec![Vec::new(); subject.preconnected.len()];
    states.resize(subject.preconnected.len(), "pending");
    while !pending.is_empty() && Instant::now() < deadline {
        pending.retain(|&i| {
            let mut s = &subject.preconnected[i];
            let mut buf = [0u8; 4096];
            match s.read(&mut buf) {
                Ok(0) => {
                    states[i] = "closed";
                    false
                }
                Ok(n) => {
                    got[i].extend_from_slice(&buf[..n]);
                    // End of Data PDU type 7 (or Error Report type 10) ends the answer
                    let mut off = 0;
                    let mut done = false;
                    while off + 8 <= got[i].len() {
                        let len = u32::from_be_bytes([got[i][off + 4], got[i][off + 5], got[i][off + 6], got[i][off + 7]]) as usize;
                        if len < 8 || off + len > got[i].len() {
                            break;
                        }
                        if got[i][off + 1] == 7 || got[i][off + 1] == 10 {
                            done = true;
                        }
                        off += len;
                    }
                    if done {
                        states[i] = "answered";
                    }
                    !done
                }
                Err(e) if e.kind() == std::io::ErrorKind::WouldBlock || e.kind() == std::io::ErrorKind::TimedOut => true,
                Err(_) => {
                    states[i] = "closed";
                    false
                }
            }
        });
    }
    BURST_FAIL_LEFT.store(0, Ordering::SeqCst);
    let lo: std::net::IpAddr = "127.0.0.1".parse().unwrap();
    let control_ok = |bound: Duration| -> bool {
        control.rt.block_on(async {
            match RtrClient::connect_from(lo, control.ports[0]).await {
                Ok(mut c) => matches!(c.reset_query(1, bound).await, Exchange::Answered { error_code: None, .. }),
                Err(_) => false,
            }
        })
    };
    let closed = states.iter().filter(|s| **s == "closed").count();
    let answered = states.iter().filter(|s| **s == "answered").count();
    let unserved = states.iter().filter(|s| **s == "pending").count();
    let what = format!("burst of {} queued connections, {} with a failing setup ({}): {} closed, {} answered, {} neither after {:?}", case.burst, failing, if natural { "keepalive rejected by the kernel" } else { "hook" }, closed, answered, unserved, t * 4);
    if unserved > 0 {
        if !control_ok(t / 2) {
            return Verdict::Dropped("control_slow".into());
        }
        return Verdict::fail("C19/burst/connection-unserved-after-failed-setups", format!("{} although the fault-free control listener answered within {:?}", what, t / 2));
    }
    if closed > failing && !natural {
        // more connections were closed without an answer than had their setup failed
        return Verdict::fail("C19/good-connection-closed", format!("{}: {} connections were closed without an answer although only {} setups were failed", what, closed, failing));
    }
    if closed != failing || answered != case.burst - failing {
        return Verdict::Dropped(format!("fault_attribution_differs:{}closed/{}answered", closed, answered));
    }
    // the listener must still serve fresh connections
    for k in 0..case.followers {
        let ex = subject.rt.block_on(async {
            match RtrClient::connect_from(lo, subject.ports[0]).await {
                Ok(mut c) => {
                    let first = c.reset_query(1, t).await;
                    if first == Exchange::Timeout {
                        c.read_answer(t * 3).await
                    } else {
                        first
                    }
                }
                Err(e) => Exchange::Io(e),
            }
        });
        let ok = if natural { ex == Exchange::Closed } else { matches!(ex, Exchange::Answered { error_code: None, .. }) };
        match ex {
            _ if ok => {}
            Exchange::Io(e) if failing >= 1 && e.contains("refused") => {
                if !control_ok(t / 2) {
                    return Verdict::Dropped("control_slow".into());
                }
                return Verdict::fail(KEY_GONE, format!("{}; follower {} of {} was refused: the listener no longer exists although the control listener answered", what, k + 1, case.followers));
            }
            Exchange::Closed if !natural && failing >= 1 => {
                return Verdict::fail("C19/good-connection-closed", format!("{}; follower {} of {} was closed without an answer although its setup was not failed", what, k + 1, case.followers));
            }
            Exchange::Io(e) => return Verdict::Dropped(format!("client_io:{}", truncate(&e, 40))),
            Exchange::Timeout => {
                if !control_ok(t / 2) {
                    return Verdict::Dropped("control_slow".into());
                }
                return Verdict::fail("C19/burst/listener-dead-after-burst", format!("{}; follower {} of {} was neither answered nor closed within {:?} although the control listener answered", what, k + 1, case.followers, t * 4));
            }
            other => return Verdict::Dropped(format!("unexpected_exchange:{:?}", other).chars().take(60).collect()),
        }
    }
    Verdict::Pass
}

fn strategy(keepalives: Vec<Option<u64>>, accepted: Vec<Option<u64>>, fault_free_share: u32) -> impl Strategy<Value = Case> {
    let conn = (prop::bool::weighted(0.3), 0u8..=2).prop_map(|(fail, version)| Conn { fail, version });
    let good = (0u8..=2).prop_map(|version| Conn { fail: false, version });
    prop_oneof![
        (100 - fault_free_share) => (prop::sample::select(keepalives), prop::collection::vec(conn, 3..=12)).prop_map(|(keepalive, conns)| Case { keepalive, conns }),
        fault_free_share => (prop::sample::select(accepted), prop::collection::vec(good, 3..=12)).prop_map(|(keepalive, conns)| Case { keepalive, conns }),
    ]
}

pub fn run(ctx: &Ctx, rep: &mut Report, replay: Option<&serde_json::Value>) {
    let t = Duration::from_millis(ctx.tier.pick(1000, 3000));
    let p = Params { t };
    rep.rule("sequences of 3-12 sequential RTR client connections (Reset Query, versions 0-2) to a real in-process rtr_listener; a generated subset of connections has its setup failed through the verif hook, or the configured rtr-tcp-keepalive (off, 1, 60, 7200, 32767, 32768, 100000, 2^32-1, 2^32, 2^64-1) is one the kernel rejects so that every setup fails; whether the kernel accepts a value is probed with the same socket options; non-trivial = some connection follows one whose setup failed; plus bursts of 1-40 connections that are already queued in the accept backlog when the listener task is first polled, of which the first k (or all, via a rejected keepalive) fail their setup, followed by 1-2 fresh connections; distinct by serialised case");
    rep.assume(format!("bounded-wait liveness: a connection that is neither answered nor closed within {:?} (4 x T) while a fault-free control listener in the same process answers within {:?} counts as not served; slower cases are dropped, not judged", t * 4, t / 2));
    rep.assume("connections are made one after the other, so the hook's decision applies to exactly the connection just opened; this is confirmed per connection (an answered connection that should have failed is dropped as fault_not_applied)");
    if let Some(v) = replay {
        let tv: Tagged<serde_json::Value> = serde_json::from_value(v.clone()).expect("replay");
        if tv.sub == "burst" {
            let c: BurstCase = serde_json::from_value(tv.case).expect("case");
            run_case(ctx, rep, "burst", &c, |c, i| evaluate_burst(c, &p, i));
            return;
        }
        let tg: Tagged<Case> = serde_json::from_value(v.clone()).expect("replay");
        run_case(ctx, rep, "seq", &tg.case, |c, i| evaluate(c, &p, i));
        return;
    }
    let keepalives: Vec<Option<u64>> = vec![None, Some(1), Some(60), Some(7200), Some(32767), Some(32768), Some(100000), Some(u32::MAX as u64), Some(1 << 32), Some(u64::MAX)];
    let probe: Vec<_> = keepalives.iter().flatten().map(|s| (s.to_string(), kernel_accepts_keepalive(*s))).collect();
    rep.extra.insert("kernel_keepalive_probe".into(), serde_json::json!(probe));
    let exclude = !ctx.strict && ctx.known_key(KEY_STALL).is_some();
    let excluded = std::cell::Cell::new(0u64);
    let accepted: Vec<Option<u64>> = keepalives.iter().copied().filter(|k| k.map(kernel_accepts_keepalive).unwrap_or(true)).collect();
    run_prop(ctx, rep, "seq", ctx.tier.pick(150, 2500), strategy(keepalives, accepted, if exclude { 60 } else { 10 }), |case, info| {
        let rejected = case.keepalive.map(|s| !kernel_accepts_keepalive(s)).unwrap_or(false);
        match first_followed_failure(case, rejected) {
            Some(i) if exclude => {
                // Listed finding: every later connection stalls after the first failed setup. The shape
                // "a connection follows a failed setup" is excluded by construction: the sequence is cut
                // after its first failing connection (the failing setup itself is still exercised).
                excluded.set(excluded.get() + 1);
                let cut = Case { keepalive: case.keepalive, conns: case.conns[..=i].to_vec() };
                info.class("cut_after_first_failed_setup");
                evaluate(&cut, &p, info)
            }
            _ => evaluate(case, &p, info),
        }
    });
    for _ in 0..excluded.get() {
        rep.exclude_known(KEY_STALL);
    }
    if rep.violated() {
        return;
    }
    // bursts: connections already queued when the listener is first polled, many setups failing back to back
    if !exclude {
        let burst = (prop::sample::select(vec![1usize, 2, 3, 7, 8, 9, 12, 16, 17, 24, 40]), 0usize..=40, 1usize..=2, prop::bool::weighted(0.3)).prop_map(|(burst, failing, followers, natural)| BurstCase { burst, failing: failing.min(burst), followers, natural });
        run_prop(ctx, rep, "burst", ctx.tier.pick(40, 600), burst, |c, i| evaluate_burst(c, &p, i));
        if rep.violated() {
            return;
        }
    }
    // directed representatives of the listed shape, every run
    let c = |keepalive: Option<u64>, conns: &[(bool, u8)]| Case { keepalive, conns: conns.iter().map(|(fail, version)| Conn { fail: *fail, version: *version }).collect() };
    for case in [
        c(Some(60), &[(true, 1), (false, 1), (false, 2)]),
        c(None, &[(false, 0), (true, 1), (false, 1)]),
        c(Some(100000), &[(false, 1), (false, 1), (false, 2)]),
    ] {
        run_case(ctx, rep, "seq", &case, |c, i| evaluate(c, &p, i));
    }
}
