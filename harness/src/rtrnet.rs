//! In-process RTR listener + plain TCP RTR clients (shared by C19 and the end-to-end part of C36).

use std::net::{IpAddr, SocketAddr};
use std::path::PathBuf;
use std::sync::Arc;
use std::time::Duration;

use routinator::config::Config;
use routinator::metrics::{Metrics, RtrServerMetrics};
use routinator::payload::{SharedHistory, ValidationReport};
use routinator::slurm::LocalExceptions;
use rpki::rtr::server::NotifySender;
use tokio::io::{AsyncReadExt, AsyncWriteExt};
use tokio::net::{TcpSocket, TcpStream};

/// A real `routinator::rtr::rtr_listener` running on its own tokio runtime with one installed
/// (SLURM-only) data set, listening on `ports` of 127.0.0.1.
pub struct RtrTestServer {
    pub rt: tokio::runtime::Runtime,
    pub ports: Vec<u16>,
    pub metrics: Arc<RtrServerMetrics>,
    pub history: SharedHistory,
    /// connections to the first listener that were established (queued in the accept backlog)
    /// before the listener task was started
    pub preconnected: Vec<std::net::TcpStream>,
}

const SLURM: &str = r#"{"slurmVersion":1,"validationOutputFilters":{"prefixFilters":[],"bgpsecFilters":[]},"locallyAddedAssertions":{"prefixAssertions":[{"asn":64496,"prefix":"192.0.2.0/24","maxPrefixLength":24},{"asn":64497,"prefix":"2001:db8::/32"}],"bgpsecAssertions":[]}}"#;

pub fn free_port() -> std::io::Result<u16> {
    let l = std::net::TcpListener::bind("127.0.0.1:0")?;
    Ok(l.local_addr()?.port())
}

impl RtrTestServer {
    /// Starts `n` listeners. Ports are probed free immediately before use; three attempts.
    pub fn start(n: usize, keepalive: Option<Duration>, client_metrics: bool) -> Result<Self, String> {
        Self::start_with_backlog(n, keepalive, client_metrics, 0)
    }

    /// Like `start`, but `burst` client connections to the first listener are established after the
    /// sockets are bound and before the listener task runs, so they all sit in the accept queue when
    /// the listener is polled for the first time.
    pub fn start_with_backlog(n: usize, keepalive: Option<Duration>, client_metrics: bool, burst: usize) -> Result<Self, String> {
        let rt = tokio::runtime::Builder::new_multi_thread().worker_threads(2).enable_all().build().map_err(|e| e.to_string())?;
        let mut last = String::new();
        for _attempt in 0..3 {
            let mut config = Config::default_with_paths(PathBuf::from("/nonexistent/routinator.conf"), PathBuf::from("/nonexistent/cache"));
            let mut ports = Vec::new();
            // keep the probe sockets until all ports are chosen so they are distinct
            let mut probes = Vec::new();
            for _ in 0..n {
                let l = std::net::TcpListener::bind("127.0.0.1:0").map_err(|e| e.to_string())?;
                ports.push(l.local_addr().map_err(|e| e.to_string())?.port());
                probes.push(l);
            }
            drop(probes);
            config.rtr_listen = ports.iter().map(|p| SocketAddr::from(([127, 0, 0, 1], *p))).collect();
            config.rtr_tcp_keepalive = keepalive;
            config.rtr_client_metrics = client_metrics;
            let history = SharedHistory::from_config(&config);
            let exceptions = LocalExceptions::from_json(SLURM, false).map_err(|e| format!("slurm: {}", e))?;
            history.mark_update_start();
            history.update(ValidationReport::new(&config), &exceptions, Metrics::new());
            history.mark_update_done();
            let metrics = Arc::new(RtrServerMetrics::new(client_metrics));
            let fut = {
                let _g = rt.enter();
                match routinator::rtr::rtr_listener(history.clone(), metrics.clone(), &config, NotifySender::new(), None) {
                    Ok(f) => f,
                    Err(_) => {
                        last = format!("rtr_listener failed to bind {:?}", ports);
                        continue;
                    }
                }
            };
            let mut preconnected = Vec::new();
            for _ in 0..burst {
                match std::net::TcpStream::connect_timeout(&SocketAddr::from(([127, 0, 0, 1], ports[0])), Duration::from_secs(5)) {
                    Ok(s) => preconnected.push(s),
                    Err(e) => return Err(format!("pre-connect: {}", e)),
                }
            }
            rt.spawn(fut);
            return Ok(RtrTestServer { rt, ports, metrics, history, preconnected });
        }
        Err(last)
    }
}

/// How a query on one connection ended (so far).
#[derive(Debug, Clone, PartialEq, Eq)]
pub enum Exchange {
    /// Cache Response … End of Data received (`payload` PDUs in between), or an Error Report.
    Answered { payload: usize, error_code: Option<u16> },
    /// The server closed / reset the connection before completing an answer.
    Closed,
    /// Nothing (complete) arrived within the bound; the connection is still open.
    Timeout,
    Io(String),
}

pub struct RtrClient {
    pub stream: TcpStream,
    buf: Vec<u8>,
    payload: usize,
    pub local: SocketAddr,
}

impl RtrClient {
    pub async fn connect_from(src: IpAddr, port: u16) -> Result<Self, String> {
        let sock = TcpSocket::new_v4().map_err(|e| e.to_string())?;
        sock.bind(SocketAddr::new(src, 0)).map_err(|e| format!("bind {}: {}", src, e))?;
        let stream = tokio::time::timeout(Duration::from_secs(10), sock.connect(SocketAddr::from(([127, 0, 0, 1], port))))
            .await
            .map_err(|_| "connect timeout".to_string())?
            .map_err(|e| format!("connect: {}", e))?;
        let local = stream.local_addr().map_err(|e| e.to_string())?;
        Ok(RtrClient { stream, buf: Vec::new(), payload: 0, local })
    }

    /// Sends a Reset Query PDU (RFC 8210 §5.4): version, type 2, zero, length 8.
    pub async fn send_reset(&mut self, version: u8) -> Result<(), String> {
        let pdu = [version, 2, 0, 0, 0, 0, 0, 8];
        self.stream.write_all(&pdu).await.map_err(|e| e.to_string())
    }

    /// Reads until End of Data (type 7) / Error Report (type 10) / close, at most `bound`.
    /// May be called again after `Timeout` to keep waiting on the same connection.
    pub async fn read_answer(&mut self, bound: Duration) -> Exchange {
        let deadline = tokio::time::Instant::now() + bound;
        loop {
            // parse complete PDUs in the buffer
            while self.buf.len() >= 8 {
                let len = u32::from_be_bytes([self.buf[4], self.buf[5], self.buf[6], self.buf[7]]) as usize;
                if !(8..=1 << 20).contains(&len) {
                    return Exchange::Io(format!("bad PDU length {}", len));
                }
                if self.buf.len() < len {
                    break;
                }
                let typ = self.buf[1];
                let code = u16::from_be_bytes([self.buf[2], self.buf[3]]);
                self.buf.drain(..len);
                match typ {
                    3 => {}
                    7 => return Exchange::Answered { payload: self.payload, error_code: None },
                    10 => return Exchange::Answered { payload: self.payload, error_code: Some(code) },
                    _ => self.payload += 1,
                }
            }
            let mut tmp = [0u8; 4096];
            match tokio::time::timeout_at(deadline, self.stream.read(&mut tmp)).await {
                Err(_) => return Exchange::Timeout,
                Ok(Ok(0)) => return Exchange::Closed,
                Ok(Ok(n)) => self.buf.extend_from_slice(&tmp[..n]),
                Ok(Err(e)) => {
                    return match e.kind() {
                        std::io::ErrorKind::ConnectionReset | std::io::ErrorKind::BrokenPipe | std::io::ErrorKind::ConnectionAborted => Exchange::Closed,
                        _ => Exchange::Io(e.to_string()),
                    }
                }
            }
        }
    }

    pub async fn reset_query(&mut self, version: u8, bound: Duration) -> Exchange {
        if let Err(e) = self.send_reset(version).await {
            // a server that already dropped the connection may make the write fail
            return if e.contains("reset") || e.contains("Broken pipe") { Exchange::Closed } else { Exchange::Io(e) };
        }
        self.read_answer(bound).await
    }
}
