//! In-harness HTTPS transport for routinator's real HTTP client, plus an RRDP publisher model.
//!
//! **No DNS, no hooks.** Routinator is configured with `rrdp_root_certs = [assets/tls/ca.pem]` and
//! `rrdp_proxies = ["http://127.0.0.1:<port>"]`. The harness listener (plain TCP, port 0) answers
//! `CONNECT host:port HTTP/1.1` with `200` and then terminates TLS itself (rustls, ring provider,
//! chain `assets/tls/leaf.pem`; SANs `*.rpki.test`, `rpki.test`, `localhost`, `*.example.net`,
//! `*.example.org`, `127.0.0.1`, `127.0.0.2`, `::1`) and speaks HTTP/1.1 (keep-alive, GET only).
//!
//! * [`HttpsServer`]: scripted responses per (host, path) — status, headers (ETag, Last-Modified …),
//!   Content-Length or chunked, connection drop after N body bytes, 304 on matching validators —
//!   changeable at any time; every CONNECT and every request is logged ([`Req`]: host, path,
//!   If-None-Match, If-Modified-Since, status sent); counts per host.
//! * [`RrdpServer`]: session, serial, current objects, bounded delta list; `apply`/`publish`/`withdraw`
//!   → new serial; `new_session`, `jump`, `trim`; renders notification / snapshot / delta XML exactly in
//!   the grammar `rpki::rrdp` parses; remembers every published state `(session, serial) → objects`
//!   for oracles; `install(&srv)` puts all current files on an [`HttpsServer`].
//! * client side helpers: [`client_config`] (Config pointing at the server), [`ta_ca_cert`] (a
//!   validated `CaCert` with chosen caRepository / rpkiNotify), [`archive_objects`] (content of the
//!   local RRDP archive of a notify URI) and [`archive_state`].
//!
//! Ports are dynamic and never enter a case value or a verdict.

use std::collections::{BTreeMap, HashMap, VecDeque};
use std::io::{Read, Write};
use std::net::{Shutdown, TcpListener, TcpStream};
use std::path::{Path, PathBuf};
use std::sync::atomic::{AtomicBool, AtomicU64, Ordering};
use std::sync::{Arc, Mutex, OnceLock};
use std::time::Duration;

use bytes::Bytes;
use routinator::config::Config;
use routinator::engine::CaCert;
use rpki::repository::cert::Cert;
use rpki::repository::tal::{TalInfo, TalUri};
use rpki::uri;
use tokio_rustls::rustls;
use uuid::Uuid;

use crate::core::verif_dir;
use crate::rpkigen as gen;

//------------------------------------------------------------------------------------------
// Scripted responses

#[derive(Clone, Debug)]
pub struct Resp {
    pub status: u16,
    pub headers: Vec<(String, String)>,
    pub body: Arc<Vec<u8>>,
    /// `Transfer-Encoding: chunked` instead of `Content-Length`
    pub chunked: bool,
    /// cut the TCP connection (no TLS close_notify) after this many body bytes were written
    pub drop_after: Option<usize>,
    /// answer 304 (no body) when If-None-Match equals this response's ETag header or
    /// If-Modified-Since equals its Last-Modified header
    pub conditional: bool,
}

impl Resp {
    pub fn ok(body: impl Into<Vec<u8>>) -> Resp {
        Resp { status: 200, headers: vec![], body: Arc::new(body.into()), chunked: false, drop_after: None, conditional: false }
    }
    pub fn ok_shared(body: Arc<Vec<u8>>) -> Resp {
        Resp { status: 200, headers: vec![], body, chunked: false, drop_after: None, conditional: false }
    }
    pub fn status(code: u16) -> Resp {
        let body = if code == 304 || code == 204 { Vec::new() } else { format!("status {}\n", code).into_bytes() };
        Resp { status: code, headers: vec![], body: Arc::new(body), chunked: false, drop_after: None, conditional: false }
    }
    pub fn header(mut self, name: &str, value: &str) -> Resp {
        self.headers.push((name.to_string(), value.to_string()));
        self
    }
    pub fn etag(self, tag: &str) -> Resp {
        self.header("ETag", tag)
    }
    pub fn last_modified(self, date: &str) -> Resp {
        self.header("Last-Modified", date)
    }
    pub fn chunked(mut self, yes: bool) -> Resp {
        self.chunked = yes;
        self
    }
    pub fn drop_after(mut self, n: usize) -> Resp {
        self.drop_after = Some(n);
        self
    }
    pub fn conditional(mut self) -> Resp {
        self.conditional = true;
        self
    }
    fn get_header(&self, name: &str) -> Option<&str> {
        self.headers.iter().find(|(n, _)| n.eq_ignore_ascii_case(name)).map(|(_, v)| v.as_str())
    }
}

/// One logged event.
#[derive(Clone, Debug, serde::Serialize)]
pub struct Req {
    pub seq: u64,
    /// "CONNECT" (tunnel request seen by the proxy role), "GET" …
    pub method: String,
    /// host as asked for in the CONNECT line (port stripped when it is 443)
    pub host: String,
    /// raw authority of the CONNECT line
    pub authority: String,
    pub path: String,
    pub if_none_match: Option<String>,
    pub if_modified_since: Option<String>,
    /// status answered (0 for CONNECT entries, which are always accepted)
    pub status: u16,
}

#[derive(Default)]
struct Routes {
    /// (host, path) -> queue; the last element is sticky
    exact: HashMap<(String, String), VecDeque<Resp>>,
    host_default: HashMap<String, Resp>,
}

struct Shared {
    routes: Mutex<Routes>,
    log: Mutex<Vec<Req>>,
    seq: AtomicU64,
    stop: AtomicBool,
}

pub struct HttpsServer {
    port: u16,
    shared: Arc<Shared>,
}

fn tls_config() -> Arc<rustls::ServerConfig> {
    static CFG: OnceLock<Arc<rustls::ServerConfig>> = OnceLock::new();
    CFG.get_or_init(|| {
        let dir = verif_dir().join("assets/tls");
        let cert_pem = std::fs::read(dir.join("leaf.pem")).expect("assets/tls/leaf.pem");
        let key_pem = std::fs::read(dir.join("leaf.key")).expect("assets/tls/leaf.key");
        let certs: Vec<_> = rustls_pemfile::certs(&mut &cert_pem[..]).collect::<Result<_, _>>().expect("leaf.pem parses");
        let key = rustls_pemfile::private_key(&mut &key_pem[..]).expect("leaf.key parses").expect("leaf.key has a key");
        let cfg = rustls::ServerConfig::builder_with_provider(Arc::new(rustls::crypto::ring::default_provider()))
            .with_safe_default_protocol_versions()
            .expect("protocol versions")
            .with_no_client_auth()
            .with_single_cert(certs, key)
            .expect("server cert");
        Arc::new(cfg)
    })
    .clone()
}

pub fn tls_ca_path() -> PathBuf {
    verif_dir().join("assets/tls/ca.pem")
}

impl HttpsServer {
    pub fn start() -> HttpsServer {
        let listener = TcpListener::bind(("127.0.0.1", 0)).expect("bind loopback");
        let port = listener.local_addr().expect("local addr").port();
        let shared = Arc::new(Shared { routes: Mutex::new(Routes::default()), log: Mutex::new(Vec::new()), seq: AtomicU64::new(0), stop: AtomicBool::new(false) });
        let tls = tls_config();
        let sh = shared.clone();
        std::thread::Builder::new()
            .name("rv-https-accept".into())
            .spawn(move || {
                for conn in listener.incoming() {
                    if sh.stop.load(Ordering::SeqCst) {
                        break;
                    }
                    let Ok(conn) = conn else { continue };
                    let sh = sh.clone();
                    let tls = tls.clone();
                    let _ = std::thread::Builder::new().name("rv-https-conn".into()).spawn(move || {
                        let _ = serve_connection(conn, &sh, tls);
                    });
                }
            })
            .expect("spawn accept thread");
        HttpsServer { port, shared }
    }

    pub fn port(&self) -> u16 {
        self.port
    }
    pub fn proxy_url(&self) -> String {
        format!("http://127.0.0.1:{}", self.port)
    }

    /// Sets the (sticky) response for (host, path).
    pub fn set(&self, host: &str, path: &str, resp: Resp) {
        self.set_seq(host, path, vec![resp]);
    }
    /// Sets a sequence of responses for (host, path): one per request, the last one stays.
    pub fn set_seq(&self, host: &str, path: &str, resps: Vec<Resp>) {
        let mut r = self.shared.routes.lock().unwrap();
        r.exact.insert((host.to_ascii_lowercase(), path.to_string()), resps.into());
    }
    pub fn remove(&self, host: &str, path: &str) {
        self.shared.routes.lock().unwrap().exact.remove(&(host.to_ascii_lowercase(), path.to_string()));
    }
    /// Response for every path of `host` that has no exact route (default: 404).
    pub fn set_host_default(&self, host: &str, resp: Resp) {
        self.shared.routes.lock().unwrap().host_default.insert(host.to_ascii_lowercase(), resp);
    }
    pub fn clear_host(&self, host: &str) {
        let host = host.to_ascii_lowercase();
        let mut r = self.shared.routes.lock().unwrap();
        r.exact.retain(|(h, _), _| *h != host);
        r.host_default.remove(&host);
    }
    pub fn clear(&self) {
        let mut r = self.shared.routes.lock().unwrap();
        r.exact.clear();
        r.host_default.clear();
    }

    pub fn log(&self) -> Vec<Req> {
        self.shared.log.lock().unwrap().clone()
    }
    pub fn take_log(&self) -> Vec<Req> {
        std::mem::take(&mut *self.shared.log.lock().unwrap())
    }
    /// Number of HTTP requests (not CONNECTs) received for `host`.
    pub fn count(&self, host: &str) -> usize {
        let host = host.to_ascii_lowercase();
        self.shared.log.lock().unwrap().iter().filter(|r| r.method != "CONNECT" && r.host == host).count()
    }
    /// Number of CONNECT requests whose authority (any port) names `host`.
    pub fn connects(&self, host: &str) -> usize {
        let host = host.to_ascii_lowercase();
        self.shared.log.lock().unwrap().iter().filter(|r| r.method == "CONNECT" && r.host == host).count()
    }
    /// Requests per host.
    pub fn counts(&self) -> BTreeMap<String, usize> {
        let mut res = BTreeMap::new();
        for r in self.shared.log.lock().unwrap().iter().filter(|r| r.method != "CONNECT") {
            *res.entry(r.host.clone()).or_default() += 1;
        }
        res
    }
}

impl Drop for HttpsServer {
    fn drop(&mut self) {
        self.shared.stop.store(true, Ordering::SeqCst);
        let _ = TcpStream::connect(("127.0.0.1", self.port));
    }
}

fn find_head_end(buf: &[u8]) -> Option<usize> {
    buf.windows(4).position(|w| w == b"\r\n\r\n").map(|p| p + 4)
}

/// Reads one request head from `stream`, keeping surplus bytes in `buf`. None = peer closed.
fn read_head(stream: &mut impl Read, buf: &mut Vec<u8>) -> Option<Vec<u8>> {
    loop {
        if let Some(end) = find_head_end(buf) {
            let head: Vec<u8> = buf.drain(..end).collect();
            return Some(head);
        }
        if buf.len() > 64 * 1024 {
            return None;
        }
        let mut chunk = [0u8; 4096];
        match stream.read(&mut chunk) {
            Ok(0) | Err(_) => return None,
            Ok(n) => buf.extend_from_slice(&chunk[..n]),
        }
    }
}

struct Head {
    method: String,
    target: String,
    headers: Vec<(String, String)>,
}

fn parse_head(head: &[u8]) -> Option<Head> {
    let text = String::from_utf8_lossy(head);
    let mut lines = text.split("\r\n");
    let first = lines.next()?;
    let mut parts = first.split(' ');
    let method = parts.next()?.to_string();
    let target = parts.next()?.to_string();
    let mut headers = Vec::new();
    for l in lines {
        if let Some((n, v)) = l.split_once(':') {
            headers.push((n.trim().to_string(), v.trim().to_string()));
        }
    }
    Some(Head { method, target, headers })
}

fn header<'a>(h: &'a Head, name: &str) -> Option<&'a str> {
    h.headers.iter().find(|(n, _)| n.eq_ignore_ascii_case(name)).map(|(_, v)| v.as_str())
}

/// Splits a CONNECT authority into (host without brackets kept as sent, port).
fn split_authority(auth: &str) -> (String, u16) {
    if let Some(rest) = auth.strip_prefix('[') {
        if let Some((h, p)) = rest.split_once(']') {
            let port = p.strip_prefix(':').and_then(|p| p.parse().ok()).unwrap_or(443);
            return (format!("[{}]", h.to_ascii_lowercase()), port);
        }
    }
    match auth.rsplit_once(':') {
        Some((h, p)) if p.parse::<u16>().is_ok() => (h.to_ascii_lowercase(), p.parse().unwrap()),
        _ => (auth.to_ascii_lowercase(), 443),
    }
}

fn serve_connection(mut tcp: TcpStream, sh: &Arc<Shared>, tls: Arc<rustls::ServerConfig>) -> std::io::Result<()> {
    tcp.set_read_timeout(Some(Duration::from_secs(60)))?;
    tcp.set_write_timeout(Some(Duration::from_secs(60)))?;
    tcp.set_nodelay(true)?;
    // proxy role: read the CONNECT head byte-wise so that nothing of the TLS hello is consumed
    let mut head = Vec::new();
    let mut one = [0u8; 1];
    while find_head_end(&head).is_none() {
        if head.len() > 16 * 1024 || tcp.read(&mut one)? == 0 {
            return Ok(());
        }
        head.push(one[0]);
    }
    let Some(h) = parse_head(&head) else { return Ok(()) };
    if h.method != "CONNECT" {
        // plain request to the proxy port (http:// URIs): logged and refused
        let seq = sh.seq.fetch_add(1, Ordering::SeqCst);
        sh.log.lock().unwrap().push(Req { seq, method: h.method.clone(), host: header(&h, "host").unwrap_or("").to_ascii_lowercase(), authority: String::new(), path: h.target.clone(), if_none_match: None, if_modified_since: None, status: 400 });
        tcp.write_all(b"HTTP/1.1 400 Bad Request\r\nContent-Length: 0\r\nConnection: close\r\n\r\n")?;
        return Ok(());
    }
    let authority = h.target.clone();
    let (host, port) = split_authority(&authority);
    let host = if port == 443 { host } else { format!("{}:{}", host, port) };
    {
        let seq = sh.seq.fetch_add(1, Ordering::SeqCst);
        let bare = split_authority(&authority).0;
        sh.log.lock().unwrap().push(Req { seq, method: "CONNECT".into(), host: bare, authority: authority.clone(), path: String::new(), if_none_match: None, if_modified_since: None, status: 0 });
    }
    tcp.write_all(b"HTTP/1.1 200 OK\r\n\r\n")?;
    tcp.flush()?;
    let conn = rustls::ServerConnection::new(tls).map_err(std::io::Error::other)?;
    let mut stream = rustls::StreamOwned::new(conn, tcp);
    let mut buf = Vec::new();
    loop {
        let Some(head) = read_head(&mut stream, &mut buf) else { break };
        let Some(h) = parse_head(&head) else { break };
        let inm = header(&h, "if-none-match").map(|s| s.to_string());
        let ims = header(&h, "if-modified-since").map(|s| s.to_string());
        // pick the response
        let resp = {
            let mut routes = sh.routes.lock().unwrap();
            let key = (host.clone(), h.target.clone());
            let found = match routes.exact.get_mut(&key) {
                Some(q) if q.len() > 1 => q.pop_front(),
                Some(q) => q.front().cloned(),
                None => None,
            };
            found.or_else(|| routes.host_default.get(&host).cloned()).unwrap_or_else(|| Resp::status(404))
        };
        let mut resp = resp;
        if resp.conditional && resp.status == 200 {
            let tag_hit = matches!((inm.as_deref(), resp.get_header("etag")), (Some(a), Some(b)) if a == b);
            let date_hit = matches!((ims.as_deref(), resp.get_header("last-modified")), (Some(a), Some(b)) if a == b);
            if tag_hit || date_hit {
                let headers = resp.headers.clone();
                resp = Resp::status(304);
                resp.headers = headers;
            }
        }
        {
            let seq = sh.seq.fetch_add(1, Ordering::SeqCst);
            sh.log.lock().unwrap().push(Req { seq, method: h.method.clone(), host: host.clone(), authority: authority.clone(), path: h.target.clone(), if_none_match: inm, if_modified_since: ims, status: resp.status });
        }
        let no_body = resp.status == 304 || resp.status == 204 || h.method == "HEAD";
        let mut out = Vec::with_capacity(256);
        write!(out, "HTTP/1.1 {} {}\r\n", resp.status, reason(resp.status))?;
        for (n, v) in &resp.headers {
            write!(out, "{}: {}\r\n", n, v)?;
        }
        if resp.drop_after.is_some() {
            out.extend_from_slice(b"Connection: close\r\n");
        }
        if !no_body {
            if resp.chunked {
                out.extend_from_slice(b"Transfer-Encoding: chunked\r\n");
            } else {
                write!(out, "Content-Length: {}\r\n", resp.body.len())?;
            }
        } else if resp.status != 304 {
            out.extend_from_slice(b"Content-Length: 0\r\n");
        }
        out.extend_from_slice(b"\r\n");
        stream.write_all(&out)?;
        if !no_body {
            let limit = resp.drop_after.map(|n| n.min(resp.body.len())).unwrap_or(resp.body.len());
            let body = &resp.body[..limit];
            if resp.chunked {
                for chunk in body.chunks(16 * 1024) {
                    write!(stream, "{:x}\r\n", chunk.len())?;
                    stream.write_all(chunk)?;
                    stream.write_all(b"\r\n")?;
                }
                if resp.drop_after.is_none() {
                    stream.write_all(b"0\r\n\r\n")?;
                }
            } else {
                stream.write_all(body)?;
            }
        }
        stream.flush()?;
        if resp.drop_after.is_some() {
            // abrupt end: no close_notify, just cut the socket
            let _ = stream.sock.shutdown(Shutdown::Both);
            return Ok(());
        }
    }
    stream.conn.send_close_notify();
    let _ = stream.flush();
    Ok(())
}

fn reason(code: u16) -> &'static str {
    match code {
        200 => "OK",
        204 => "No Content",
        301 => "Moved Permanently",
        302 => "Found",
        304 => "Not Modified",
        400 => "Bad Request",
        403 => "Forbidden",
        404 => "Not Found",
        500 => "Internal Server Error",
        502 => "Bad Gateway",
        503 => "Service Unavailable",
        _ => "Status",
    }
}

//------------------------------------------------------------------------------------------
// RRDP publisher model

pub const RRDP_NS: &str = "http://www.ripe.net/rpki/rrdp";

pub fn hex(data: &[u8]) -> String {
    let mut s = String::with_capacity(data.len() * 2);
    for b in data {
        s.push_str(&format!("{:02x}", b));
    }
    s
}

pub fn sha256_hex(data: &[u8]) -> String {
    hex(&gen::sha256(data))
}

fn b64(data: &[u8]) -> String {
    rpki::util::base64::Xml.encode(data)
}

#[derive(Clone, Debug, PartialEq, Eq)]
pub enum DeltaEl {
    /// `<publish uri=…>` without hash: the object must not exist yet
    Publish { uri: String, data: Bytes },
    /// `<publish uri=… hash=…>`: replaces the object with that hash
    Update { uri: String, old_hash: String, data: Bytes },
    /// `<withdraw uri=… hash=…/>`
    Withdraw { uri: String, hash: String },
}

#[derive(Clone, Debug, PartialEq, Eq)]
pub struct DeltaRec {
    pub serial: u64,
    pub els: Vec<DeltaEl>,
}

pub fn render_snapshot(session: &Uuid, serial: u64, objects: &BTreeMap<String, Bytes>) -> Vec<u8> {
    let mut s = format!("<snapshot xmlns=\"{}\" version=\"1\" session_id=\"{}\" serial=\"{}\">\n", RRDP_NS, session, serial);
    for (uri, data) in objects {
        s.push_str(&format!("  <publish uri=\"{}\">{}</publish>\n", uri, b64(data)));
    }
    s.push_str("</snapshot>\n");
    s.into_bytes()
}

pub fn render_delta(session: &Uuid, serial: u64, els: &[DeltaEl]) -> Vec<u8> {
    let mut s = format!("<delta xmlns=\"{}\" version=\"1\" session_id=\"{}\" serial=\"{}\">\n", RRDP_NS, session, serial);
    for el in els {
        match el {
            DeltaEl::Publish { uri, data } => s.push_str(&format!("  <publish uri=\"{}\">{}</publish>\n", uri, b64(data))),
            DeltaEl::Update { uri, old_hash, data } => s.push_str(&format!("  <publish uri=\"{}\" hash=\"{}\">{}</publish>\n", uri, old_hash, b64(data))),
            DeltaEl::Withdraw { uri, hash } => s.push_str(&format!("  <withdraw uri=\"{}\" hash=\"{}\"/>\n", uri, hash)),
        }
    }
    s.push_str("</delta>\n");
    s.into_bytes()
}

/// `deltas`: (serial, uri, sha256 hex) in the order they are to be listed.
pub fn render_notification(session: &Uuid, serial: u64, snapshot_uri: &str, snapshot_hash: &str, deltas: &[(u64, String, String)]) -> Vec<u8> {
    let mut s = format!("<notification xmlns=\"{}\" version=\"1\" session_id=\"{}\" serial=\"{}\">\n", RRDP_NS, session, serial);
    s.push_str(&format!("  <snapshot uri=\"{}\" hash=\"{}\"/>\n", snapshot_uri, snapshot_hash));
    for (ser, uri, hash) in deltas {
        s.push_str(&format!("  <delta serial=\"{}\" uri=\"{}\" hash=\"{}\"/>\n", ser, uri, hash));
    }
    s.push_str("</notification>\n");
    s.into_bytes()
}

/// Deterministic session id number `n` of a server seeded with `seed`.
pub fn session_uuid(seed: u64, n: u64) -> Uuid {
    let mut b = [0u8; 16];
    b[..8].copy_from_slice(&seed.to_be_bytes());
    b[8..].copy_from_slice(&n.to_be_bytes());
    // version 4 / variant 1 bits so that it looks like what servers send
    b[6] = (b[6] & 0x0f) | 0x40;
    b[8] = (b[8] & 0x3f) | 0x80;
    Uuid::from_bytes(b)
}

pub struct RrdpServer {
    pub host: String,
    /// path prefix without leading/trailing slash, e.g. "rrdp"
    pub base: String,
    pub seed: u64,
    pub session_no: u64,
    pub session: Uuid,
    pub serial: u64,
    pub objects: BTreeMap<String, Bytes>,
    pub deltas: VecDeque<DeltaRec>,
    /// the server keeps at most this many deltas
    pub max_deltas: usize,
    /// every state ever published
    pub history: BTreeMap<(Uuid, u64), BTreeMap<String, Bytes>>,
}

impl RrdpServer {
    pub fn new(host: &str, base: &str, seed: u64) -> RrdpServer {
        let session = session_uuid(seed, 0);
        let mut s = RrdpServer { host: host.to_string(), base: base.trim_matches('/').to_string(), seed, session_no: 0, session, serial: 1, objects: BTreeMap::new(), deltas: VecDeque::new(), max_deltas: 16, history: BTreeMap::new() };
        s.record();
        s
    }

    fn record(&mut self) {
        self.history.insert((self.session, self.serial), self.objects.clone());
    }

    /// Applies changes (uri, Some(new content) | None = withdraw) as ONE new serial with a delta.
    /// Changes that are no-ops (withdraw of a missing object) are skipped.
    pub fn apply(&mut self, changes: &[(String, Option<Bytes>)]) -> u64 {
        let mut els = Vec::new();
        for (uri, new) in changes {
            // one element per URI and delta
            if els.iter().any(|e: &DeltaEl| match e {
                DeltaEl::Publish { uri: u, .. } | DeltaEl::Update { uri: u, .. } | DeltaEl::Withdraw { uri: u, .. } => u == uri,
            }) {
                continue;
            }
            match (self.objects.get(uri).cloned(), new) {
                (None, Some(data)) => {
                    els.push(DeltaEl::Publish { uri: uri.clone(), data: data.clone() });
                    self.objects.insert(uri.clone(), data.clone());
                }
                (Some(old), Some(data)) => {
                    els.push(DeltaEl::Update { uri: uri.clone(), old_hash: sha256_hex(&old), data: data.clone() });
                    self.objects.insert(uri.clone(), data.clone());
                }
                (Some(old), None) => {
                    els.push(DeltaEl::Withdraw { uri: uri.clone(), hash: sha256_hex(&old) });
                    self.objects.remove(uri);
                }
                (None, None) => {}
            }
        }
        self.serial += 1;
        self.deltas.push_back(DeltaRec { serial: self.serial, els });
        while self.deltas.len() > self.max_deltas {
            self.deltas.pop_front();
        }
        self.record();
        self.serial
    }

    pub fn publish(&mut self, uri: &str, data: impl Into<Bytes>) -> u64 {
        self.apply(&[(uri.to_string(), Some(data.into()))])
    }
    pub fn withdraw(&mut self, uri: &str) -> u64 {
        self.apply(&[(uri.to_string(), None)])
    }

    /// New session: same objects, serial 1, no deltas.
    pub fn new_session(&mut self) {
        self.session_no += 1;
        self.session = session_uuid(self.seed, self.session_no);
        self.serial = 1;
        self.deltas.clear();
        self.record();
    }

    /// Serial jump inside the session: `n` serials are skipped, no deltas lead to the new serial.
    pub fn jump(&mut self, n: u64) {
        self.serial += n.max(1);
        self.deltas.clear();
        self.record();
    }

    /// Keeps only the newest `keep` deltas.
    pub fn trim(&mut self, keep: usize) {
        while self.deltas.len() > keep {
            self.deltas.pop_front();
        }
    }

    pub fn path(&self, rest: &str) -> String {
        format!("/{}/{}", self.base, rest)
    }
    pub fn notify_path(&self) -> String {
        self.path("notification.xml")
    }
    pub fn notify_uri(&self) -> uri::Https {
        uri::Https::from_string(format!("https://{}{}", self.host, self.notify_path())).expect("notify uri")
    }
    pub fn snapshot_path(&self) -> String {
        self.path(&format!("{}/{}/snapshot.xml", self.session, self.serial))
    }
    pub fn delta_path(&self, serial: u64) -> String {
        self.path(&format!("{}/{}/delta.xml", self.session, serial))
    }
    pub fn abs(&self, path: &str) -> String {
        format!("https://{}{}", self.host, path)
    }

    pub fn snapshot_xml(&self) -> Vec<u8> {
        render_snapshot(&self.session, self.serial, &self.objects)
    }
    pub fn delta_xml(&self, serial: u64) -> Option<Vec<u8>> {
        self.deltas.iter().find(|d| d.serial == serial).map(|d| render_delta(&self.session, d.serial, &d.els))
    }
    /// The truthful delta list: (serial, uri, hash), ascending.
    pub fn delta_list(&self) -> Vec<(u64, String, String)> {
        self.deltas.iter().map(|d| (d.serial, self.abs(&self.delta_path(d.serial)), sha256_hex(&render_delta(&self.session, d.serial, &d.els)))).collect()
    }
    pub fn notification_xml(&self) -> Vec<u8> {
        // newest first, as real servers list them (the client must sort)
        let mut list = self.delta_list();
        list.reverse();
        render_notification(&self.session, self.serial, &self.abs(&self.snapshot_path()), &sha256_hex(&self.snapshot_xml()), &list)
    }

    /// Puts the truthful current files on the server: notification, snapshot, all retained deltas.
    pub fn install(&self, srv: &HttpsServer) {
        srv.clear_host(&self.host);
        srv.set(&self.host, &self.notify_path(), Resp::ok(self.notification_xml()));
        srv.set(&self.host, &self.snapshot_path(), Resp::ok(self.snapshot_xml()));
        for d in &self.deltas {
            srv.set(&self.host, &self.delta_path(d.serial), Resp::ok(render_delta(&self.session, d.serial, &d.els)));
        }
    }
}

//------------------------------------------------------------------------------------------
// Client side

/// A routinator config whose RRDP client reaches `srv` for every host name; rsync goes to the fake
/// `rvrsync` over `<dir>/srv` with invocation log `<dir>/rsync.log`. Cache in `<dir>/cache`.
pub fn client_config(dir: &Path, srv: &HttpsServer) -> Config {
    let mut c = Config::default_with_paths(dir.join("routinator.conf"), dir.join("cache"));
    c.no_rir_tals = true;
    c.rrdp_root_certs = vec![tls_ca_path()];
    c.rrdp_proxies = vec![srv.proxy_url()];
    c.rrdp_timeout = Some(Duration::from_secs(60));
    c.rrdp_connect_timeout = Some(Duration::from_secs(20));
    let rsync_bin = std::env::current_exe().expect("exe").parent().unwrap().join("rvrsync");
    c.rsync_command = rsync_bin.to_string_lossy().into_owned();
    c.rsync_args = Some(vec![format!("--rv-root={}", dir.join("srv").display()), format!("--rv-log={}", dir.join("rsync.log").display())]);
    c.rsync_timeout = Some(Duration::from_secs(30));
    c.log_repository_issues = std::env::var_os("RV_LOG").is_some();
    let _ = std::fs::create_dir_all(dir.join("srv"));
    c
}

pub fn rsync_log(dir: &Path) -> Vec<String> {
    std::fs::read_to_string(dir.join("rsync.log")).map(|s| s.lines().map(|l| l.to_string()).collect()).unwrap_or_default()
}

/// Bytes of a self-signed CA certificate (pool key `key`) with the given SIA.
pub fn ta_cert_bytes(key: usize, ca_repository: &uri::Rsync, notify: Option<&uri::Https>) -> Bytes {
    let res = gen::Res { v4: vec![(std::net::Ipv4Addr::new(10, 0, 0, 0), 8)], v6: vec![], asn: vec![(64512, 65000)] };
    let now = rpki::repository::x509::Time::now();
    let mft = ca_repository.join(b"ta.mft").expect("manifest uri");
    gen::issue_ta(key, &res, gen::validity(now, -86400, 86400 * 30), ca_repository, &mft, notify, 1)
}

/// A validated `CaCert` (trust-anchor level) with the given caRepository and rpkiNotify.
pub fn ta_ca_cert(key: usize, ca_repository: &uri::Rsync, notify: Option<&uri::Https>) -> Arc<CaCert> {
    let bytes = ta_cert_bytes(key, ca_repository, notify);
    let cert = Cert::decode(bytes).expect("generated TA decodes");
    let cert = cert.validate_ta(TalInfo::from_name("rv".into()).into_arc(), false).expect("generated TA validates");
    let uri = TalUri::Rsync(ca_repository.join(b"ta.cer").expect("ta uri"));
    CaCert::root(cert, uri, 0).unwrap_or_else(|_| panic!("CaCert::root"))
}

/// A validated CA one level below `ta` (which must come from [`ta_ca_cert`] with pool key `ta_key`): the
/// certificate is issued, encoded, decoded and validated like one found in a repository, so its SIA URIs
/// are exactly what the engine would hand to the collector.
pub fn child_ca_cert(ta: &Arc<CaCert>, ta_key: usize, child_key: usize, ca_repository: &uri::Rsync, notify: Option<&uri::Https>) -> Arc<CaCert> {
    let ta_repo = ta.ca_repository().clone();
    let issuer = gen::Issuer { key: ta_key, cert_uri: ta_repo.join(b"ta.cer").expect("uri"), crl_uri: ta_repo.join(b"ta.crl").expect("uri") };
    let res = gen::Res { v4: vec![(std::net::Ipv4Addr::new(10, 1, 0, 0), 16)], v6: vec![], asn: vec![(64512, 64600)] };
    let now = rpki::repository::x509::Time::now();
    let mft = ca_repository.join(b"ca.mft").expect("manifest uri");
    let bytes = gen::issue_ca_cert(&issuer, child_key, &res, gen::validity(now, -3600, 86400 * 10), Some(ca_repository), Some(&mft), notify, 77, None);
    let cert = Cert::decode(bytes).expect("generated CA certificate decodes");
    let cert = cert.validate_ca(ta.cert(), false).expect("generated CA certificate validates under the TA");
    CaCert::chain(ta, ta_repo.join(b"child.cer").expect("uri"), cert, 32).unwrap_or_else(|_| panic!("CaCert::chain"))
}

/// Path of the local RRDP archive file for `notify` (routinator's own path function).
pub fn archive_path(config: &Config, notify: &uri::Https) -> PathBuf {
    let mut c = config.clone();
    c.disable_rrdp = false;
    routinator::collector::verif::rrdp_repository_path(&c, notify).expect("rrdp repository path")
}

/// All objects in the local RRDP archive for `notify` (None = no archive file).
pub fn archive_objects(config: &Config, notify: &uri::Https) -> Result<Option<BTreeMap<String, Bytes>>, String> {
    let path = archive_path(config, notify);
    if !path.exists() {
        return Ok(None);
    }
    let archive = routinator::collector::RrdpArchive::open(Arc::new(path.clone())).map_err(|_| format!("archive {} does not open", path.display()))?;
    let mut res = BTreeMap::new();
    for item in archive.objects().map_err(|_| "archive objects() failed".to_string())? {
        let (uri, data) = item.map_err(|_| "archive object unreadable".to_string())?;
        if res.insert(uri.to_string(), data).is_some() {
            return Err(format!("archive lists {} twice", uri));
        }
    }
    Ok(Some(res))
}

/// (session, serial) recorded in the local RRDP archive for `notify`.
pub fn archive_state(config: &Config, notify: &uri::Https) -> Result<Option<routinator::collector::verif::RepositoryState>, String> {
    let path = archive_path(config, notify);
    if !path.exists() {
        return Ok(None);
    }
    let archive = routinator::collector::RrdpArchive::open(Arc::new(path.clone())).map_err(|_| format!("archive {} does not open", path.display()))?;
    archive.load_state().map(Some).map_err(|_| "archive state unreadable".to_string())
}
