//! C33, engine leg: the *initial* (store-only) run of a server.
//!
//! `Engine::start(.., initial = true)` validates from the store without fetching and must report a
//! (retryable) failure when something it needs is not there — e.g. a TAL without a usable trust
//! anchor certificate in the store — so that a full run follows. Such a failed run must not change
//! what is served (the property); a run the engine aborts for a TAL must not come back as a
//! success and publish the partial result.
//!
//! Generated E-rpki histories (C10's generator: trust-anchor serving states, unreachable modules,
//! offline runs, re-keyed TALs) leave caches in which some TALs have no usable stored trust
//! anchor. After every step the cache is copied twice: a normal offline run over copy A shows what
//! the store holds (payload, and per TAL whether any publication point was reached at all); over
//! copy B `Server::process_once(.., initial = true)` runs against a history that already serves a
//! baseline data set.

use proptest::prelude::*;
use routinator::engine::Engine;
use routinator::payload::SharedHistory;
use rpki::rtr::server::NotifySender;

use crate::core::*;
use crate::erpki::*;
use crate::erun::*;
use crate::escen::*;
use crate::hist::{exceptions_for, served_set, serial_of};
use crate::pay::*;

fn baseline() -> MSet {
    MSet::from_items([MItem::Origin(MOrigin::new(std::net::IpAddr::V4(std::net::Ipv4Addr::new(198, 51, 100, 0)), 24, None, 64999))])
}

fn prop(sc: &Scenario, info: &mut CaseInfo) -> Verdict {
    let j = Judge { id: "C33", ..Default::default() };
    let mut any_without_ta = false;
    let mut any_ok = false;
    let mut classes: Vec<&'static str> = Vec::new();
    let v = judge(&j, sc, info, |world, obs| {
        let tmp = tempfile::Builder::new().prefix("c33i-").tempdir_in(scratch_base()).expect("tmp");
        let (a, b) = (tmp.path().join("a"), tmp.path().join("b"));
        if crate::crash::copy_tree(&world.cache(), &a).is_err() || crate::crash::copy_tree(&world.cache(), &b).is_err() {
            return Some(Verdict::Dropped("copy_failed".into()));
        }
        let mut cfg_a = world.config();
        cfg_a.cache_dir = a;
        let off = match run_config(&cfg_a, true, &empty_exceptions()) {
            Ok(o) => o,
            Err(_) => return Some(Verdict::Dropped("offline_run_failed".into())),
        };
        let without_ta: Vec<String> = off.metrics.tals.iter().filter(|t| t.publication.valid_points + t.publication.rejected_points == 0).map(|t| t.tal.name().to_string()).collect();
        let mut cfg_b = world.config();
        cfg_b.cache_dir = b;
        let history = SharedHistory::from_config(&cfg_b);
        let base = baseline();
        history.update(routinator::payload::ValidationReport::new(&cfg_b), &exceptions_for(&base), routinator::metrics::Metrics::new());
        history.mark_update_done();
        let serial0 = serial_of(&history);
        let mut engine = match Engine::new(&cfg_b, false) {
            Ok(e) => e,
            Err(_) => return Some(Verdict::Dropped("engine_new_failed".into())),
        };
        if engine.ignite().is_err() {
            return Some(Verdict::Dropped("ignite_failed".into()));
        }
        let mut notify = NotifySender::new();
        let res = routinator::operation::Server::verif_process_once(&cfg_b, &engine, &history, &mut notify, &empty_exceptions(), true);
        let served = match served_set(&history) {
            Some(Ok(s)) => s,
            _ => return Some(Verdict::fail("C33/initial/served-set-unreadable", format!("step {}", obs.n))),
        };
        match res {
            Err(e) => {
                classes.push(if e.is_fatal() { "initial=failed-fatal" } else { "initial=failed-retry" });
                if served != base || serial_of(&history) != serial0 {
                    return Some(Verdict::fail("C33/initial/failed-run-changed-served-data", format!("step {}: the initial run failed (fatal={}), yet the served data changed from the baseline (serial {} -> {})", obs.n, e.is_fatal(), serial0, serial_of(&history))));
                }
            }
            Ok(()) => {
                any_ok = true;
                classes.push("initial=ok");
                if !without_ta.is_empty() {
                    return Some(Verdict::fail(
                        "C33/initial/aborted-run-published",
                        format!("step {}: TAL(s) {:?} have no usable trust anchor certificate in the store (a normal offline run over the same cache reaches no publication point for them), the engine gives up on the initial run for such a TAL, yet the run was reported as successful and its partial result ({} items) replaced the served data", obs.n, without_ta, served.len()),
                    ));
                }
                if served != off.payload {
                    return Some(Verdict::fail("C33/initial/successful-initial-run-differs-from-store", format!("step {}: initial run served {} items, a normal offline run over the same cache {} items", obs.n, served.len(), off.payload.len())));
                }
            }
        }
        if !without_ta.is_empty() {
            any_without_ta = true;
            classes.push("store_lacks_a_trust_anchor");
        }
        None
    });
    for c in classes {
        info.class(c);
    }
    info.nontrivial = any_without_ta;
    if any_ok {
        info.class("some_initial_run_ok");
    }
    v
}

pub fn run(ctx: &Ctx, rep: &mut Report, replay: Option<&serde_json::Value>) {
    rep.rule("(initial) E-rpki histories of 2-4 runs from C10's generator (1-2 TALs, trust-anchor certificate per URI and run good / other key / undecodable / expired / missing, unreachable modules, offline runs, re-keyed TALs); after every run the cache is copied twice: copy A gets a normal offline run (what the store holds; a TAL for which no publication point is reached has no usable stored trust anchor), copy B gets Server::process_once(initial = true) against a history already serving a baseline set; oracle: a failed initial run leaves served data and serial untouched; an initial run must not succeed when a TAL lacks a stored trust anchor; a successful one serves exactly what the offline run yields; non-trivial = some step leaves a TAL without usable stored trust anchor");
    if let Some(v) = replay {
        let t: Tagged<Scenario> = serde_json::from_value(v.clone()).expect("replay");
        run_case(ctx, rep, &t.sub, &t.case, prop);
        return;
    }
    ctx.shrink_iters.store(120, std::sync::atomic::Ordering::Relaxed);
    run_prop_par(ctx, rep, "initial", ctx.tier.pick(96, 1500), 8, || genome(260).prop_map(|w| crate::c10::scenario(&w)), prop);
}
