//! C03 A publication point contributes one consistent object set.

use proptest::strategy::Strategy;

use crate::core::*;
use crate::erpki::*;
use crate::erun::*;
use crate::escen::*;

pub fn profile() -> HistProfile {
    let mut hp = HistProfile::default();
    hp.base.fault_16 = 1;
    hp.base.max_objs = 7;
    hp.base.max_cas = 4;
    hp.incomplete_16 = 7;
    hp.rollback_16 = 1;
    hp.fail_module_16 = 1;
    hp
}

/// Does the scenario contain an abandoned update (valid newer manifest, incomplete files) over a stored version?
fn has_abandoned_update(sc: &Scenario) -> bool {
    sc.cas.iter().any(|ca| ca.versions.iter().skip(1).any(|v| matches!(v.fault, Some(PpFault::FileMissing(_)) | Some(PpFault::HashMismatch(_))) && v.objs.len() >= 2))
}

fn prop(sc: &Scenario, info: &mut CaseInfo) -> Verdict {
    let j = Judge { id: "C03", sound: true, complete: true, ..Default::default() };
    // the engine shuffles manifest entries: repeat the whole history to cover different orders
    let repeats = 3;
    let mut verdict = Verdict::Pass;
    for _ in 0..repeats {
        let mut i2 = CaseInfo::default();
        verdict = judge(&j, sc, &mut i2, |_, _| None);
        if !matches!(verdict, Verdict::Pass) {
            break;
        }
    }
    info.nt(has_abandoned_update(sc));
    for c in history_classes(sc) {
        info.class(c);
    }
    if has_abandoned_update(sc) {
        info.class("abandoned_update");
    }
    verdict
}

pub fn run(ctx: &Ctx, rep: &mut Report, replay: Option<&serde_json::Value>) {
    rep.rule("E-rpki histories of 2-4 runs over a persistent cache; CAs have 3 versions with disjoint slots; later versions are frequently valid-but-incompletely-retrievable (one listed file missing or hash-mismatching at a generated position among up to 7 objects); each history is executed 3 times because the engine shuffles manifest entries; oracle: after every run the served items of each CA are exactly those of the single version the model selects (fetched-and-complete or stored), in particular no item of an abandoned fetched version; non-trivial = history contains an abandoned update with >=2 listed objects after a stored version; distinct by serialised scenario");
    rep.assume("reference model Appendix A; repetition covers the engine's random processing order only probabilistically (3 orders per case)");
    ctx.shrink_iters.store(120, std::sync::atomic::Ordering::Relaxed);
    if let Some(v) = replay {
        let t: Tagged<Scenario> = serde_json::from_value(v.clone()).expect("replay");
        run_case(ctx, rep, &t.sub, &t.case, prop);
        return;
    }
    let hp = profile();
    run_prop_par(ctx, rep, "history", ctx.tier.pick(160, 4000), 8, || genome(260).prop_map({
        let hp = hp.clone();
        move |w| history_run(&w, &hp)
    }), prop);
}
