//! C17 Notify long-poll never waits for a change that already happened.
//!
//! Thread A issues `GET|HEAD /json-delta/notify[?session&serial]` through the real dispatcher and
//! polls the handler future by hand like an executor would (first poll, afterwards only when the
//! future's waker was invoked). Thread B performs 1–3 `Server::process_once` calls (changing or
//! repeating the data set), each of which notifies when the data changed. The schedule decides where
//! A's steps (version check = `history.read` inside `need_wait`, `notify.after_need_wait` = the point
//! just before `notify.subscribe()`, the read for the response body) fall relative to B's steps
//! (`mark_update_start`, install, `mark_update_done`, `process_once.before_notify` = the point just
//! before `notify()`).
//!
//! Oracle (property statement; manual, api-endpoints: "the request will not return until a new data
//! set is available"): at quiescence (B finished, A polled as often as it was woken) the request
//! must have completed if the served (session, serial) differed from the presented one at any
//! moment after A's arrival (= the handler's look at the served version), i.e. if it differed then
//! or a change was installed afterwards.
//! No timeout is involved: "still pending and not woken" is an observed fact.

use std::sync::atomic::{AtomicBool, Ordering};
use std::sync::{Arc, Mutex};

use proptest::prelude::*;
use serde::{Deserialize, Serialize};

use crate::core::*;
use crate::hsched::*;
use crate::pay::*;
use crate::sched::{self, BytesChooser, Chooser, Dfs, Event, Job, Opts};

pub const KNOWN_LOST: &str = "C17/lost-wakeup/change-between-check-and-subscribe";

/// Which version the client presents.
#[derive(Serialize, Deserialize, Clone, Debug, PartialEq, Eq, Hash)]
pub enum Presented {
    /// the version served when the concurrent phase starts
    Current,
    /// `k` serials behind that version (wrapping)
    Behind(u32),
    /// `k` serials ahead of that version
    Ahead(u32),
    /// that serial under a different session id
    OtherSession,
    /// no query string
    NoQuery,
}

#[derive(Serialize, Deserialize, Clone, Debug)]
pub struct Case {
    /// history size
    pub keep: usize,
    /// data set ids installed (sequentially) before the request arrives
    pub pre: Vec<u8>,
    /// data set ids of B's `process_once` calls
    pub steps: Vec<u8>,
    pub presented: Presented,
    pub head: bool,
    /// schedule (`sched::BytesChooser`); thread 0 = A (request), thread 1 = B (server loop)
    pub choices: Vec<u8>,
}

struct AOut {
    ready: bool,
    ready_after_forced_repoll: bool,
    status: Option<u16>,
    body: Vec<u8>,
    polls: usize,
    wakes: usize,
}

struct World<'a> {
    fx: &'a Fixture,
    configs: std::collections::BTreeMap<usize, Arc<routinator::config::Config>>,
}

impl World<'_> {
    fn config(&self, keep: usize) -> Arc<routinator::config::Config> {
        self.configs.get(&keep).cloned().unwrap_or_else(|| Arc::new(self.fx.config(keep)))
    }
}

/// Facts about one execution, derived from the trace and the model only.
struct Facts {
    /// presented version != version served on arrival
    differs_on_arrival: bool,
    /// changes installed after A's arrival
    changes_after_arrival: usize,
    /// a change was installed after A's version check and its notification was sent before A subscribed
    change_and_notify_in_window: bool,
    /// a change was installed after A's version check and before A subscribed
    change_in_window: bool,
    /// a notification for a change installed after the check was sent after A subscribed
    notify_after_subscribe: bool,
    /// A took the waiting branch (check saw the presented version)
    waited: bool,
}

fn execute(world: &World<'_>, case: &Case, chooser: &mut dyn Chooser, info: &mut CaseInfo) -> Verdict {
    if case.steps.is_empty() || case.steps.len() > 4 || case.pre.len() > 4 {
        return Verdict::Dropped("case_out_of_domain".into());
    }
    let inst = Inst::new(world.config(case.keep), world.fx.engine.clone());
    let all: Vec<MSet> = case.pre.iter().chain(case.steps.iter()).map(|i| set_of(*i)).collect();
    let model = Model::new(&all);
    {
        let mut n = inst.notify.clone();
        for (i, id) in case.pre.iter().enumerate() {
            if !inst.process_once(&mut n, &set_of(*id), i == 0) {
                return Verdict::Dropped("pre_run_failed".into());
            }
        }
    }
    let session = inst.session();
    let start_serial = if case.pre.is_empty() { 0 } else { model.serial(case.pre.len()) };
    let presented: Option<(u64, u32)> = match case.presented {
        Presented::Current => Some((session, start_serial)),
        Presented::Behind(k) => Some((session, start_serial.wrapping_sub(k))),
        Presented::Ahead(k) => Some((session, start_serial.wrapping_add(k))),
        Presented::OtherSession => Some((session ^ 1, start_serial)),
        Presented::NoQuery => None,
    };
    let uri = match presented {
        Some((s, n)) => format!("/json-delta/notify?session={}&serial={}", s, n),
        None => "/json-delta/notify".to_string(),
    };
    let b_done = Arc::new(AtomicBool::new(false));
    let wake_state = Arc::new(WakeState::default());
    let out: Arc<Mutex<Option<AOut>>> = Default::default();

    let a_job: Job = {
        let (inst, b_done, out, head, wake_state) = (inst.clone(), b_done.clone(), out.clone(), case.head, wake_state.clone());
        Box::new(move || {
            let handler = inst.handler.clone();
            let headers: Vec<(String, String)> = Vec::new();
            sched::note("A arrive");
            let mut task = Task::with_state(handler.request(if head { "HEAD" } else { "GET" }, &uri, &headers), wake_state);
            let mut done = task.poll();
            sched::note(format!("A polled ready={}", done));
            while !done {
                if task.woken() {
                    sched::note("A woken");
                    done = task.poll();
                    sched::note(format!("A polled ready={}", done));
                } else if b_done.load(Ordering::SeqCst) {
                    break;
                } else {
                    sched::yield_now(IDLE);
                }
            }
            let ready = done;
            // Classification only: would a poll without a wake-up have completed the request?
            let forced = if !done { task.poll() } else { true };
            let (polls, wakes) = (task.polls, task.wakes());
            let (status, body) = match task.result.take() {
                Some(r) => (Some(r.status), r.body()),
                None => (None, Vec::new()),
            };
            *out.lock().unwrap() = Some(AOut { ready, ready_after_forced_repoll: forced, status, body, polls, wakes });
        })
    };
    let b_job: Job = {
        let inner = updater_job(&inst, case.steps.iter().map(|i| set_of(*i)).collect(), case.pre.len());
        let b_done = b_done.clone();
        Box::new(move || {
            inner();
            b_done.store(true, Ordering::SeqCst);
        })
    };
    let mut filter = IdleFilter { inner: chooser, idle_tid: 0, state: wake_state.clone(), release: b_done.clone() };
    let mut watch = Watch::new(&inst.history);
    let run = sched::run_opts(vec![a_job, b_job], &mut filter, &mut |t| {
        watch.on_step(t);
        Ok(())
    }, &Opts { stutter_labels: Some(STUTTER_LABELS), ..Default::default() });
    if let Some((tid, msg)) = run.panics.first() {
        return Verdict::fail("C17/thread-panic", format!("thread {} panicked: {}", tid, msg));
    }
    if run.deadlock {
        return Verdict::fail("C17/deadlock", format!("all threads blocked; trace {}", render_trace(&run.trace)));
    }
    if run.diverged {
        return Verdict::Dropped("schedule_step_bound".into());
    }
    let Some(a) = out.lock().unwrap().take() else { return Verdict::Dropped("no_result_from_A".into()) };
    let trace = &run.trace;
    let mut ups = updater_positions(trace, 1);
    if ups.len() != case.steps.len() || !watch.apply(&mut ups) || ups.iter().any(|u| !u.ok || u.install.is_none() || u.mark_done.is_none() || u.notify.is_none()) {
        return Verdict::Dropped("updater_trace_incomplete".into());
    }

    // ---- facts from trace + model ----
    let arrive = trace.iter().position(|e| matches!(e, Event::Note { tid: 0, text } if text == "A arrive")).unwrap_or(0);
    let first_polled = trace.iter().position(|e| matches!(e, Event::Note { tid: 0, text } if text.starts_with("A polled"))).unwrap_or(trace.len());
    let check = steps_between(trace, 0, "history.read", arrive, first_polled).first().copied();
    let subscribe = steps_between(trace, 0, "notify.after_need_wait", arrive, first_polled).first().copied();
    let npre = case.pre.len();
    // (install index, notify index) of B's calls that change the version
    let changes: Vec<(usize, usize)> = ups.iter().enumerate().filter(|(i, _)| npre + i > 0 && model.changed(npre + i)).map(|(_, u)| (u.install.unwrap(), u.notify.unwrap())).collect();
    let installs: Vec<usize> = ups.iter().map(|u| u.install.unwrap()).collect();
    // The request "arrives" when the handler looks at the served version (its version check):
    // everything before that is indistinguishable from a later arrival.
    let arrival = check.unwrap_or(arrive);
    let n_arr = npre + count_before(&installs, arrival);
    let serial_arr = if n_arr == 0 { 0 } else { model.serial(n_arr) };
    let differs_on_arrival = presented.map(|p| p != (session, serial_arr)).unwrap_or(true);
    let changes_after_arrival = changes.iter().filter(|(i, _)| *i > arrival).count();
    // The branch A took: its check saw the version after the installs before `check`.
    let waited = match (presented, check) {
        (Some(p), Some(c)) => {
            let n = npre + count_before(&installs, c);
            p == (session, if n == 0 { 0 } else { model.serial(n) })
        }
        _ => false,
    };
    let (mut change_in_window, mut change_and_notify_in_window, mut notify_after_subscribe) = (false, false, false);
    if let (Some(c), Some(s)) = (check, subscribe) {
        for (i, n) in &changes {
            if *i > c && *i < s {
                change_in_window = true;
            }
            if *i > c && *n < s {
                change_and_notify_in_window = true;
            }
            if *i > c && *n > s {
                notify_after_subscribe = true;
            }
        }
    }
    // The very first install (serial stays 0) also notifies; it is not a version change.
    let f = Facts { differs_on_arrival, changes_after_arrival, change_and_notify_in_window, change_in_window, notify_after_subscribe, waited };

    // ---- coverage bookkeeping ----
    info.nt(f.change_in_window);
    info.class(format!("presented={}", match case.presented {
        Presented::Current => "current",
        Presented::Behind(_) => "behind",
        Presented::Ahead(_) => "ahead",
        Presented::OtherSession => "other-session",
        Presented::NoQuery => "none",
    }));
    info.class(format!("B-calls={} changes={}", case.steps.len(), changes.len()));
    info.class(if a.ready { "A=ready" } else { "A=pending" });
    if f.waited {
        info.class("A-took-waiting-branch");
    }
    if f.change_in_window {
        info.class("nt:change-between-check-and-subscribe");
    }
    if f.change_and_notify_in_window {
        info.class("change+notify-between-check-and-subscribe");
    }
    if f.waited && f.notify_after_subscribe {
        info.class("woken-by-notify-after-subscribe");
    }
    if case.pre.is_empty() {
        info.class("arrives-before-first-validation");
    }

    // ---- known shape: excluded from the bulk search only while listed ----
    let known_shape = f.waited && f.change_and_notify_in_window && !f.notify_after_subscribe;
    if known_shape && is_listed_known("C17", KNOWN_LOST) && !DIRECTED.with(|d| d.get()) {
        info.class("excluded:known-lost-wakeup-shape");
        EXCLUDED.with(|e| e.set(e.get() + 1));
        return Verdict::Pass;
    }

    // ---- oracle ----
    let must_be_ready = f.differs_on_arrival || f.changes_after_arrival > 0;
    if must_be_ready && !a.ready {
        let key = if presented.is_none() {
            "C17/pending-without-version".to_string()
        } else if !f.waited {
            "C17/pending-although-version-differed-at-check".to_string()
        } else if known_shape {
            KNOWN_LOST.to_string()
        } else if f.notify_after_subscribe {
            "C17/pending-although-notified-after-subscribe".to_string()
        } else if a.ready_after_forced_repoll {
            "C17/not-woken-but-ready-on-forced-repoll".to_string()
        } else {
            "C17/pending-without-notification-for-change".to_string()
        };
        let final_serial = model.serial(all.len());
        return Verdict::fail(
            key,
            format!(
                "request {} {} still pending at quiescence (B finished, A polled {} times, woken {} times, forced re-poll ready={}): presented {:?}, served on arrival ({}, {}), {} change(s) installed after arrival, finally served serial {}; trace: {}",
                if case.head { "HEAD" } else { "GET" },
                match presented {
                    Some((s, n)) => format!("/json-delta/notify?session={}&serial={}", s, n),
                    None => "/json-delta/notify".into(),
                },
                a.polls,
                a.wakes,
                a.ready_after_forced_repoll,
                presented,
                session,
                serial_arr,
                f.changes_after_arrival,
                final_serial,
                render_trace(trace)
            ),
        );
    }
    if a.ready {
        // A completed response must be 200 and (GET) name a version that was served after arrival.
        if a.status != Some(200) {
            return Verdict::fail("C17/notify-status", format!("notify request answered with status {:?}", a.status));
        }
        if !case.head {
            let v: Result<serde_json::Value, _> = serde_json::from_slice(&a.body);
            let (bs, bn) = match v.as_ref().ok().map(|v| (v.get("session").and_then(|x| x.as_u64()), v.get("serial").and_then(|x| x.as_u64()))) {
                Some((Some(s), Some(n))) => (s, n as u32),
                _ => return Verdict::fail("C17/notify-body-malformed", format!("body {:?}", String::from_utf8_lossy(&a.body))),
            };
            let final_serial = model.serial(all.len());
            if bs != session || bn < serial_arr || bn > final_serial {
                return Verdict::fail("C17/notify-body-version", format!("response names ({}, {}), served versions after arrival were ({}, {}..={})", bs, bn, session, serial_arr, final_serial));
            }
            // A request that waited must report a version different from the presented one
            // unless it was released by the notification of the very first validation.
            if f.waited && Some((bs, bn)) == presented && !(case.pre.is_empty()) {
                info.class("released-with-presented-version");
            }
        }
        if !must_be_ready {
            info.class("returned-although-version-current");
        }
    }
    Verdict::Pass
}

thread_local! {
    static DIRECTED: std::cell::Cell<bool> = const { std::cell::Cell::new(false) };
    static EXCLUDED: std::cell::Cell<u64> = const { std::cell::Cell::new(0) };
}

fn flush_excluded(rep: &mut Report) {
    let n = EXCLUDED.with(|e| e.replace(0));
    if n > 0 {
        *rep.excluded_known.entry(KNOWN_LOST.to_string()).or_default() += n;
    }
}

/// Programs whose schedule trees are enumerated completely.
fn dfs_programs(tier: Tier) -> Vec<Case> {
    let c = |pre: &[u8], steps: &[u8], presented: Presented, head: bool| Case { keep: 10, pre: pre.to_vec(), steps: steps.to_vec(), presented, head, choices: vec![] };
    let mut v = vec![
        // one change while the client holds the current version
        c(&[1], &[2], Presented::Current, false),
        // unchanged run, then a change
        c(&[1], &[1, 2], Presented::Current, false),
        // client one behind / ahead / other session / no query
        c(&[1, 2], &[3], Presented::Behind(1), false),
        c(&[1], &[2], Presented::Ahead(1), false),
        c(&[1], &[2], Presented::OtherSession, false),
        c(&[1], &[2], Presented::NoQuery, false),
        // request arrives before the first validation finished
        c(&[], &[1, 2], Presented::Current, false),
        // HEAD
        c(&[1], &[2], Presented::Current, true),
        // only unchanged runs: nothing to wait for ever happens
        c(&[1], &[1], Presented::Current, false),
    ];
    if tier == Tier::Thorough {
        v.push(c(&[1], &[2, 3], Presented::Current, false));
        v.push(c(&[1], &[2, 2, 3], Presented::Current, false));
        v.push(c(&[1, 2], &[2, 1, 1], Presented::Current, true));
        v.push(c(&[], &[1, 1, 2], Presented::Current, false));
    }
    v
}

fn run_dfs(ctx: &Ctx, rep: &mut Report, world: &World<'_>) {
    let bound = usize::MAX;
    let cap = ctx.tier.pick(6_000usize, 200_000);
    let mut per_program = Vec::new();
    let mut all_exhausted = true;
    let mut total = 0usize;
    for prog in dfs_programs(ctx.tier) {
        let mut dfs = Dfs::new();
        let mut n = 0usize;
        let mut exhausted = false;
        loop {
            let mut info = CaseInfo::default();
            let mut bounded = Bounded::new(&mut dfs, bound);
            let verdict = execute(world, &prog, &mut bounded, &mut info);
            n += 1;
            let case = Case { choices: bounded.taken.clone(), ..prog.clone() };
            rep.record(ctx, &Tagged { sub: "sched".to_string(), case }, &info, &verdict);
            if rep.violated() {
                flush_excluded(rep);
                return;
            }
            if !dfs.advance() {
                exhausted = true;
                break;
            }
            if n >= cap {
                break;
            }
        }
        total += n;
        all_exhausted &= exhausted;
        per_program.push(serde_json::json!({"pre": prog.pre, "steps": prog.steps, "presented": prog.presented, "head": prog.head, "schedules": n, "exhausted": exhausted}));
    }
    flush_excluded(rep);
    rep.extra.insert("dfs_schedules".into(), serde_json::json!(total));
    rep.extra.insert("dfs_programs".into(), serde_json::json!(per_program));
    rep.exhaustive = Some(all_exhausted);
}

fn prop_sched(world: &World<'_>, case: &Case, info: &mut CaseInfo) -> Verdict {
    let mut ch = BytesChooser::new(&case.choices);
    execute(world, case, &mut ch, info)
}

fn case_strategy() -> impl Strategy<Value = Case> {
    (
        prop::sample::select(vec![1usize, 2, 10]),
        prop::collection::vec(0u8..4, 0..=3),
        prop::collection::vec(0u8..4, 1..=3),
        prop_oneof![
            6 => Just(Presented::Current),
            1 => (1u32..3).prop_map(Presented::Behind),
            1 => (1u32..3).prop_map(Presented::Ahead),
            1 => Just(Presented::OtherSession),
            1 => Just(Presented::NoQuery),
        ],
        prop::bool::weighted(0.2),
        prop::collection::vec(0u8..2, 0..40),
    )
        .prop_map(|(keep, pre, steps, presented, head, choices)| Case { keep, pre, steps, presented, head, choices })
}

/// The directed representative of the known lost-wakeup shape: A checks the version and stops just
/// before `subscribe`; B installs a change and notifies; A subscribes and waits for ever.

//------------------------------------------------------------------------------------------
// Contended version check (real threads, no scheduler)

/// The request arrives while the history lock is contended: the harness holds a read guard and a
/// writer that installs nothing (`mark_update_start` / `mark_update_done`) is queued behind it.
/// Under the controlled scheduler a lock is never observed as held (no yield points inside
/// critical sections), so this shape needs real blocking threads.
#[derive(Serialize, Deserialize, Clone, Debug)]
pub struct ContCase {
    pub keep: usize,
    pub pre: Vec<u8>,
    pub presented: Presented,
    pub head: bool,
    /// 0 = read guard held + `mark_update_start` queued, 1 = read guard held only,
    /// 2 = read guard held + `mark_update_start; mark_update_done` queued
    pub holder: u8,
    /// how long the guard is held after the request thread was started (milliseconds)
    pub hold_ms: u8,
}

enum PMsg {
    /// everything else is quiet: poll as often as woken, then report
    Quiesce,
    Finish,
}

fn contended(world: &World<'_>, case: &ContCase, info: &mut CaseInfo) -> Verdict {
    use std::sync::mpsc::channel;
    use std::time::{Duration, Instant};
    if case.pre.is_empty() || case.pre.len() > 4 {
        return Verdict::Dropped("case_out_of_domain".into());
    }
    let inst = Inst::new(world.config(case.keep), world.fx.engine.clone());
    let all: Vec<MSet> = case.pre.iter().map(|i| set_of(*i)).collect();
    let model = Model::new(&all);
    {
        let mut n = inst.notify.clone();
        for (i, id) in case.pre.iter().enumerate() {
            if !inst.process_once(&mut n, &set_of(*id), i == 0) {
                return Verdict::Dropped("pre_run_failed".into());
            }
        }
    }
    let session = inst.session();
    let serial = model.serial(case.pre.len());
    let presented: Option<(u64, u32)> = match case.presented {
        Presented::Current => Some((session, serial)),
        Presented::Behind(k) => Some((session, serial.wrapping_sub(k))),
        Presented::Ahead(k) => Some((session, serial.wrapping_add(k))),
        Presented::OtherSession => Some((session ^ 1, serial)),
        Presented::NoQuery => None,
    };
    let differs = presented != Some((session, serial));
    let uri = match presented {
        Some((s, n)) => format!("/json-delta/notify?session={}&serial={}", s, n),
        None => "/json-delta/notify".to_string(),
    };
    info.class(format!("contended/holder={}", case.holder));
    info.class(format!("contended/presented={}", match case.presented {
        Presented::Current => "current",
        Presented::Behind(_) => "behind",
        Presented::Ahead(_) => "ahead",
        Presented::OtherSession => "other-session",
        Presented::NoQuery => "none",
    }));

    let guard = inst.history.read();
    let writer = if case.holder != 1 {
        let (h, both) = (inst.history.clone(), case.holder == 2);
        Some(std::thread::spawn(move || {
            h.mark_update_start();
            if both {
                h.mark_update_done();
            }
        }))
    } else {
        None
    };
    // let the writer queue up behind the guard (strength of the case only, not soundness)
    std::thread::sleep(Duration::from_millis(10));
    let (to_p, p_rx) = channel::<PMsg>();
    let (p_tx, from_p) = channel::<(bool, usize, usize, Option<u16>, Vec<u8>, Instant)>();
    let poller = {
        let (inst, uri, head) = (inst.clone(), uri.clone(), case.head);
        std::thread::spawn(move || {
            let handler = inst.handler.clone();
            let headers: Vec<(String, String)> = Vec::new();
            let mut task = Task::new(handler.request(if head { "HEAD" } else { "GET" }, &uri, &headers));
            let started = Instant::now();
            let mut done = task.poll();
            while let Ok(msg) = p_rx.recv() {
                match msg {
                    PMsg::Quiesce => {
                        // the wake-ups of everything that happened so far have been delivered
                        while !done && task.woken() {
                            done = task.poll();
                        }
                        let (status, body) = match task.result.as_ref() {
                            Some(r) => (Some(r.status), r.body()),
                            None => (None, Vec::new()),
                        };
                        let _ = p_tx.send((done, task.polls, task.wakes(), status, body, started));
                    }
                    PMsg::Finish => break,
                }
            }
        })
    };
    std::thread::sleep(Duration::from_millis(case.hold_ms as u64));
    let dropped_at = Instant::now();
    drop(guard);
    if let Some(w) = writer {
        if w.join().is_err() {
            return Verdict::fail("C17/thread-panic", "writer thread panicked".to_string());
        }
    }
    // The writer is through; give the request thread's first poll (blocked on the lock at most)
    // time to return before asking. Asking early is harmless: Quiesce is only handled after the
    // first poll returned.
    let _ = to_p.send(PMsg::Quiesce);
    let Ok((ready, polls, wakes, status, body, started)) = from_p.recv() else {
        return Verdict::fail("C17/thread-panic", "request thread ended without a report".to_string());
    };
    info.nt(started < dropped_at && case.holder != 1);
    let finish = |v: Verdict| {
        let _ = to_p.send(PMsg::Finish);
        v
    };
    if differs {
        if !ready {
            let _ = to_p.send(PMsg::Finish);
            let _ = poller.join();
            return Verdict::fail(
                "C17/lost-wakeup/contended-version-check",
                format!("request {} arrived while the history lock was contended (holder kind {}); served version ({}, {}) differs from the presented one, nothing else happens any more, and the request is still pending after {} polls / {} wake-ups", uri, case.holder, session, serial, polls, wakes),
            );
        }
        if status != Some(200) {
            return finish(Verdict::fail("C17/unexpected-status", format!("{}: status {:?}", uri, status)));
        }
        if !case.head {
            let want = format!("{{\"session\":{},\"serial\":{}}}", session, serial);
            let got: String = String::from_utf8_lossy(&body).chars().filter(|c| !c.is_whitespace()).collect();
            if got != want {
                return finish(Verdict::fail("C17/answer-names-other-version", format!("{}: body {:?}, served {}", uri, got, want)));
            }
        }
        info.class("contended/answered-at-once");
    } else {
        if ready {
            return finish(Verdict::fail("C17/answered-without-change", format!("{}: answered with {:?} although the presented version is the served one and nothing changed", uri, status)));
        }
        // now a real change: the request must complete
        let mut n = inst.notify.clone();
        let next = set_of(case.pre.last().copied().unwrap_or(0) ^ 0x0F);
        if !inst.process_once(&mut n, &next, false) {
            return finish(Verdict::Dropped("post_run_failed".into()));
        }
        let _ = to_p.send(PMsg::Quiesce);
        let Ok((ready, polls, wakes, _, _, _)) = from_p.recv() else {
            return Verdict::fail("C17/thread-panic", "request thread ended without a report".to_string());
        };
        if !ready && next != set_of(*case.pre.last().unwrap()) {
            let _ = to_p.send(PMsg::Finish);
            let _ = poller.join();
            return Verdict::fail("C17/lost-wakeup/contended-version-check", format!("{}: a change was installed and notified after the request had arrived under lock contention, still pending after {} polls / {} wake-ups", uri, polls, wakes));
        }
        info.class("contended/answered-after-change");
    }
    let _ = to_p.send(PMsg::Finish);
    let _ = poller.join();
    Verdict::Pass
}

fn contended_cases() -> Vec<ContCase> {
    let mut v = Vec::new();
    for holder in [0u8, 2, 1] {
        for head in [false, true] {
            for presented in [Presented::Behind(1), Presented::OtherSession, Presented::Ahead(1), Presented::NoQuery, Presented::Current, Presented::Behind(2)] {
                v.push(ContCase { keep: 10, pre: vec![1, 3], presented, head, holder, hold_ms: 20 });
            }
        }
    }
    v
}

fn directed_known() -> Case {
    let mut choices = vec![0u8, 0];
    choices.extend(std::iter::repeat(1u8).take(40));
    Case { keep: 10, pre: vec![1], steps: vec![2], presented: Presented::Current, head: false, choices }
}

pub fn run(ctx: &Ctx, rep: &mut Report, replay: Option<&serde_json::Value>) {
    rep.rule("thread A polls GET/HEAD /json-delta/notify[?session&serial] through the real dispatcher by hand (first poll, then only after its waker fired); thread B performs 1-3 Server::process_once calls over an engine without TALs (data sets carried by local exceptions, changing or repeating), 0-3 calls were made sequentially before; presented version: current / 1-2 behind / 1-2 ahead / other session / none; the schedule interleaves A's steps (version check, notify.after_need_wait = just before subscribe, body read) with B's (mark_update_start, update read, install, mark_update_done, process_once.before_notify = just before notify): (dfs) every schedule of 9 programs (13 thorough) enumerated, (sched) generated programs with generated choice strings; oracle at quiescence (B done, A re-polled once per wake-up): the request completed if the presented version differed from the served one on arrival or a change was installed after arrival; a completed GET names (session, serial) served after arrival; non-trivial = a version change is installed between A's version check and A's subscribe; distinct by program+schedule; (contended) 36 enumerated cases on real blocking threads: the request arrives while the harness holds a history read guard and a writer that changes nothing (mark_update_start / + mark_update_done) is queued behind it, presented version behind / ahead / other session / none / current, GET and HEAD: a differing version must be answered once the lock is released although nothing else ever happens, the current one must stay pending and complete after a later change");
    rep.assume("one controlled thread runs at a time (sequentially consistent interleavings at the granularity of the yield points); the executor model is: a pending task is polled again only after its waker was invoked");
    rep.assume("the engine has no TALs, so a validation run takes about a millisecond and the served data set is exactly the local exceptions of the call");
    let fx = Fixture::new(ctx);
    let mut world = World { fx: &fx, configs: Default::default() };
    for k in [1usize, 2, 10] {
        world.configs.insert(k, Arc::new(fx.config(k)));
    }
    if let Some(v) = replay {
        let t: Tagged<serde_json::Value> = serde_json::from_value(v.clone()).expect("replay");
        if t.sub == "contended" {
            let c: ContCase = serde_json::from_value(t.case).expect("case");
            run_case(ctx, rep, "contended", &c, |c, i| contended(&world, c, i));
            return;
        }
        let case: Case = serde_json::from_value(t.case).expect("case");
        DIRECTED.with(|d| d.set(true));
        run_case(ctx, rep, "sched", &case, |c, i| prop_sched(&world, c, i));
        return;
    }
    // one directed representative of the known shape (prints KNOWN-FINDING while it reproduces)
    // RV_SKIP_DIRECTED=1 (testing aid): let the bulk search find the shape on its own
    if std::env::var_os("RV_SKIP_DIRECTED").is_none() {
        DIRECTED.with(|d| d.set(true));
        run_case(ctx, rep, "sched", &directed_known(), |c, i| prop_sched(&world, c, i));
        DIRECTED.with(|d| d.set(false));
    }
    if rep.violated() {
        return;
    }
    run_dfs(ctx, rep, &world);
    if rep.violated() {
        return;
    }
    run_prop(ctx, rep, "sched", ctx.tier.pick(15_000, 120_000), case_strategy(), |c, i| prop_sched(&world, c, i));
    if rep.violated() {
        flush_excluded(rep);
        return;
    }
    for round in 0..ctx.tier.pick(1u8, 6) {
        for mut c in contended_cases() {
            c.hold_ms = 20 + round * 7;
            run_case(ctx, rep, "contended", &c, |c, i| contended(&world, c, i));
            if rep.violated() {
                break;
            }
        }
    }
    flush_excluded(rep);
}
