//! Shared judge for E-rpki scenarios: runs every step against the real engine and compares
//! payload, store contents and refresh time with the reference model.

use std::collections::{BTreeMap, BTreeSet};

use crate::core::*;
use crate::erpki::*;
use crate::escen::*;
use crate::pay::MItem;

#[derive(Clone, Debug, Default)]
pub struct Judge {
    pub id: &'static str,
    /// served items must be expected
    pub sound: bool,
    /// expected items must be served
    pub complete: bool,
    /// store contents must equal the model's stored versions after every step
    pub store: bool,
    /// snapshot refresh must not exceed the model's bound
    pub refresh: bool,
    /// number of accepted / rejected publication points in the run metrics must equal the model's
    pub points: bool,
    /// every local RRDP archive the model retains after a run must exist (C40: cleanup keeps what is
    /// still needed); an archive the model dropped but the cache still holds ends the case as
    /// `Dropped("rrdp-archive-model-desync")` (the model could not predict the next run)
    pub archives: bool,
}

/// Which (ca, version, object) an item belongs to, over all versions of all CAs.
pub fn owner_map(sc: &Scenario) -> BTreeMap<MItem, (usize, usize, usize)> {
    let mut res = BTreeMap::new();
    for (i, ca) in sc.cas.iter().enumerate() {
        for (v, ver) in ca.versions.iter().enumerate() {
            for (k, obj) in ver.objs.iter().enumerate() {
                for it in obj_items(i, v, k, obj) {
                    res.insert(it, (i, v, k));
                }
            }
        }
    }
    res
}

pub fn scratch_base() -> &'static std::path::Path {
    let base = std::path::Path::new("/dev/shm");
    if base.is_dir() {
        base
    } else {
        std::path::Path::new("/tmp")
    }
}

/// Per-step observations handed to property-specific extra oracles.
pub struct StepObs<'a> {
    pub n: usize,
    pub step: &'a Step,
    pub exp: &'a Expected,
    pub out: &'a RunOutput,
    pub state: &'a ModelState,
}

pub fn judge(j: &Judge, sc: &Scenario, info: &mut CaseInfo, mut extra: impl FnMut(&mut World, &StepObs) -> Option<Verdict>) -> Verdict {
    let id = j.id;
    let mut world = World::new(sc, scratch_base());
    let mut state = ModelState::default();
    let exceptions = empty_exceptions();
    let owners = owner_map(sc);
    let mut verdict = Verdict::Pass;
    'steps: for (n, step) in sc.steps.iter().enumerate() {
        world.publish(step);
        let prev = state.clone();
        let exp = model_step(sc, step, &mut state);
        if std::env::var_os("RV_MODEL_DEBUG").is_some() {
            eprintln!("model step {}: accepted={:?} rejected={:?} skipped={:?} ta_local={:?} ta_store={:?} local_modules={:?} local={:?} stored={:?}", n, exp.accepted, exp.rejected, exp.skipped, state.ta_local, state.ta_store, state.local_modules, state.local, state.stored);
            if uses_rrdp(sc) {
                eprintln!("model step {}: rrdp={:?} via={:?} fetched={:?} rrdp_local={:?}", n, exp.rrdp, exp.via, exp.fetched, state.rrdp_local);
            }
        }
        let out = match world.run_with(step.offline, &exceptions, |c| {
            if let Some(st) = step.stale {
                c.stale = policy(st);
            }
        }) {
            Ok(out) => out,
            Err(e) => {
                verdict = Verdict::fail(format!("{}/run-failed", id), format!("step {}: {}", n, e));
                break;
            }
        };
        if out.elapsed.as_secs() > 600 {
            verdict = Verdict::Dropped("time_guard".into());
            break;
        }
        let served: BTreeSet<MItem> = out.payload.items().into_iter().collect();
        let expected: BTreeSet<MItem> = exp.payload.items().into_iter().collect();
        if j.sound {
            if let Some(extra_item) = served.difference(&expected).next() {
                let why = exp.forbidden.get(extra_item).cloned().unwrap_or_else(|| "not traceable to a valid object under an accepted chain".into());
                // classify: item of a version that was fetched in this step but not used
                let mut key = format!("{}/unexpected-item", id);
                if let Some((ca, v, _)) = owners.get(extra_item) {
                    let used = exp.accepted.get(ca).map(|x| x.0);
                    let fetched = if sc.cas[*ca].rrdp.is_some() { exp.fetched.get(ca).copied() } else { state.local.get(ca).copied() };
                    if used != Some(*v) && fetched == Some(*v) && used.is_some() {
                        // items of the model's version served as well => two versions mixed; else the wrong version was used
                        let mixed = served.iter().any(|it| owners.get(it).map(|(c2, v2, _)| c2 == ca && Some(*v2) == used).unwrap_or(false));
                        key = if mixed { format!("{}/abandoned-update-leaks-into-stored", id) } else { format!("{}/fetched-version-used-instead-of-stored", id) };
                    } else if used != Some(*v) {
                        key = format!("{}/item-of-unused-version", id);
                    }
                }
                verdict = Verdict::fail(key, format!("step {}: served {:?} but model says: {}; owner={:?} accepted={:?} rejected={:?} prev_stored={:?}", n, extra_item, why, owners.get(extra_item), exp.accepted, exp.rejected, prev.stored));
                break;
            }
        }
        if j.complete {
            if let Some(missing) = expected.difference(&served).next() {
                verdict = Verdict::fail(format!("{}/missing-item", id), format!("step {}: expected {:?} (owner {:?}) not served; accepted={:?} rejected={:?} skipped={:?} prev_stored={:?} local={:?}", n, missing, owners.get(missing), exp.accepted, exp.rejected, exp.skipped, prev.stored, state.local));
                break;
            }
        }
        if j.store {
            for ca in 0..sc.cas.len() {
                let got = match world.read_stored(ca) {
                    Ok(g) => g,
                    Err(e) => {
                        verdict = Verdict::fail(format!("{}/store-unreadable", id), format!("step {} ca{}: {}", n, ca, e));
                        break 'steps;
                    }
                };
                let want = state.stored.get(&ca).copied();
                match (got, want) {
                    (None, None) => {}
                    (Some(g), Some(v)) => {
                        let w = world.expected_stored(ca, v);
                        if g != w {
                            // which version does it look like?
                            let mut looks = None;
                            for vv in 0..sc.cas[ca].versions.len() {
                                if world.expected_stored(ca, vv).manifest == g.manifest {
                                    looks = Some(vv);
                                }
                            }
                            let key = if looks.is_some() && looks != Some(v) { format!("{}/store-holds-other-version", id) } else { format!("{}/store-content-differs", id) };
                            verdict = Verdict::fail(key, format!("step {} ca{}: model stored version {} but store manifest matches version {:?}; stored objects {:?} expected {:?}", n, ca, v, looks, g.objects.keys().collect::<Vec<_>>(), w.objects.keys().collect::<Vec<_>>()));
                            break 'steps;
                        }
                    }
                    (Some(g), None) => {
                        verdict = Verdict::fail(format!("{}/store-unexpected-point", id), format!("step {} ca{}: store holds a point ({} objects) but the model says nothing was ever accepted", n, ca, g.objects.len()));
                        break 'steps;
                    }
                    (None, Some(v)) => {
                        verdict = Verdict::fail(format!("{}/store-lost-point", id), format!("step {} ca{}: model says version {} is stored but the store has none", n, ca, v));
                        break 'steps;
                    }
                }
            }
        }
        if j.archives {
            for r in rrdp_repos(sc) {
                let path = rrdp_archive_path_in(&world.cache(), r);
                match (path.exists(), state.rrdp_local.contains(&r)) {
                    (false, true) => {
                        verdict = Verdict::fail(format!("{}/rrdp-archive-lost", id), format!("step {}: the local copy of RRDP repository {} is gone although it was updated or tried in this run or a stored point refers to it (outcomes {:?}, stored {:?})", n, r, exp.rrdp, state.stored));
                        break 'steps;
                    }
                    (true, false) => {
                        verdict = Verdict::Dropped("rrdp-archive-model-desync".into());
                        break 'steps;
                    }
                    _ => {}
                }
            }
        }
        if j.points {
            let p = &out.metrics.publication;
            if p.valid_points as usize != exp.accepted.len() || p.rejected_points as usize != exp.rejected.len() {
                verdict = Verdict::fail(format!("{}/point-counts", id), format!("step {}: engine accepted {} / rejected {} publication points, model accepted {:?} rejected {:?} skipped {:?}", n, p.valid_points, p.rejected_points, exp.accepted, exp.rejected, exp.skipped));
                break;
            }
        }
        if j.refresh {
            match (out.refresh, exp.refresh_bound) {
                (Some(r), Some(bound)) => {
                    let r_off = r.timestamp() - world.now.timestamp();
                    if r_off > bound + 2 {
                        verdict = Verdict::fail(format!("{}/refresh-too-late", id), format!("step {}: refresh at now+{}s but the earliest expiry on a contributing chain is now+{}s", n, r_off, bound));
                        break;
                    }
                }
                (None, Some(bound)) => {
                    verdict = Verdict::fail(format!("{}/refresh-missing", id), format!("step {}: payload contributed but refresh is None (bound now+{}s)", n, bound));
                    break;
                }
                _ => {}
            }
        }
        let obs = StepObs { n, step, exp: &exp, out: &out, state: &state };
        if let Some(v) = extra(&mut world, &obs) {
            verdict = v;
            break;
        }
        info.nt(!exp.payload.is_empty() && count_faults(sc) > 0);
    }
    if std::env::var_os("RV_KEEP_WORLD").is_some() {
        let p = world.dir.keep();
        eprintln!("world kept at {}", p.display());
    }
    for c in fault_classes(sc) {
        info.class(c);
    }
    if count_faults(sc) == 0 {
        info.class("clean");
    }
    verdict
}

/// What the model saw of the RRDP code path over the steps of one scenario.
#[derive(Clone, Debug, Default)]
pub struct RrdpSeen {
    /// a CA published through RRDP was attempted (its certificate chain was accepted) in some run
    pub attempted: bool,
    /// ... and collected through an updated RRDP repository
    pub updated: bool,
    /// ... and left without transport because the update failed with a local copy (stored data used)
    pub current: bool,
    /// ... and collected through rsync because the repository was unavailable
    pub fallback: bool,
    /// ... and left without transport because the repository was unavailable under policy `never`
    pub unavailable_never: bool,
    /// a point of an RRDP CA was accepted from the store in an online run
    pub stored_used: bool,
    /// a point collected through RRDP was refused (incomplete / invalid / not newer) in some run
    pub refused_update: bool,
}

/// `judge` for scenarios with RRDP repositories: additionally reports what the model saw of the RRDP
/// code path and labels the case with it.
pub fn judge_rrdp(j: &Judge, sc: &Scenario, info: &mut CaseInfo, mut extra: impl FnMut(&mut World, &StepObs) -> Option<Verdict>) -> (Verdict, RrdpSeen) {
    let mut seen = RrdpSeen::default();
    let v = judge(j, sc, info, |w, obs| {
        for (ca, via) in &obs.exp.via {
            if sc.cas[*ca].rrdp.is_none() {
                continue;
            }
            seen.attempted = true;
            let outcome = sc.cas[*ca].rrdp.and_then(|r| obs.exp.rrdp.get(&r).copied());
            match (via, outcome) {
                (Via::Rrdp, _) => seen.updated = true,
                (Via::RsyncFallback, _) => seen.fallback = true,
                (Via::Nothing, Some(RrdpOutcome::Current)) => seen.current = true,
                (Via::Nothing, Some(RrdpOutcome::Unavailable)) => seen.unavailable_never = true,
                _ => {}
            }
            if !obs.step.offline && matches!(obs.exp.accepted.get(ca), Some((_, false))) {
                seen.stored_used = true;
            }
            if *via == Via::Rrdp && obs.exp.fetched.contains_key(ca) && !matches!(obs.exp.accepted.get(ca), Some((_, true))) && obs.exp.fetched.get(ca) != obs.exp.accepted.get(ca).map(|x| &x.0) {
                seen.refused_update = true;
            }
        }
        extra(w, obs)
    });
    for (yes, label) in [(seen.updated, "rrdp:updated"), (seen.current, "rrdp:failed_current_copy"), (seen.fallback, "rrdp:fallback_rsync"), (seen.unavailable_never, "rrdp:unavailable_policy_never"), (seen.stored_used, "rrdp:stored_point_used"), (seen.refused_update, "rrdp:update_refused")] {
        if yes {
            info.class(label);
        }
    }
    info.class(format!("rrdp:policy_{}", ["never", "stale", "new"][(sc.cfg.rrdp_fallback as usize).min(2)]));
    if !seen.attempted {
        info.class("rrdp:no_rrdp_ca_attempted");
    }
    (v, seen)
}
