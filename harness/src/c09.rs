//! C09 Served data set is the documented composition of validated payload.
//!
//! Validated payload is injected through routinator's own `ValidationReport` processing interface
//! (`process_ta` / `process_roa` / `process_aspa` / `process_router_cert` / `commit` / `cancel`) with
//! real, signed-and-decoded object content; `into_snapshot` with generated SLURM exceptions then
//! produces the served set, which is compared with set algebra written from the manual.

use std::collections::{BTreeMap, BTreeSet};
use std::net::{IpAddr, Ipv4Addr, Ipv6Addr};

use proptest::prelude::*;
use routinator::config::Config;
use routinator::engine::{CaCert, ProcessPubPoint, ProcessRun};
use routinator::metrics::{Metrics, TalMetrics};
use routinator::payload::ValidationReport;
use routinator::slurm::LocalExceptions;
use rpki::repository::cert::Cert;
use rpki::repository::tal::{TalInfo, TalUri};
use serde::{Deserialize, Serialize};

use crate::core::*;
use crate::erpki::{addr_range, policy};
use crate::fmtx::Kit;
use crate::pay::*;
use crate::rpkigen::{self as gen, Res};

#[derive(Serialize, Deserialize, Clone, Debug)]
pub struct Point {
    pub origins: Vec<MOrigin>,
    pub aspas: Vec<MAspa>,
    /// router certificates: (ec key index, ASNs)
    pub routers: Vec<(usize, Vec<u32>)>,
    /// if set, the point is rejected (contributes nothing) and these are its CA's resources
    pub rejected: Option<Res>,
}

#[derive(Serialize, Deserialize, Clone, Debug)]
pub struct Case {
    pub limit_v4: Option<u8>,
    pub limit_v6: Option<u8>,
    pub unsafe_vrps: u8,
    pub bgpsec: bool,
    pub aspa: bool,
    pub points: Vec<Point>,
    /// SLURM prefix filters (prefix, asn)
    pub filters: Vec<(Option<(IpAddr, u8)>, Option<u32>)>,
    /// SLURM BGPsec filters (ski of ec key index, asn)
    pub key_filters: Vec<(Option<usize>, Option<u32>)>,
    pub assert_origins: Vec<MOrigin>,
    pub assert_keys: Vec<MKey>,
    /// size of the provider union of the directed big-ASPA group (0 = none): several ASPA objects for
    /// customer 65500 whose union has exactly this many providers
    pub big_aspa_union: u32,
    /// how the big group is split: number of overlapping parts (2..=5), rotation of their processing
    /// order, and whether a small ASPA for the same customer is processed at the very end
    #[serde(default)]
    pub big_parts: u8,
    #[serde(default)]
    pub big_rotate: u8,
    #[serde(default)]
    pub big_tail_small: bool,
}

fn ec_key(idx: usize) -> MKey {
    let pk = &gen::signer().ec_pub[idx % gen::N_EC_KEYS];
    let mut ski = [0u8; 20];
    ski.copy_from_slice(pk.key_identifier().as_ref());
    MKey { ski, asn: 0, info: pk.to_info_bytes().to_vec() }
}

fn prefix_pool() -> Vec<(IpAddr, u8)> {
    let mut v = Vec::new();
    for (a, l) in [(0x0A00_0000u32, 8u8), (0x0A01_0000, 16), (0x0A01_0100, 24), (0x0A01_0180, 25), (0x0A01_0200, 23), (0x0A02_0000, 15), (0xC000_0200, 24), (0x0A01_0101, 32)] {
        v.push((IpAddr::V4(Ipv4Addr::from(a)), l));
    }
    for (a, l) in [(0x2001_0db8_0000_0000u64, 32u8), (0x2001_0db8_0001_0000, 48), (0x2001_0db8_0001_0001, 64), (0x2001_0db8_0002_0000, 47)] {
        v.push((IpAddr::V6(Ipv6Addr::from((a as u128) << 64)), l));
    }
    v
}

fn origin_strategy() -> impl Strategy<Value = MOrigin> {
    (prop::sample::select(prefix_pool()), prop::sample::select(vec![0u8, 0, 1, 8, 200]), prop::sample::select(vec![64496u32, 64497, 0])).prop_map(|((a, l), d, asn)| {
        let fam = if a.is_ipv4() { 32 } else { 128 };
        MOrigin::new(a, l, Some(l.saturating_add(d).min(fam)), asn)
    })
}

fn res_strategy() -> impl Strategy<Value = Res> {
    (prop::collection::vec(prop::sample::select(prefix_pool()), 1..=3), any::<bool>()).prop_map(|(ps, zero)| {
        let mut res = Res { v4: vec![], v6: vec![], asn: vec![] };
        for (a, l) in ps {
            match a {
                IpAddr::V4(a) => res.v4.push((a, l)),
                IpAddr::V6(a) => res.v6.push((a, l)),
            }
        }
        if zero {
            // a whole-family block never makes anything unsafe
            res.v4 = vec![(Ipv4Addr::new(0, 0, 0, 0), 0)];
        }
        res
    })
}

fn point_strategy() -> impl Strategy<Value = Point> {
    (
        prop::collection::vec(origin_strategy(), 0..=6),
        prop::collection::vec((prop::sample::select(vec![65001u32, 65002]), prop::collection::btree_set(prop::sample::select(vec![1u32, 2, 3, 4, 5]), 1..=3)), 0..=2),
        prop::collection::vec((0usize..2, prop::collection::btree_set(prop::sample::select(vec![64496u32, 64497, 64498]), 1..=3)), 0..=2),
        prop::option::weighted(0.25, res_strategy()),
    )
        .prop_map(|(origins, aspas, routers, rejected)| Point {
            origins,
            aspas: aspas.into_iter().map(|(c, p)| MAspa::new(c, p)).collect(),
            routers: routers.into_iter().map(|(k, a)| (k, a.into_iter().collect())).collect(),
            rejected,
        })
}

fn case_strategy() -> impl Strategy<Value = Case> {
    (
        (prop::sample::select(vec![None, None, Some(24u8), Some(23), Some(25), Some(8)]), prop::sample::select(vec![None, None, Some(48u8), Some(47), Some(64)]), prop::sample::select(vec![0u8, 0, 1, 2]), any::<bool>(), any::<bool>()),
        prop::collection::vec(point_strategy(), 1..=4),
        prop::collection::vec((prop::option::weighted(0.7, prop::sample::select(prefix_pool())), prop::option::weighted(0.5, prop::sample::select(vec![64496u32, 64497, 0]))), 0..=3),
        prop::collection::vec((prop::option::weighted(0.6, 0usize..2), prop::option::weighted(0.6, prop::sample::select(vec![64496u32, 64497]))), 0..=2),
        prop::collection::vec(origin_strategy(), 0..=3),
        prop::collection::vec((0usize..3, prop::sample::select(vec![64496u32, 64499])), 0..=2),
        (prop::sample::select(vec![0u32, 0, 0, 0, 0, 0, 0, 0, 0, 0, 0, 0, 0, 0, 0, 0, 0, 0, 0, 0, 0, 0, 0, 0, 16379, 16380, 16381, 16381, 20000, 33000]), 2u8..=5, 0u8..5, any::<bool>()),
    )
        .prop_map(|((limit_v4, limit_v6, unsafe_vrps, bgpsec, aspa), points, filters, key_filters, assert_origins, assert_keys, (big, big_parts, big_rotate, big_tail_small))| Case {
            limit_v4,
            limit_v6,
            unsafe_vrps,
            bgpsec,
            aspa,
            points,
            filters,
            key_filters,
            assert_origins,
            assert_keys: assert_keys.into_iter().map(|(k, asn)| MKey { asn, ..ec_key(k) }).collect(),
            big_aspa_union: big,
            big_parts,
            big_rotate,
            big_tail_small,
        })
}

fn slurm(case: &Case) -> String {
    use serde_json::json;
    let pf: Vec<_> = case
        .filters
        .iter()
        .map(|(p, a)| {
            let mut o = serde_json::Map::new();
            if let Some((addr, len)) = p {
                o.insert("prefix".into(), json!(format!("{}/{}", addr, len)));
            }
            if let Some(a) = a {
                o.insert("asn".into(), json!(a));
            }
            o.insert("comment".into(), json!("filter"));
            serde_json::Value::Object(o)
        })
        .collect();
    let kf: Vec<_> = case
        .key_filters
        .iter()
        .map(|(k, a)| {
            let mut o = serde_json::Map::new();
            if let Some(k) = k {
                o.insert("SKI".into(), json!(rpki::util::base64::Slurm.encode(&ec_key(*k).ski)));
            }
            if let Some(a) = a {
                o.insert("asn".into(), json!(a));
            }
            serde_json::Value::Object(o)
        })
        .collect();
    let pa: Vec<_> = case.assert_origins.iter().map(|o| json!({"asn": o.asn, "prefix": format!("{}/{}", o.addr, o.len), "maxPrefixLength": o.max_len, "comment": "assertion"})).collect();
    let ka: Vec<_> = case.assert_keys.iter().map(|k| json!({"asn": k.asn, "SKI": rpki::util::base64::Slurm.encode(&k.ski), "routerPublicKey": rpki::util::base64::Slurm.encode(&k.info)})).collect();
    json!({"slurmVersion": 1, "validationOutputFilters": {"prefixFilters": pf, "bgpsecFilters": kf}, "locallyAddedAssertions": {"prefixAssertions": pa, "bgpsecAssertions": ka}}).to_string()
}

/// The ASPA objects of the big group in processing order: `parts` overlapping windows over n
/// providers (each window well below the limit on its own when parts >= 2), rotated, optionally
/// followed by a small ASPA (providers inside the union) for the same customer.
fn big_aspas(case: &Case) -> Vec<MAspa> {
    let n = case.big_aspa_union as usize;
    if n == 0 {
        return vec![];
    }
    // every single object stays well below the per-object limit of the ASPA decoder
    let parts = (case.big_parts as usize).clamp(2, 5).max(n.div_ceil(9000));
    let all: Vec<u32> = (0..n as u32).map(|i| 100_000 + i).collect();
    let step = n.div_ceil(parts);
    let mut res: Vec<MAspa> = (0..parts)
        .map(|p| {
            let lo = (p * step).saturating_sub(step / 3);
            let hi = ((p + 1) * step).min(n);
            MAspa::new(65500, all[lo.min(n)..hi].iter().cloned())
        })
        .collect();
    res.rotate_left(case.big_rotate as usize % parts);
    if case.big_tail_small {
        res.push(MAspa::new(65500, all[..5.min(n)].iter().cloned()));
    }
    res
}

struct Model {
    set: MSet,
    ops: BTreeSet<&'static str>,
}

fn covers(fp: (IpAddr, u8), o: &MOrigin) -> bool {
    if fp.0.is_ipv4() != o.is_v4() || fp.1 > o.len {
        return false;
    }
    mask(o.addr, fp.1) == mask(fp.0, fp.1)
}

fn model(case: &Case) -> Model {
    let mut ops = BTreeSet::new();
    let mut set = MSet::default();
    // rejected blocks
    let mut blocks: Vec<(bool, u128, u128)> = Vec::new();
    for p in &case.points {
        if let Some(res) = &p.rejected {
            for (a, l) in &res.v4 {
                if *l > 0 {
                    let (lo, hi) = addr_range((u32::from(*a) as u128) << 96, *l, true);
                    blocks.push((true, lo, hi));
                }
            }
            for (a, l) in &res.v6 {
                if *l > 0 {
                    let (lo, hi) = addr_range(u128::from(*a), *l, false);
                    blocks.push((false, lo, hi));
                }
            }
        }
    }
    let mut aspas: BTreeMap<u32, BTreeSet<u32>> = BTreeMap::new();
    let mut seen_origins = 0usize;
    let mut points: Vec<Point> = case.points.clone();
    for a in big_aspas(case) {
        points.push(Point { origins: vec![], aspas: vec![a], routers: vec![], rejected: None });
    }
    for p in &points {
        if p.rejected.is_some() {
            continue;
        }
        for o in &p.origins {
            let limit = if o.is_v4() { case.limit_v4 } else { case.limit_v6 };
            if limit.map(|l| o.len > l).unwrap_or(false) {
                ops.insert("length_limit");
                continue;
            }
            let (lo, hi) = addr_range(o.bits(), o.len, o.is_v4());
            if case.unsafe_vrps == 0 && blocks.iter().any(|(v4, blo, bhi)| *v4 == o.is_v4() && lo <= *bhi && *blo <= hi) {
                ops.insert("unsafe_reject");
                continue;
            }
            if case.filters.iter().any(|(fp, fa)| match (fp, fa) {
                (Some(fp), Some(fa)) => covers(*fp, o) && *fa == o.asn,
                (Some(fp), None) => covers(*fp, o),
                (None, Some(fa)) => *fa == o.asn,
                (None, None) => false,
            }) {
                ops.insert("slurm_filter");
                continue;
            }
            seen_origins += 1;
            set.origins.insert(o.clone());
        }
        if case.bgpsec {
            for (k, asns) in &p.routers {
                for asn in asns {
                    let key = MKey { asn: *asn, ..ec_key(*k) };
                    let dropped = case.key_filters.iter().any(|(fk, fa)| match (fk, fa) {
                        (Some(fk), Some(fa)) => ec_key(*fk).ski == key.ski && *fa == key.asn,
                        (Some(fk), None) => ec_key(*fk).ski == key.ski,
                        (None, Some(fa)) => *fa == key.asn,
                        (None, None) => false,
                    });
                    if dropped {
                        ops.insert("bgpsec_filter");
                    } else {
                        set.keys.insert(key);
                    }
                }
            }
        } else if !p.routers.is_empty() {
            ops.insert("bgpsec_disabled");
        }
        if case.aspa {
            for a in &p.aspas {
                let e = aspas.entry(a.customer).or_default();
                if !e.is_empty() {
                    ops.insert("aspa_union");
                }
                e.extend(a.providers.iter().cloned());
            }
        } else if !p.aspas.is_empty() {
            ops.insert("aspa_disabled");
        }
    }
    if seen_origins > set.origins.len() {
        ops.insert("duplicate_merged");
    }
    for (c, p) in aspas {
        if p.len() > 16380 {
            ops.insert("aspa_too_large");
            continue;
        }
        set.aspas.insert(c, p.into_iter().collect());
    }
    for o in &case.assert_origins {
        ops.insert("assertion");
        set.origins.insert(o.clone());
    }
    for k in &case.assert_keys {
        ops.insert("assertion");
        set.keys.insert(k.clone());
    }
    Model { set, ops }
}

thread_local! {
    static KIT: Kit = Kit::new();
}

fn ca_for(res: &Res, idx: usize) -> std::sync::Arc<CaCert> {
    let now = rpki::repository::x509::Time::now();
    let dir = rpki::uri::Rsync::from_string(format!("rsync://c09.rpki.test/repo/p{}/", idx)).unwrap();
    let mft = dir.join(b"p.mft").unwrap();
    let bytes = gen::issue_ta(idx % gen::N_CA_KEYS, res, gen::validity(now, -86400, 86400 * 30), &dir, &mft, None, 1);
    let cert = Cert::decode(bytes).expect("decode").validate_ta(TalInfo::from_name(format!("tal{}", idx)).into_arc(), false).expect("validate_ta");
    CaCert::root(cert, TalUri::from_string(format!("rsync://c09.rpki.test/repo/ta{}.cer", idx)).unwrap(), idx).expect("root")
}

fn prop(case: &Case, info: &mut CaseInfo) -> Verdict {
    let m = model(case);
    info.nontrivial = m.ops.len() >= 2;
    for o in &m.ops {
        info.class(*o);
    }
    info.class(format!("unsafe_policy_{}", case.unsafe_vrps));
    let dir = tempfile::tempdir_in(crate::erun::scratch_base()).expect("tmp");
    let mut config = Config::default_with_paths(dir.path().join("r.conf"), dir.path().join("cache"));
    config.limit_v4_len = case.limit_v4;
    config.limit_v6_len = case.limit_v6;
    config.unsafe_vrps = policy(case.unsafe_vrps);
    config.enable_bgpsec = case.bgpsec;
    config.enable_aspa = case.aspa;
    let exceptions = match LocalExceptions::from_json(&slurm(case), true) {
        Ok(e) => e,
        Err(e) => panic!("harness SLURM does not parse: {}", e),
    };
    let served = KIT.with(|kit| {
        let report = ValidationReport::new(&config);
        let mut metrics = Metrics::new();
        let mut points: Vec<Point> = case.points.clone();
        for a in big_aspas(case) {
            points.push(Point { origins: vec![], aspas: vec![a], routers: vec![], rejected: None });
        }
        let whole = Res { v4: vec![(Ipv4Addr::new(0, 0, 0, 0), 0)], v6: vec![(Ipv6Addr::from(0u128), 0)], asn: vec![(0, u32::MAX)] };
        for (idx, p) in points.iter().enumerate() {
            metrics.tals.push(TalMetrics::new(TalInfo::from_name(format!("tal{}", idx)).into_arc()));
            let ca = ca_for(p.rejected.as_ref().unwrap_or(&whole), idx);
            let mut proc = (&report).process_ta(&kit.tal, &kit.ta_uri, &ca, idx).expect("process_ta").expect("processor");
            let ee = kit.resource_cert(&format!("tal{}", idx));
            let uri = rpki::uri::Rsync::from_string(format!("rsync://c09.rpki.test/repo/p{}/o", idx)).unwrap();
            // a rejected point may have processed objects before it was rejected
            for att in kit.roa_atts(&p.origins) {
                proc.process_roa(&uri, ee.clone(), att).expect("process_roa");
            }
            for a in &p.aspas {
                proc.process_aspa(&uri, ee.clone(), kit.aspa_att(a)).expect("process_aspa");
            }
            for (k, asns) in &p.routers {
                let issuer = gen::Issuer { key: idx % gen::N_CA_KEYS, cert_uri: uri.clone(), crl_uri: uri.clone() };
                let ranges: Vec<(u32, u32)> = asns.iter().map(|a| (*a, *a)).collect();
                let now = rpki::repository::x509::Time::now();
                let bytes = gen::issue_router_cert(&issuer, *k, &ranges, gen::validity(now, -3600, 86400), 77, true);
                let cert = Cert::decode(bytes).expect("router cert decodes");
                proc.process_router_cert(&uri, cert, &ca).expect("process_router_cert");
            }
            if p.rejected.is_some() {
                proc.cancel(&ca);
            } else {
                proc.commit();
            }
        }
        // through the history, as the server does: what RTR clients get for a reset query and what the
        // HTTP outputs are rendered from must both be the composition
        let history = routinator::payload::SharedHistory::from_config(&config);
        history.update(report, &exceptions, metrics);
        history.mark_update_done();
        let snapshot = history.read().current().expect("snapshot installed");
        let from_snapshot = MSet::from_snapshot(&snapshot);
        let (_, _, items) = crate::hist::rtr_full(&history);
        let n = items.len();
        let rtr = MSet::from_items(items);
        (from_snapshot, rtr, n)
    });
    let (served, rtr, rtr_items) = served;
    if let Ok(s) = &served {
        if rtr != *s || rtr_items != s.len() {
            return Verdict::fail("C09/rtr-full-set-differs-from-snapshot", format!("the full data set handed to RTR clients ({} items: {} origins, {} router keys, {} ASPAs) differs from the snapshot's payload ({} origins, {} router keys, {} ASPAs)", rtr_items, rtr.origins.len(), rtr.keys.len(), rtr.aspas.len(), s.origins.len(), s.keys.len(), s.aspas.len()));
        }
    }
    let served = match served {
        Ok(s) => s,
        Err(e) => return Verdict::fail("C09/item-listed-twice", e),
    };
    if served.origins != m.set.origins {
        let extra: Vec<_> = served.origins.difference(&m.set.origins).take(3).collect();
        let missing: Vec<_> = m.set.origins.difference(&served.origins).take(3).collect();
        let key = if !extra.is_empty() { "C09/origin-not-in-composition" } else { "C09/origin-missing-from-composition" };
        return Verdict::fail(key, format!("served-but-not-expected {:?}; expected-but-not-served {:?}; operators in play {:?}", extra, missing, m.ops));
    }
    if served.keys != m.set.keys {
        let extra: Vec<_> = served.keys.difference(&m.set.keys).map(|k| k.asn).collect();
        let missing: Vec<_> = m.set.keys.difference(&served.keys).map(|k| k.asn).collect();
        return Verdict::fail("C09/router-keys-differ", format!("extra key ASNs {:?} missing key ASNs {:?} bgpsec={} ops {:?}", extra, missing, case.bgpsec, m.ops));
    }
    if served.aspas != m.set.aspas {
        let summary = |s: &BTreeMap<u32, Vec<u32>>| s.iter().map(|(c, p)| (*c, p.len())).collect::<Vec<_>>();
        return Verdict::fail("C09/aspas-differ", format!("served (customer, #providers) {:?} expected {:?} aspa={} ops {:?}", summary(&served.aspas), summary(&m.set.aspas), case.aspa, m.ops));
    }
    Verdict::Pass
}

pub fn run(ctx: &Ctx, rep: &mut Report, replay: Option<&serde_json::Value>) {
    rep.rule("validated payload injected through routinator's own ValidationReport interface: 1-4 publication points (one TAL each) with ROA content drawn from a small pool of related prefixes (so duplicates across points/TALs, covering/covered relations and lengths at limit-1/limit/limit+1 are common), ASPAs for 2 customers with overlapping provider sets, router certificates (real, issued and decoded) with 1-3 ASNs; 25% of points are rejected with generated resource blocks (sometimes only 0.0.0.0/0); SLURM prefix filters (prefix and/or ASN), BGPsec filters (SKI and/or ASN), prefix and BGPsec assertions; limit-v4/v6-len, unsafe-vrps, enable-bgpsec/aspa varied; 1 in 5 cases adds a group of 2-5 overlapping ASPA objects for one customer (processing order rotated, optionally followed by a small ASPA for the same customer) whose provider union is 16379/16380/16381/20000/33000; the report is installed into a SharedHistory as the server does and read back both as the snapshot's payload and as the full set an RTR reset query is answered with; oracle = set algebra from the manual (validated - too long - unsafe(reject) - SLURM-filtered + assertions, each distinct item once; ASPA union per customer, dropped above 16380); non-trivial = >=2 operators act in the case; distinct by serialised case");
    rep.assume("object content comes from signed-and-decoded ROAs/ASPAs/router certificates; certificate-level validation is the subject of C01/C02, not of this check");
    if let Some(v) = replay {
        let t: Tagged<Case> = serde_json::from_value(v.clone()).expect("replay");
        run_case(ctx, rep, &t.sub, &t.case, prop);
        return;
    }
    run_prop(ctx, rep, "compose", ctx.tier.pick(2500, 60_000), case_strategy(), prop);
}
