//! C38 The object size limit is applied exactly as configured.
//!
//! Full product limit x size x carrier x encoding, run for real: HTTPS trust anchor download
//! (`Run::load_ta`), object in an RRDP snapshot, object in an RRDP delta (snapshot withheld), and
//! the real `/usr/bin/rsync` (local-path source through a wrapper, routinator's own `--max-size`).
//! Oracle: the object as published is obtained  <=>  size <= L or the limit is disabled.

use std::collections::BTreeSet;
use std::os::unix::fs::PermissionsExt;
use std::path::Path;

use bytes::Bytes;
use proptest::prelude::*;
use routinator::collector::Collector;
use rpki::repository::tal::TalUri;
use rpki::uri;
use serde::{Deserialize, Serialize};

use crate::core::*;
use crate::erun::scratch_base;
use crate::httpsrv::*;

pub const IMPLEMENTED: bool = true;

pub const KEY_TA_CL: &str = "C38/limit=disabled/carrier=ta-https/enc=content-length/refused";

#[derive(Serialize, Deserialize, Clone, Copy, Debug, PartialEq, Eq, PartialOrd, Ord)]
pub enum Carrier {
    TaHttps,
    Snapshot,
    Delta,
    RsyncReal,
}

impl Carrier {
    fn name(self) -> &'static str {
        match self {
            Carrier::TaHttps => "ta-https",
            Carrier::Snapshot => "rrdp-snapshot",
            Carrier::Delta => "rrdp-delta",
            Carrier::RsyncReal => "rsync",
        }
    }
}

#[derive(Serialize, Deserialize, Clone, Debug, PartialEq, Eq, PartialOrd, Ord)]
pub struct Case {
    /// None = limit disabled (config value 0)
    pub limit: Option<u64>,
    pub size: u64,
    pub carrier: Carrier,
    pub chunked: bool,
    /// how the limit reaches the configuration: 0 = field set directly, 1 = `--max-object-size N` on
    /// the command line, 2 = `max-object-size = N` in the config file (N = 0 disables), both read by
    /// routinator's own parsers
    #[serde(default)]
    pub via: u8,
}

fn body(size: u64) -> Vec<u8> {
    let mut v = vec![0u8; size as usize];
    for (i, b) in v.iter_mut().enumerate() {
        *b = (i % 251) as u8 ^ (i >> 16) as u8;
    }
    v
}

fn limit_name(l: Option<u64>) -> String {
    match l {
        None => "disabled".into(),
        Some(l) => l.to_string(),
    }
}

fn key(c: &Case, what: &str) -> String {
    let rel = match c.limit {
        None => "any".to_string(),
        Some(l) if c.size == l => "L".into(),
        Some(l) if c.size + 1 == l => "L-1".into(),
        Some(l) if c.size == l + 1 => "L+1".into(),
        Some(l) if c.size == 2 * l => "2L".into(),
        Some(l) if c.size < l => "below".into(),
        Some(_) => "above".into(),
    };
    let enc = if c.carrier == Carrier::RsyncReal { "n/a" } else if c.chunked { "chunked" } else { "content-length" };
    if c.via == 0 && c.limit.is_none() && c.carrier == Carrier::TaHttps && !c.chunked && what == "refused" {
        return KEY_TA_CL.to_string();
    }
    let via = match c.via {
        1 => "/via=command-line",
        2 => "/via=config-file",
        _ => "",
    };
    format!("C38/limit={}/size={}/carrier={}/enc={}/{}{}", limit_name(c.limit), rel, c.carrier.name(), enc, what, via)
}

/// Writes the wrapper that turns routinator's rsync invocation into a local-path copy by the real rsync.
fn write_rsync_wrapper(dir: &Path) -> std::path::PathBuf {
    let root = dir.join("srv");
    let log = dir.join("rsync.log");
    let path = dir.join("rsync-wrapper.sh");
    // routinator calls: <cmd> -h   and   <cmd> [args…] -rtO --delete rsync://host/module/ <dest>/
    // `--contimeout` is only valid with a daemon, so it is dropped; everything else (incl. --max-size) is kept.
    let script = format!(
        "#!/bin/bash\nif [ \"$1\" = \"-h\" ]; then exec /usr/bin/rsync -h; fi\nargs=()\nfor a in \"$@\"; do\n  case \"$a\" in\n    --contimeout=*) ;;\n    rsync://*) echo \"${{a#rsync://}}\" >> '{log}'; rest=\"${{a#rsync://}}\"; args+=(\"{root}/$rest\") ;;\n    *) args+=(\"$a\") ;;\n  esac\ndone\necho \"ARGS $*\" >> '{log}'\nexec /usr/bin/rsync \"${{args[@]}}\"\n",
        log = log.display(),
        root = root.display()
    );
    std::fs::write(&path, script).expect("wrapper");
    std::fs::set_permissions(&path, std::fs::Permissions::from_mode(0o755)).expect("chmod");
    path
}

fn prop(c: &Case, info: &mut CaseInfo) -> Verdict {
    let dir = tempfile::Builder::new().prefix("c38-").tempdir_in(scratch_base()).expect("tmp");
    let srv = HttpsServer::start();
    let mut config = client_config(dir.path(), &srv);
    config.max_object_size = c.limit;
    if c.via != 0 {
        let env = crate::hist::Env::new(tempfile::Builder::new().prefix("c38-conf-").tempdir_in(scratch_base()).expect("tmp"));
        let n = c.limit.unwrap_or(0);
        let parsed = if c.via == 1 { env.config(&[], &["--max-object-size".into(), n.to_string()]) } else { env.config(&[format!("max-object-size = {}", n)], &[]) };
        match parsed {
            Ok(p) => config.max_object_size = p.max_object_size,
            Err(e) => return Verdict::fail(format!("C38/limit-not-accepted/via={}", c.via), format!("max-object-size {} rejected by the option parser: {}", n, e)),
        }
        info.class(if c.via == 1 { "limit-via:command-line" } else { "limit-via:config-file" });
    }
    let data = body(c.size);
    let should_use = match c.limit {
        None => true,
        Some(l) => c.size <= l,
    };
    info.class(format!("carrier:{}", c.carrier.name()));
    info.class(format!("limit:{}", limit_name(c.limit)));
    info.class(if should_use { "expect:used" } else { "expect:refused" });
    let near = match c.limit {
        Some(l) => c.size + 1 >= l && c.size <= l + 1,
        None => c.carrier == Carrier::TaHttps && !c.chunked,
    };
    info.nt(near);
    let host = "size.rpki.test";
    let used: bool;
    let mut detail = String::new();
    match c.carrier {
        Carrier::TaHttps => {
            config.disable_rsync = true;
            srv.set(host, "/ta/ta.cer", Resp::ok(data.clone()).chunked(c.chunked));
            let mut collector = match Collector::new(&config) {
                Ok(x) => x,
                Err(_) => return Verdict::Dropped("collector_new_failed".into()),
            };
            if collector.ignite().is_err() {
                return Verdict::Dropped("ignite_failed".into());
            }
            let run = collector.start();
            let got = run.load_ta(&TalUri::Https(uri::Https::from_string(format!("https://{}/ta/ta.cer", host)).unwrap()));
            if srv.count(host) == 0 {
                return Verdict::Dropped("no_request_reached_server".into());
            }
            used = matches!(&got, Some(b) if b.as_ref() == data.as_slice());
            detail = format!("load_ta returned {:?} bytes", got.map(|b| b.len()));
        }
        Carrier::Snapshot | Carrier::Delta => {
            config.disable_rsync = true;
            let mut server = RrdpServer::new(host, "rrdp", 38);
            let target = "rsync://size.rpki.test/repo/target.roa";
            let small = "rsync://size.rpki.test/repo/small.roa";
            let notify = server.notify_uri();
            let ca = ta_ca_cert(1, &uri::Rsync::from_string("rsync://size.rpki.test/repo/".into()).unwrap(), Some(&notify));
            let mut collector = match Collector::new(&config) {
                Ok(x) => x,
                Err(_) => return Verdict::Dropped("collector_new_failed".into()),
            };
            if collector.ignite().is_err() {
                return Verdict::Dropped("ignite_failed".into());
            }
            let install = |server: &RrdpServer, with_snapshot: bool| {
                srv.clear_host(host);
                srv.set(host, &server.notify_path(), Resp::ok(server.notification_xml()));
                if with_snapshot {
                    srv.set(host, &server.snapshot_path(), Resp::ok(server.snapshot_xml()).chunked(c.chunked));
                } else {
                    srv.set(host, &server.snapshot_path(), Resp::status(404));
                }
                for d in &server.deltas {
                    srv.set(host, &server.delta_path(d.serial), Resp::ok(render_delta(&server.session, d.serial, &d.els)).chunked(c.chunked));
                }
            };
            if c.carrier == Carrier::Delta {
                // first update: a one-byte object through the snapshot (fits every limit >= 1)
                server.publish(small, Bytes::from_static(b"x"));
                install(&server, true);
                let run = collector.start();
                match run.repository(&ca) {
                    Ok(Some(r)) if r.is_rrdp() => {}
                    _ => return Verdict::Dropped("preparatory_snapshot_update_failed".into()),
                }
                drop(run);
                server.publish(target, Bytes::from(data.clone()));
                install(&server, false);
            } else {
                server.publish(target, Bytes::from(data.clone()));
                install(&server, true);
            }
            let _ = srv.take_log();
            let run = collector.start();
            let res = run.repository(&ca);
            let log = srv.take_log();
            if log.iter().filter(|r| r.method == "GET").count() == 0 {
                return Verdict::Dropped("no_request_reached_server".into());
            }
            let t = uri::Rsync::from_string(target.into()).unwrap();
            match res {
                Ok(Some(repo)) if repo.is_rrdp() => match repo.load_object(&t) {
                    Ok(got) => {
                        used = matches!(&got, Some(b) if b.as_ref() == data.as_slice());
                        detail = format!("repository updated, load_object returned {:?} bytes", got.map(|b| b.len()));
                    }
                    Err(_) => return Verdict::fail(key(c, "load-object-failed"), "load_object failed on an updated repository"),
                },
                Ok(_) => {
                    used = false;
                    detail = "repository reported as not updated".into();
                }
                Err(_) => return Verdict::fail(key(c, "run-failed"), "Run::repository failed the run"),
            }
            if c.carrier == Carrier::Delta {
                let delta_fetched = log.iter().any(|r| r.path.ends_with("/delta.xml") && r.status == 200);
                if !delta_fetched {
                    return Verdict::Dropped("delta_not_requested".into());
                }
            }
        }
        Carrier::RsyncReal => {
            config.disable_rrdp = true;
            config.rsync_command = write_rsync_wrapper(dir.path()).to_string_lossy().into_owned();
            config.rsync_args = None; // routinator then adds --max-size itself
            let moddir = dir.path().join("srv/size.rpki.test/repo");
            std::fs::create_dir_all(&moddir).unwrap();
            std::fs::write(moddir.join("target.roa"), &data).unwrap();
            std::fs::write(moddir.join("small.roa"), b"x").unwrap();
            let ca = ta_ca_cert(1, &uri::Rsync::from_string("rsync://size.rpki.test/repo/".into()).unwrap(), None);
            let mut collector = match Collector::new(&config) {
                Ok(x) => x,
                Err(_) => return Verdict::Dropped("collector_new_failed".into()),
            };
            if collector.ignite().is_err() {
                return Verdict::Dropped("ignite_failed".into());
            }
            let run = collector.start();
            let t = uri::Rsync::from_string("rsync://size.rpki.test/repo/target.roa".into()).unwrap();
            let s = uri::Rsync::from_string("rsync://size.rpki.test/repo/small.roa".into()).unwrap();
            match run.repository(&ca) {
                Ok(Some(repo)) if !repo.is_rrdp() => {
                    let got = repo.load_object(&t).ok().flatten();
                    let got_small = repo.load_object(&s).ok().flatten();
                    let log = rsync_log(dir.path());
                    let passed_max = log.iter().any(|l| l.starts_with("ARGS") && l.contains("--max-size="));
                    if c.limit.is_some() != passed_max {
                        return Verdict::fail(key(c, "max-size-argument"), format!("--max-size passed to rsync: {} with limit {:?}; log {:?}", passed_max, c.limit, log));
                    }
                    // the transfer itself must have worked (a 1-byte sibling fits every limit)
                    if got_small.as_deref() != Some(&b"x"[..]) {
                        return Verdict::Dropped("real_rsync_transfer_failed".into());
                    }
                    used = matches!(&got, Some(b) if b.as_ref() == data.as_slice());
                    detail = format!("rsync copy holds {:?} bytes", got.map(|b| b.len()));
                }
                _ => return Verdict::Dropped("no_rsync_repository".into()),
            }
        }
    }
    if used != should_use {
        let what = if should_use { "refused" } else { "accepted" };
        return Verdict::fail(key(c, what), format!("limit {} object size {} via {} ({}): expected {} but {}", limit_name(c.limit), c.size, c.carrier.name(), if c.chunked { "chunked" } else { "Content-Length" }, if should_use { "the object to be used" } else { "the object to be refused" }, detail));
    }
    Verdict::Pass
}

/// The "default" limit cell: 20 000 000 in the thorough tier. The quick tier uses a 2 000 000 stand-in
/// because routinator needs 12-28 s per RRDP file once an object exceeds about 10 MB (measured), which
/// would put the quick tier at several minutes; the limit logic under test does not depend on the value.
pub fn big_limit(tier: Tier) -> u64 {
    tier.pick(2_000_000, 20_000_000)
}

fn cells(big: u64) -> Vec<Case> {
    let mut res = BTreeSet::new();
    for limit in [None, Some(1u64), Some(1000), Some(big)] {
        let sizes: Vec<u64> = match limit {
            // no L to relate to: empty, tiny, the two finite limits and just above the default limit
            None => vec![0, 1, 1000, 1001, big + 1],
            Some(l) => vec![l - 1, l, l + 1, 2 * l, 0],
        };
        for size in sizes {
            for carrier in [Carrier::TaHttps, Carrier::Snapshot, Carrier::Delta, Carrier::RsyncReal] {
                for chunked in [false, true] {
                    if carrier == Carrier::RsyncReal && chunked {
                        continue;
                    }
                    res.insert(Case { limit, size, carrier, chunked, via: 0 });
                }
            }
        }
    }
    // the limit as it comes out of routinator's option parsers; "disabled" is only observable with an
    // object above the default limit of 20 000 000 bytes
    for via in [1u8, 2] {
        for chunked in [false, true] {
            res.insert(Case { limit: None, size: 20_000_001, carrier: Carrier::TaHttps, chunked, via });
            res.insert(Case { limit: None, size: 1001, carrier: Carrier::TaHttps, chunked, via });
            res.insert(Case { limit: Some(1000), size: 1000, carrier: Carrier::TaHttps, chunked, via });
            res.insert(Case { limit: Some(1000), size: 1001, carrier: Carrier::TaHttps, chunked, via });
        }
        res.insert(Case { limit: Some(1000), size: 1000, carrier: Carrier::Snapshot, chunked: false, via });
        res.insert(Case { limit: Some(1000), size: 1001, carrier: Carrier::Snapshot, chunked: false, via });
        res.insert(Case { limit: Some(1000), size: 1001, carrier: Carrier::RsyncReal, chunked: false, via });
    }
    res.into_iter().collect()
}

fn random_case() -> impl Strategy<Value = Case> {
    (prop_oneof![Just(None), (1u64..6000).prop_map(Some)], 0u64..4, 0i64..5, prop_oneof![Just(Carrier::TaHttps), Just(Carrier::Snapshot), Just(Carrier::Delta)], any::<bool>(), 0u64..12000).prop_map(|(limit, mode, off, carrier, chunked, free)| {
        let size = match (limit, mode) {
            (Some(l), 0) => (l as i64 + off - 2).max(0) as u64,
            (Some(l), 1) => l * 2 + off as u64,
            _ => free,
        };
        Case { limit, size, carrier, chunked, via: 0 }
    })
}

/// Order-preserving parallel map over independent cells.
pub fn par_map<T: Sync, R: Send>(items: &[T], workers: usize, f: impl Fn(&T) -> R + Sync) -> Vec<R> {
    let next = std::sync::atomic::AtomicUsize::new(0);
    let slots: Vec<std::sync::Mutex<Option<R>>> = items.iter().map(|_| std::sync::Mutex::new(None)).collect();
    std::thread::scope(|scope| {
        for _ in 0..workers.max(1) {
            scope.spawn(|| loop {
                let i = next.fetch_add(1, std::sync::atomic::Ordering::SeqCst);
                if i >= items.len() {
                    break;
                }
                let r = f(&items[i]);
                *slots[i].lock().unwrap() = Some(r);
            });
        }
    });
    slots.into_iter().map(|m| m.into_inner().unwrap().expect("cell evaluated")).collect()
}

pub fn run(ctx: &Ctx, rep: &mut Report, replay: Option<&serde_json::Value>) {
    rep.rule("exhaustive product limit {disabled, 1, 1000, BIG} x size {L-1, L, L+1, 2L, 0} (disabled: 0, 1, 1000, 1001, BIG+1), BIG = 20 000 000 in the thorough tier and a 2 000 000 stand-in in the quick tier (time), x carrier {https TA via Run::load_ta, object in RRDP snapshot, object in RRDP delta with the snapshot withheld, real /usr/bin/rsync through a source-rewriting wrapper with routinator's own arguments} x {Content-Length, chunked}; plus 26 cells in which the limit (disabled / 1000) is read by routinator's own option parsers from the command line or from a config file, 'disabled' probed with an https TA of 20 000 001 bytes; oracle: the published bytes are obtained <=> size <= L or limit disabled; non-trivial = size within 1 of L, or limit disabled with Content-Length on the TA carrier; thorough adds random (limit, size) pairs; distinct by cell");
    rep.assume("rsync carrier: daemon-less local copy by the real rsync (source rewritten to a local path, --contimeout dropped because it is daemon-only); --max-size is routinator's own argument");
    if let Some(v) = replay {
        let t: Tagged<Case> = serde_json::from_value(v.clone()).expect("replay");
        run_case(ctx, rep, &t.sub, &t.case, prop);
        return;
    }
    let known = is_listed_known("C38", KEY_TA_CL);
    let complete = true;
    let mut todo = Vec::new();
    for c in cells(big_limit(ctx.tier)) {
        // known shape: limit disabled + https TA + Content-Length; one representative (size 1000) per run
        if known && c.limit.is_none() && c.carrier == Carrier::TaHttps && !c.chunked && c.size != 1000 {
            rep.exclude_known(KEY_TA_CL);
            continue;
        }
        todo.push(c);
    }
    // cells are independent (own scratch dir, own server): evaluate on 8 threads, record in cell order
    let results: Vec<(CaseInfo, Verdict)> = par_map(&todo, 8, |c| {
        let mut info = CaseInfo::default();
        let v = prop(c, &mut info);
        (info, v)
    });
    for (c, (info, v)) in todo.iter().zip(results) {
        let tagged = Tagged { sub: "cells".to_string(), case: c.clone() };
        rep.record(ctx, &tagged, &info, &v);
    }
    rep.exhaustive = Some(complete && rep.dropped.is_empty());
    if ctx.tier == Tier::Thorough {
        let known_now = known;
        run_prop(ctx, rep, "random", 400, random_case().prop_filter("known shape", move |c| !(known_now && c.limit.is_none() && c.carrier == Carrier::TaHttps && !c.chunked)), prop);
    }
}
