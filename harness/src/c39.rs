//! C39 Data refresh deadline never exceeds contributing objects' expiry.

use proptest::prelude::*;

use crate::core::*;
use crate::erpki::*;
use crate::erun::*;
use crate::escen::*;

fn scenario(words: &[u16]) -> Scenario {
    let p = Profile { max_cas: 7, max_tals: 2, max_objs: 4, versions: 1, fault_16: 2, obj_faults: true, cert_faults: false, pp_faults: false, vary_cfg: true, modules: 3, rrdp_16: 0, rrdp_repos: 2 };
    let mut sc = single_run(words, &p);
    let mut d = D::new(words);
    for _ in 0..11 {
        d.next();
    }
    // independent expiry for every element: 1 h .. 400 d
    let times = [3600i64 * 2, 3600 * 30, 86400 * 9, 86400 * 400, 3600 * 5, 86400 * 40];
    for ca in sc.cas.iter_mut() {
        ca.not_after = d.pick(&times);
        for v in ca.versions.iter_mut() {
            v.next_off = d.pick(&times);
            v.crl_next_off = d.pick(&times);
            v.ee_after_off = d.pick(&times);
            for o in v.objs.iter_mut() {
                o.not_after = d.pick(&times);
            }
        }
    }
    sc
}

fn prop(sc: &Scenario, info: &mut CaseInfo) -> Verdict {
    let j = Judge { id: "C39", sound: false, complete: true, refresh: true, ..Default::default() };
    let mut on_chain = false;
    let v = judge(&j, sc, info, |_, obs| {
        if let (Some(b), Some(l)) = (obs.exp.refresh_bound, obs.exp.refresh_min_leaf) {
            if b < l {
                on_chain = true;
            }
        }
        None
    });
    info.nontrivial = on_chain;
    if on_chain {
        info.class("minimum_on_chain_element");
    } else {
        info.class("minimum_on_leaf_or_none");
    }
    v
}

pub fn run(ctx: &Ctx, rep: &mut Report, replay: Option<&serde_json::Value>) {
    rep.rule("E-rpki single-run trees where every notAfter / nextUpdate (TA, CA certificates, manifest EE, manifest, CRL, object EE) is drawn independently from {2 h, 5 h, 30 h, 9 d, 40 d, 400 d}; some objects are invalid or of a disabled type; oracle: snapshot.refresh() <= min over every contributing object of (certificates on its chain, manifest EE / manifest nextUpdate / CRL nextUpdate of every publication point on the chain, its own EE notAfter), and refresh is present whenever something contributed; non-trivial = the minimum sits on a chain element (CA certificate, manifest, CRL), not on a leaf EE certificate; distinct by serialised scenario");
    rep.assume("only the upper bound is checked; a lower refresh is allowed by the property");
    ctx.shrink_iters.store(150, std::sync::atomic::Ordering::Relaxed);
    if let Some(v) = replay {
        let t: Tagged<Scenario> = serde_json::from_value(v.clone()).expect("replay");
        run_case(ctx, rep, &t.sub, &t.case, prop);
        return;
    }
    run_prop_par(ctx, rep, "single", ctx.tier.pick(320, 8000), 8, || genome(200).prop_map(|w| scenario(&w)), prop);
}
