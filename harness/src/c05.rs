//! C05 Fetched manifests never roll back stored data.

use proptest::strategy::Strategy;

use crate::core::*;
use crate::erpki::*;
use crate::erun::*;
use crate::escen::*;

fn profile() -> HistProfile {
    let mut hp = HistProfile::default();
    hp.base.fault_16 = 0;
    hp.base.obj_faults = false;
    hp.base.pp_faults = false;
    hp.base.max_cas = 4;
    hp.incomplete_16 = 0;
    hp.rollback_16 = 7;
    hp.irregular_16 = 8;
    hp.fail_module_16 = 1;
    hp.offline_16 = 1;
    hp.max_steps = 5;
    hp
}

/// History contains a step publishing a version that is not strictly newer (number and thisUpdate)
/// than one published before it.
fn has_non_increasing_step(sc: &Scenario) -> bool {
    for (i, ca) in sc.cas.iter().enumerate() {
        let seq: Vec<usize> = sc.steps.iter().map(|s| s.publish.get(i).copied().unwrap_or(0).min(ca.versions.len().saturating_sub(1))).collect();
        for w in seq.windows(2) {
            if ca.versions.is_empty() || w[0] == w[1] {
                continue;
            }
            let (a, b) = (&ca.versions[w[0]], &ca.versions[w[1]]);
            if !(b.number > a.number && b.this_off > a.this_off) {
                return true;
            }
        }
    }
    false
}

fn prop(sc: &Scenario, info: &mut CaseInfo) -> Verdict {
    let j = Judge { id: "C05", sound: true, complete: true, store: true, ..Default::default() };
    let v = judge(&j, sc, info, |_, _| None);
    info.nontrivial = has_non_increasing_step(sc);
    for c in history_classes(sc) {
        info.class(c);
    }
    v
}

pub fn run(ctx: &Ctx, rep: &mut Report, replay: Option<&serde_json::Value>) {
    rep.rule("E-rpki histories of 2-5 runs of validly signed, complete versions whose (manifestNumber, thisUpdate) pairs are drawn from {increasing, equal number, decreasing number, number up/time down, number down/time up, equal/equal, +1/+1s} with number bases 100, 2^32, 2^63, 2^64-1000, and whose publication order includes replays of earlier versions; oracle: stored manifest and payload after every run are those of the model, which replaces the stored version only if number and thisUpdate are both strictly greater; non-trivial = some step publishes a version not strictly newer than the previously published one; distinct by serialised scenario");
    rep.assume("reference model Appendix A; manifest numbers above 2^64 are not generated (Serial is 20 bytes; the comparison code path is the same)");
    ctx.shrink_iters.store(120, std::sync::atomic::Ordering::Relaxed);
    if let Some(v) = replay {
        let t: Tagged<Scenario> = serde_json::from_value(v.clone()).expect("replay");
        if t.sub == "rrdp" {
            run_case(ctx, rep, &t.sub, &t.case, prop_rrdp);
            return;
        }
        run_case(ctx, rep, &t.sub, &t.case, prop);
        return;
    }
    let hp = profile();
    run_prop_par(ctx, rep, "history", ctx.tier.pick(240, 6000), 8, || genome(260).prop_map({
        let hp = hp.clone();
        move |w| history_run(&w, &hp)
    }), prop);
    rep.rule("(rrdp) the same histories with every CA published through one of 2 RRDP repositories with chance 1/2 (deltas between runs carry the replayed / non-increasing manifests), notification failing with chance 3/16 per repository and run, rrdp-fallback in {stale, never, new}; oracle as above over the store path keyed by the CA's rpkiNotify URI; non-trivial = some step publishes a version not strictly newer than the previously published one for a CA published through RRDP, and that CA's repository was updated in some run");
    let mut hp = profile();
    hp.base.rrdp_16 = 8;
    hp.fail_rrdp_16 = 3;
    run_prop_par(ctx, rep, "rrdp", ctx.tier.pick(100, 2500), 8, || (genome(260), rrdp_genome()).prop_map({
        let hp = hp.clone();
        move |(w, r)| history_run_rrdp(&w, &r, &hp)
    }), prop_rrdp);
}

fn prop_rrdp(sc: &Scenario, info: &mut CaseInfo) -> Verdict {
    let j = Judge { id: "C05/rrdp", sound: true, complete: true, store: true, ..Default::default() };
    let (v, seen) = judge_rrdp(&j, sc, info, |_, _| None);
    let mut only_rrdp = sc.clone();
    for ca in only_rrdp.cas.iter_mut() {
        if ca.rrdp.is_none() {
            ca.versions.truncate(1);
        }
    }
    info.nontrivial = has_non_increasing_step(&only_rrdp) && seen.updated;
    for c in history_classes(sc) {
        info.class(c);
    }
    v
}
