//! C05 Fetched manifests never roll back stored data.

use proptest::strategy::Strategy;

use crate::core::*;
use crate::erpki::*;
use crate::erun::*;
use crate::escen::*;

fn profile() -> HistProfile {
    let mut hp = HistProfile::default();
    hp.base.fault_16 = 0;
    hp.base.obj_faults = false;
    hp.base.pp_faults = false;
    hp.base.max_cas = 4;
    hp.incomplete_16 = 0;
    hp.rollback_16 = 7;
    hp.irregular_16 = 8;
    hp.fail_module_16 = 1;
    hp.offline_16 = 1;
    hp.max_steps = 5;
    hp
}

/// History contains a step publishing a version that is not strictly newer (number and thisUpdate)
/// than one published before it.
fn has_non_increasing_step(sc: &Scenario) -> bool {
    for (i, ca) in sc.cas.iter().enumerate() {
        let seq: Vec<usize> = sc.steps.iter().map(|s| s.publish.get(i).copied().unwrap_or(0).min(ca.versions.len().saturating_sub(1))).collect();
        for w in seq.windows(2) {
            if ca.versions.is_empty() || w[0] == w[1] {
                continue;
            }
            let (a, b) = (&ca.versions[w[0]], &ca.versions[w[1]]);
            if !(b.number > a.number && b.this_off > a.this_off) {
                return true;
            }
        }
    }
    false
}

fn prop(sc: &Scenario, info: &mut CaseInfo) -> Verdict {
    let j = Judge { id: "C05", sound: true, complete: true, store: true, ..Default::default() };
    let v = judge(&j, sc, info, |_, _| None);
    info.nontrivial = has_non_increasing_step(sc);
    for c in history_classes(sc) {
        info.class(c);
    }
    v
}

pub fn run(ctx: &Ctx, rep: &mut Report, replay: Option<&serde_json::Value>) {
    rep.rule("E-rpki histories of 2-5 runs of validly signed, complete versions whose (manifestNumber, thisUpdate) pairs are drawn from {increasing, equal number, decreasing number, number up/time down, number down/time up, equal/equal, +1/+1s} with number bases 100, 2^32, 2^63, 2^64-1000, and whose publication order includes replays of earlier versions; oracle: stored manifest and payload after every run are those of the model, which replaces the stored version only if number and thisUpdate are both strictly greater; non-trivial = some step publishes a version not strictly newer than the previously published one; distinct by serialised scenario");
    rep.assume("reference model Appendix A; manifest numbers above 2^64 are not generated (Serial is 20 bytes; the comparison code path is the same)");
    ctx.shrink_iters.store(120, std::sync::atomic::Ordering::Relaxed);
    if let Some(v) = replay {
        let t: Tagged<Scenario> = serde_json::from_value(v.clone()).expect("replay");
        run_case(ctx, rep, &t.sub, &t.case, prop);
        return;
    }
    let hp = profile();
    run_prop_par(ctx, rep, "history", ctx.tier.pick(240, 6000), 8, || genome(260).prop_map({
        let hp = hp.clone();
        move |w| history_run(&w, &hp)
    }), prop);
}
