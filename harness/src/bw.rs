//! Contained execution of code that may abort, exhaust memory or never return (C27):
//! a persistent worker process (`rvchild bytes-worker`) with a single-request allocation cap,
//! a CPU-time budget per case and a wall-clock watchdog in the parent.
//!
//! Protocol (native endian, pipes): request  = op:u8, len:u32, payload
//!                                  response = status:u8, max_alloc:u64, len:u32, message
//! status 0 = decoder returned Ok, 1 = decoder returned an error, 2 = panic (message = panic text),
//!        3 = written by the allocator itself right before `_exit(77)`: a single request of `max_alloc`
//!            bytes exceeded the armed limit, 4 = handler-defined verdict (message explains).

use std::alloc::{GlobalAlloc, Layout, System};
use std::io::{Read, Write};
use std::os::unix::io::AsRawFd;
use std::os::unix::process::ExitStatusExt;
use std::path::{Path, PathBuf};
use std::process::{Child, ChildStdin, ChildStdout, Command, Stdio};
use std::sync::atomic::{AtomicI32, AtomicUsize, Ordering};
use std::sync::Mutex;
use std::time::{Duration, Instant};

//------------ Tracking allocator (installed by rvchild only) -----------------------------------

pub struct TrackAlloc;

static LIMIT: AtomicUsize = AtomicUsize::new(usize::MAX);
static MAX_REQ: AtomicUsize = AtomicUsize::new(0);
static CAP_FD: AtomicI32 = AtomicI32::new(-1);

#[inline]
fn note(size: usize) {
    if size >= 4096 {
        MAX_REQ.fetch_max(size, Ordering::Relaxed);
        if size > LIMIT.load(Ordering::Relaxed) {
            cap_exit(size);
        }
    }
}

#[cold]
fn cap_exit(size: usize) -> ! {
    let fd = CAP_FD.load(Ordering::Relaxed);
    if fd >= 0 {
        let mut frame = [0u8; 13];
        frame[0] = 3;
        frame[1..9].copy_from_slice(&(size as u64).to_ne_bytes());
        unsafe {
            libc::write(fd, frame.as_ptr() as *const libc::c_void, frame.len());
        }
    }
    unsafe { libc::_exit(77) }
}

unsafe impl GlobalAlloc for TrackAlloc {
    unsafe fn alloc(&self, l: Layout) -> *mut u8 {
        note(l.size());
        System.alloc(l)
    }
    unsafe fn alloc_zeroed(&self, l: Layout) -> *mut u8 {
        note(l.size());
        System.alloc_zeroed(l)
    }
    unsafe fn dealloc(&self, p: *mut u8, l: Layout) {
        System.dealloc(p, l)
    }
    unsafe fn realloc(&self, p: *mut u8, l: Layout, new_size: usize) -> *mut u8 {
        note(new_size);
        System.realloc(p, l, new_size)
    }
}

/// Arms the cap for one case and resets the high-water mark.
pub fn arm(limit: usize) {
    MAX_REQ.store(0, Ordering::Relaxed);
    LIMIT.store(limit, Ordering::Relaxed);
}
pub fn disarm() -> usize {
    LIMIT.store(usize::MAX, Ordering::Relaxed);
    MAX_REQ.load(Ordering::Relaxed)
}

//------------ Child side ------------------------------------------------------------------------

static PANIC_TEXT: Mutex<String> = Mutex::new(String::new());

fn set_rlimit(res: libc::__rlimit_resource_t, soft: u64, hard: u64) {
    let lim = libc::rlimit { rlim_cur: soft as libc::rlim_t, rlim_max: hard as libc::rlim_t };
    unsafe {
        libc::setrlimit(res, &lim);
    }
}

fn cpu_seconds() -> u64 {
    let mut ru: libc::rusage = unsafe { std::mem::zeroed() };
    unsafe {
        libc::getrusage(libc::RUSAGE_SELF, &mut ru);
    }
    (ru.ru_utime.tv_sec + ru.ru_stime.tv_sec) as u64
}

/// What a handler reports for one case.
pub struct Handled {
    pub status: u8,
    pub msg: String,
}

/// Serves requests on stdin/stdout until EOF. `handler(op, payload)` runs with panics caught.
/// `capped`: enforce the allocation limit returned by `limit_of(op, payload)`;
/// `cpu_budget`: seconds of CPU time one case may use before SIGXCPU ends the worker.
pub fn serve(handler: fn(u8, &[u8]) -> Handled, limit_of: fn(u8, &[u8]) -> usize, capped: bool, cpu_budget: u64) {
    set_rlimit(libc::RLIMIT_CORE, 0, 0);
    set_rlimit(libc::RLIMIT_AS, 6 << 30, 6 << 30);
    CAP_FD.store(1, Ordering::Relaxed);
    std::panic::set_hook(Box::new(|info| {
        if let Ok(mut t) = PANIC_TEXT.lock() {
            *t = info.to_string();
        }
    }));
    let mut stdin = std::io::stdin().lock();
    let mut out = unsafe { <std::fs::File as std::os::unix::io::FromRawFd>::from_raw_fd(1) };
    let mut payload = Vec::new();
    loop {
        let mut head = [0u8; 5];
        if stdin.read_exact(&mut head).is_err() {
            break;
        }
        let op = head[0];
        let len = u32::from_ne_bytes(head[1..5].try_into().unwrap()) as usize;
        payload.clear();
        payload.resize(len, 0);
        if stdin.read_exact(&mut payload).is_err() {
            break;
        }
        set_rlimit(libc::RLIMIT_CPU, cpu_seconds() + cpu_budget + 1, libc::RLIM_INFINITY as u64);
        let limit = if capped { limit_of(op, &payload) } else { usize::MAX };
        arm(limit);
        let res = std::panic::catch_unwind(std::panic::AssertUnwindSafe(|| handler(op, &payload)));
        let max = disarm();
        let (status, msg) = match res {
            Ok(h) => (h.status, h.msg),
            Err(_) => (2u8, PANIC_TEXT.lock().map(|t| t.clone()).unwrap_or_default()),
        };
        let msg = msg.as_bytes();
        let mut frame = Vec::with_capacity(13 + msg.len());
        frame.push(status);
        frame.extend_from_slice(&(max as u64).to_ne_bytes());
        frame.extend_from_slice(&(msg.len() as u32).to_ne_bytes());
        frame.extend_from_slice(msg);
        if out.write_all(&frame).is_err() {
            break;
        }
    }
    std::process::exit(0);
}

//------------ Parent side -----------------------------------------------------------------------

#[derive(Clone, Debug, PartialEq, Eq)]
pub enum Outcome {
    /// The handler returned (status 0 ok / 1 reported error / 2 panic / 4 handler verdict).
    Done { status: u8, max_alloc: u64, msg: String },
    /// A single allocation request above the limit was attempted; the worker stopped itself.
    AllocCap { size: u64 },
    /// The worker died: signal or exit code, plus the tail of its stderr.
    Died { signal: Option<i32>, code: Option<i32>, stderr: String },
    /// No answer within the wall-clock watchdog (worker killed). Inconclusive by itself.
    Timeout,
}

pub struct Worker {
    exe: PathBuf,
    args: Vec<String>,
    dir: PathBuf,
    child: Option<(Child, ChildStdin, ChildStdout)>,
    pub spawns: u64,
    pub wall_timeout: Duration,
}

pub fn rvchild_path() -> PathBuf {
    let me = std::env::current_exe().expect("current exe");
    me.parent().expect("exe dir").join("rvchild")
}

impl Worker {
    /// `dir`: scratch directory (stderr log lives there).
    pub fn new(dir: &Path, args: &[&str]) -> Self {
        let exe = rvchild_path();
        if !exe.exists() {
            eprintln!("worker binary {} missing", exe.display());
            std::process::exit(2);
        }
        Worker { exe, args: args.iter().map(|s| s.to_string()).collect(), dir: dir.to_path_buf(), child: None, spawns: 0, wall_timeout: Duration::from_secs(30) }
    }

    fn stderr_path(&self) -> PathBuf {
        self.dir.join("worker-stderr.log")
    }

    fn ensure(&mut self) {
        if self.child.is_some() {
            return;
        }
        let errf = std::fs::File::create(self.stderr_path()).expect("stderr log");
        let mut child = Command::new(&self.exe)
            .args(&self.args)
            .stdin(Stdio::piped())
            .stdout(Stdio::piped())
            .stderr(Stdio::from(errf))
            .spawn()
            .unwrap_or_else(|e| {
                eprintln!("cannot spawn {}: {}", self.exe.display(), e);
                std::process::exit(2)
            });
        let stdin = child.stdin.take().unwrap();
        let stdout = child.stdout.take().unwrap();
        self.child = Some((child, stdin, stdout));
        self.spawns += 1;
    }

    fn reap(&mut self, kill: bool) -> (Option<i32>, Option<i32>, String) {
        let mut res = (None, None, String::new());
        if let Some((mut child, stdin, stdout)) = self.child.take() {
            drop(stdin);
            drop(stdout);
            if kill {
                let _ = child.kill();
            }
            if let Ok(st) = child.wait() {
                res.0 = st.signal();
                res.1 = st.code();
            }
            let err = std::fs::read(self.stderr_path()).unwrap_or_default();
            let tail = if err.len() > 600 { &err[err.len() - 600..] } else { &err[..] };
            res.2 = String::from_utf8_lossy(tail).trim().to_string();
        }
        res
    }

    /// Reads exactly `buf.len()` bytes before `deadline`. Ok(false) = EOF, Err = timeout.
    fn read_deadline(out: &mut ChildStdout, buf: &mut [u8], deadline: Instant) -> Result<bool, ()> {
        let fd = out.as_raw_fd();
        let mut got = 0;
        while got < buf.len() {
            let now = Instant::now();
            if now >= deadline {
                return Err(());
            }
            let ms = (deadline - now).as_millis().min(i32::MAX as u128) as i32;
            let mut pfd = libc::pollfd { fd, events: libc::POLLIN, revents: 0 };
            let r = unsafe { libc::poll(&mut pfd, 1, ms.max(1)) };
            if r == 0 {
                return Err(());
            }
            if r < 0 {
                continue;
            }
            match out.read(&mut buf[got..]) {
                Ok(0) => return Ok(false),
                Ok(n) => got += n,
                Err(e) if e.kind() == std::io::ErrorKind::Interrupted => {}
                Err(_) => return Ok(false),
            }
        }
        Ok(true)
    }

    pub fn exec(&mut self, op: u8, payload: &[u8]) -> Outcome {
        self.ensure();
        let deadline = Instant::now() + self.wall_timeout;
        let (_, stdin, stdout) = self.child.as_mut().unwrap();
        let mut req = Vec::with_capacity(5 + payload.len());
        req.push(op);
        req.extend_from_slice(&(payload.len() as u32).to_ne_bytes());
        req.extend_from_slice(payload);
        let wrote = stdin.write_all(&req).and_then(|_| stdin.flush()).is_ok();
        let mut head = [0u8; 13];
        let read = if wrote { Self::read_deadline(stdout, &mut head, deadline) } else { Ok(false) };
        match read {
            Err(()) => {
                self.reap(true);
                Outcome::Timeout
            }
            Ok(false) => {
                let (signal, code, stderr) = self.reap(false);
                Outcome::Died { signal, code, stderr }
            }
            Ok(true) => {
                let status = head[0];
                let max_alloc = u64::from_ne_bytes(head[1..9].try_into().unwrap());
                let len = u32::from_ne_bytes(head[9..13].try_into().unwrap()) as usize;
                if status == 3 {
                    self.reap(false);
                    return Outcome::AllocCap { size: max_alloc };
                }
                let mut msg = vec![0u8; len];
                match Self::read_deadline(stdout, &mut msg, deadline) {
                    Ok(true) => Outcome::Done { status, max_alloc, msg: String::from_utf8_lossy(&msg).into_owned() },
                    Ok(false) => {
                        let (signal, code, stderr) = self.reap(false);
                        Outcome::Died { signal, code, stderr }
                    }
                    Err(()) => {
                        self.reap(true);
                        Outcome::Timeout
                    }
                }
            }
        }
    }
}

impl Drop for Worker {
    fn drop(&mut self) {
        self.reap(true);
    }
}
