//! Shared helpers for driving `SharedHistory` (C13, C14, C33, C34): configurations through the
//! real option parser, generated data sets installed as SLURM assertions, RTR (`PayloadSource`)
//! and HTTP (`/json`, `/json-delta`) observations, notification probes, history generators.

use std::collections::BTreeSet;
use std::future::Future;
use std::net::IpAddr;
use std::path::{Path, PathBuf};
use std::str::FromStr;
use std::sync::Arc;
use std::task::{Context, Poll};

use proptest::prelude::*;
use routinator::config::Config;
use routinator::http::verif::{Handler, PlainResponse};
use routinator::metrics::{Metrics, RtrServerMetrics};
use routinator::payload::{SharedHistory, ValidationReport};
use routinator::slurm::LocalExceptions;
use rpki::resources::asn::Asn;
use rpki::rtr::payload::Action;
use rpki::rtr::server::{NotifyReceiver, NotifySender, PayloadDiff, PayloadSet, PayloadSource};
use rpki::rtr::{Serial, State};
use rpki::slurm::{Base64KeyInfo, BgpsecAssertion, LocallyAddedAssertions, PrefixAssertion, SlurmFile, ValidationOutputFilters};
use serde_json::Value;

use crate::pay::*;

//------------------------------------------------------------------------------------------
// Configuration

/// A scratch directory with an empty TAL directory and a cache directory; configurations are
/// produced by routinator's own parsers (config file + command line).
pub struct Env {
    pub dir: tempfile::TempDir,
}

impl Env {
    pub fn new(dir: tempfile::TempDir) -> Self {
        std::fs::create_dir_all(dir.path().join("tals")).expect("tals dir");
        std::fs::create_dir_all(dir.path().join("cache")).expect("cache dir");
        Env { dir }
    }

    pub fn path(&self) -> &Path {
        self.dir.path()
    }

    /// Builds a config from a config file with the extra lines `file_lines` and the extra
    /// (server) command line arguments `cli`. Everything network-related is switched off and no
    /// TAL is configured, so an `Engine` over it validates nothing in about a millisecond.
    pub fn config(&self, file_lines: &[String], cli: &[String]) -> Result<Config, String> {
        let conf: PathBuf = self.path().join("routinator.conf");
        let mut text = format!(
            "repository-dir = {:?}\nno-rir-tals = true\nextra-tals-dir = {:?}\ndisable-rsync = true\ndisable-rrdp = true\n",
            self.path().join("cache").display().to_string(),
            self.path().join("tals").display().to_string()
        );
        for l in file_lines {
            text.push_str(l);
            text.push('\n');
        }
        std::fs::write(&conf, text).map_err(|e| e.to_string())?;
        let mut args: Vec<String> = vec!["routinator".into(), "--config".into(), conf.display().to_string()];
        args.extend(cli.iter().cloned());
        let app = Config::server_args(Config::config_args(clap::Command::new("routinator")));
        let matches = app.try_get_matches_from(args).map_err(|e| format!("command line rejected: {}", e.kind()))?;
        let mut config = Config::from_arg_matches(&matches, self.path()).map_err(|_| "config file rejected".to_string())?;
        config.apply_server_arg_matches(&matches, self.path()).map_err(|_| "server arguments rejected".to_string())?;
        Ok(config)
    }
}

//------------------------------------------------------------------------------------------
// Data sets -> served snapshots

/// The local exceptions (SLURM assertions) that assert exactly the origins and router keys of
/// `set`. ASPAs cannot be asserted (routinator ignores `aspaAssertions`), so they must be absent.
pub fn exceptions_for(set: &MSet) -> LocalExceptions {
    assert!(set.aspas.is_empty(), "ASPAs cannot be installed through local exceptions");
    let prefix: Vec<PrefixAssertion> = set
        .origins
        .iter()
        .map(|o| {
            let r = o.to_rpki(false);
            PrefixAssertion::new(r.prefix, r.asn, None)
        })
        .collect();
    let bgpsec: Vec<BgpsecAssertion> = set
        .keys
        .iter()
        .map(|k| {
            let r = k.to_rpki();
            BgpsecAssertion::new(r.asn, r.key_identifier, Base64KeyInfo::try_from(k.info.clone()).expect("key info"), None)
        })
        .collect();
    let file = SlurmFile::new(ValidationOutputFilters::new(Vec::new(), Vec::new()), LocallyAddedAssertions::new(prefix, bgpsec));
    LocalExceptions::from_json(&file.to_string(), false).expect("generated SLURM parses")
}

/// One validation result with data set `set`: `update` then `mark_update_done`, as the server
/// loop does. Returns what `update` returned.
pub fn install(history: &SharedHistory, config: &Config, set: &MSet) -> bool {
    let res = history.update(ValidationReport::new(config), &exceptions_for(set), Metrics::new());
    history.mark_update_done();
    res
}

/// As `install`, for data sets that may contain ASPAs: those are pushed through a real
/// `ValidationReport` publication point (`config.enable_aspa` must be on), origins and router
/// keys stay SLURM assertions.
pub fn install_full(kit: &crate::fmtx::Kit, history: &SharedHistory, config: &Config, set: &MSet) -> bool {
    let aspas: Vec<MAspa> = set.aspas.iter().map(|(c, p)| MAspa { customer: *c, providers: p.clone() }).collect();
    let (report, metrics) = kit.report_with_aspas(config, &aspas);
    let mut rest = set.clone();
    rest.aspas.clear();
    let res = history.update(report, &exceptions_for(&rest), metrics);
    history.mark_update_done();
    res
}

/// Histories as `history_strategy`, where every data set additionally carries, for each of two
/// customer ASNs, no ASPA or one of four provider sets — so the same customer's ASPA is
/// announced, updated and withdrawn repeatedly along a history.
pub fn history_strategy_aspa(min: usize, max: usize, universe: usize, same_pct: u32) -> impl Strategy<Value = Vec<MSet>> {
    (
        prop::collection::vec(slurm_item_strategy(), 1..=universe),
        prop::collection::vec((0u32..100, prop::collection::vec(any::<bool>(), universe), 0u8..5, prop_oneof![3 => Just(0u8), 2 => 0u8..5]), min..=max),
    )
        .prop_map(move |(uni, steps)| {
            const PROVIDERS: [&[u32]; 4] = [&[64510], &[64510, 64511], &[64511, 64512], &[65000]];
            let mut res: Vec<MSet> = Vec::with_capacity(steps.len());
            for (roll, mask, a0, a1) in steps {
                if roll < same_pct && !res.is_empty() {
                    let last = res.last().unwrap().clone();
                    res.push(last);
                } else {
                    let mut set = MSet::from_items(uni.iter().zip(mask.iter()).filter(|(_, m)| **m).map(|(i, _)| i.clone()));
                    for (customer, sel) in [(64496u32, a0), (64497u32, a1)] {
                        if sel > 0 {
                            set.aspas.insert(customer, PROVIDERS[sel as usize - 1].to_vec());
                        }
                    }
                    res.push(set);
                }
            }
            res
        })
}

pub fn served_set(history: &SharedHistory) -> Option<Result<MSet, String>> {
    history.read().current().map(|s| MSet::from_snapshot(&s))
}

pub fn serial_of(history: &SharedHistory) -> u32 {
    u32::from(history.read().serial())
}

//------------------------------------------------------------------------------------------
// RTR-side observation (PayloadSource)

pub struct RtrDiff {
    pub session: u16,
    pub serial: u32,
    pub actions: Vec<(MItem, bool)>,
}

pub fn rtr_diff(history: &SharedHistory, session: u16, serial: u32) -> Option<RtrDiff> {
    let (state, mut diff) = history.diff(State::from_parts(session, Serial::from(serial)))?;
    let mut actions = Vec::new();
    while let Some((p, a)) = diff.next() {
        actions.push((MItem::from_ref(p), matches!(a, Action::Announce)));
    }
    Some(RtrDiff { session: state.session(), serial: u32::from(state.serial()), actions })
}

pub fn rtr_full(history: &SharedHistory) -> (u16, u32, Vec<MItem>) {
    let (state, mut set) = history.full();
    let mut items = Vec::new();
    while let Some(p) = set.next() {
        items.push(MItem::from_ref(p));
    }
    (state.session(), u32::from(state.serial()), items)
}

pub fn rtr_notify(history: &SharedHistory) -> (u16, u32) {
    let s = history.notify();
    (s.session(), u32::from(s.serial()))
}

//------------------------------------------------------------------------------------------
// HTTP-side observation

pub struct Http {
    rt: tokio::runtime::Runtime,
}

impl Http {
    pub fn new() -> Self {
        Http { rt: tokio::runtime::Builder::new_current_thread().enable_all().build().expect("runtime") }
    }

    pub fn handler(&self, config: &Config, history: &SharedHistory, notify: &NotifySender) -> Handler {
        Handler::new(config, history.clone(), Arc::new(RtrServerMetrics::new(false)), notify.clone())
    }

    pub fn get(&self, handler: &Handler, uri: &str, headers: &[(String, String)]) -> PlainResponse {
        self.rt.block_on(handler.request("GET", uri, headers))
    }
}

impl Default for Http {
    fn default() -> Self {
        Self::new()
    }
}

/// A parsed `/json-delta` document.
#[derive(Debug, Clone)]
pub struct DeltaDoc {
    pub reset: bool,
    pub session: u64,
    pub serial: u32,
    pub from_serial: Option<u32>,
    pub announced: Vec<MItem>,
    pub withdrawn: Vec<MItem>,
}

impl DeltaDoc {
    pub fn actions(&self) -> Vec<(MItem, bool)> {
        self.announced.iter().cloned().map(|i| (i, true)).chain(self.withdrawn.iter().cloned().map(|i| (i, false))).collect()
    }
}

fn parse_asn(v: &Value) -> Result<u32, String> {
    let s = v.as_str().ok_or("asn is not a string")?;
    Asn::from_str(s).map(|a| a.into_u32()).map_err(|_| format!("bad asn {:?}", s))
}

fn hex_decode(s: &str) -> Result<Vec<u8>, String> {
    if s.len() % 2 != 0 {
        return Err(format!("odd hex {:?}", s));
    }
    (0..s.len()).step_by(2).map(|i| u8::from_str_radix(&s[i..i + 2], 16).map_err(|_| format!("bad hex {:?}", s))).collect()
}

pub fn parse_json_item(v: &Value) -> Result<MItem, String> {
    let ty = v.get("type").and_then(|t| t.as_str()).ok_or("item without type")?;
    match ty {
        "routeOrigin" => {
            let asn = parse_asn(v.get("asn").ok_or("no asn")?)?;
            let prefix = v.get("prefix").and_then(|p| p.as_str()).ok_or("no prefix")?;
            let (addr, len) = prefix.split_once('/').ok_or("prefix without /")?;
            let addr = IpAddr::from_str(addr).map_err(|_| format!("bad address {:?}", addr))?;
            let len: u8 = len.parse().map_err(|_| format!("bad length {:?}", len))?;
            let max = v.get("maxLength").and_then(|m| m.as_u64()).ok_or("no maxLength")? as u8;
            Ok(MItem::Origin(MOrigin { addr, len, max_len: max, asn }))
        }
        "routerKey" => {
            let asn = parse_asn(v.get("asn").ok_or("no asn")?)?;
            let ski = hex_decode(v.get("keyIdentifier").and_then(|p| p.as_str()).ok_or("no keyIdentifier")?)?;
            let ski: [u8; 20] = ski.try_into().map_err(|_| "keyIdentifier is not 20 bytes".to_string())?;
            let info = v.get("keyInfo").and_then(|p| p.as_str()).ok_or("no keyInfo")?;
            let info = Base64KeyInfo::from_str(info).map_err(|_| format!("bad keyInfo {:?}", info))?;
            let info: bytes::Bytes = info.into();
            Ok(MItem::Key(MKey { ski, asn, info: info.to_vec() }))
        }
        "aspa" => {
            let customer = parse_asn(v.get("customerAsn").ok_or("no customerAsn")?)?;
            let mut providers = BTreeSet::new();
            for p in v.get("providerAsns").and_then(|p| p.as_array()).ok_or("no providerAsns")? {
                providers.insert(parse_asn(p)?);
            }
            Ok(MItem::Aspa(MAspa { customer, providers: providers.into_iter().collect() }))
        }
        other => Err(format!("unknown item type {:?}", other)),
    }
}

pub fn parse_delta_doc(body: &[u8]) -> Result<DeltaDoc, String> {
    let v: Value = serde_json::from_slice(body).map_err(|e| format!("body is not JSON: {}", e))?;
    let reset = v.get("reset").and_then(|r| r.as_bool()).ok_or("no reset member")?;
    let session = v.get("session").and_then(|r| r.as_str()).ok_or("no session member")?.parse::<u64>().map_err(|_| "bad session")?;
    let serial = v.get("serial").and_then(|r| r.as_u64()).ok_or("no serial member")? as u32;
    let from_serial = v.get("fromSerial").and_then(|r| r.as_u64()).map(|s| s as u32);
    let list = |name: &str| -> Result<Vec<MItem>, String> {
        match v.get(name) {
            None => Ok(Vec::new()),
            Some(l) => l.as_array().ok_or(format!("{} is not an array", name))?.iter().map(parse_json_item).collect(),
        }
    };
    Ok(DeltaDoc { reset, session, serial, from_serial, announced: list("announced")?, withdrawn: list("withdrawn")? })
}

pub fn get_delta(http: &Http, handler: &Handler, session: u64, serial: u32) -> Result<DeltaDoc, String> {
    let resp = http.get(handler, &format!("/json-delta?session={}&serial={}", session, serial), &[]);
    if resp.status != 200 {
        return Err(format!("status {}", resp.status));
    }
    parse_delta_doc(&resp.body())
}

//------------------------------------------------------------------------------------------
// Notifications

/// Polls `recv()` once: true = a notification was pending (and is now consumed).
pub fn poll_notification(rx: &mut NotifyReceiver) -> bool {
    let waker = futures::task::noop_waker();
    let mut cx = Context::from_waker(&waker);
    let fut = rx.recv();
    let mut fut = std::pin::pin!(fut);
    matches!(fut.as_mut().poll(&mut cx), Poll::Ready(()))
}

//------------------------------------------------------------------------------------------
// Generators

/// Items that can be installed through local exceptions: origins and router keys.
pub fn slurm_item_strategy() -> impl Strategy<Value = MItem> {
    prop_oneof![
        3 => origin_strategy().prop_map(MItem::Origin),
        1 => key_strategy().prop_map(MItem::Key),
    ]
}

/// A history of `min..=max` validation results over one universe of at most `universe` items.
/// Each result after the first repeats its predecessor with probability `same_pct` %.
pub fn history_strategy(min: usize, max: usize, universe: usize, same_pct: u32) -> impl Strategy<Value = Vec<MSet>> {
    (
        prop::collection::vec(slurm_item_strategy(), 1..=universe),
        prop::collection::vec((0u32..100, prop::collection::vec(any::<bool>(), universe)), min..=max),
    )
        .prop_map(move |(uni, steps)| {
            let mut res: Vec<MSet> = Vec::with_capacity(steps.len());
            for (roll, mask) in steps {
                if roll < same_pct && !res.is_empty() {
                    let last = res.last().unwrap().clone();
                    res.push(last);
                } else {
                    res.push(MSet::from_items(uni.iter().zip(mask.iter()).filter(|(_, m)| **m).map(|(i, _)| i.clone())));
                }
            }
            res
        })
}

/// Number of data-set changes in a history (the serial the model expects after it).
pub fn changes(sets: &[MSet]) -> usize {
    sets.windows(2).filter(|w| w[0] != w[1]).count()
}

//------------------------------------------------------------------------------------------
// Process-wide initialisation needed before an `Engine` is used

/// `Process::init()` once per process (installs routinator's logger), then silences logging.
pub fn init_process() {
    static ONCE: std::sync::Once = std::sync::Once::new();
    ONCE.call_once(|| {
        routinator::process::Process::init().expect("process init");
        log::set_max_level(log::LevelFilter::Off);
    });
}
