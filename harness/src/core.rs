//! Shared plumbing: context, report/evidence, proptest driver, known findings, replays.

use std::collections::{BTreeMap, HashSet};
use std::fmt::Debug;
use std::hash::{Hash, Hasher};
use std::path::{Path, PathBuf};
use std::sync::atomic::{AtomicBool, AtomicU64, Ordering};
use std::sync::{Arc, Mutex};
use std::time::Instant;

use proptest::strategy::{Strategy, ValueTree};
use proptest::test_runner::{Config, RngAlgorithm, RngSeed, TestCaseError, TestError, TestRng, TestRunner};
use serde::de::DeserializeOwned;
use serde::Serialize;
use serde_json::{json, Value};

/// Root of the verification tree (override with env VERIF_DIR when working in a git worktree).
pub fn verif_dir() -> PathBuf {
    PathBuf::from(std::env::var("VERIF_DIR").unwrap_or_else(|_| "/verif".to_string()))
}

#[derive(Clone, Copy, Debug, PartialEq, Eq)]
pub enum Tier {
    Quick,
    Thorough,
}

impl Tier {
    pub fn name(self) -> &'static str {
        match self {
            Tier::Quick => "quick",
            Tier::Thorough => "thorough",
        }
    }
    /// Picks the quick or thorough value.
    pub fn pick<T>(self, quick: T, thorough: T) -> T {
        match self {
            Tier::Quick => quick,
            Tier::Thorough => thorough,
        }
    }
}

/// How a case ended.
#[derive(Clone, Debug)]
pub enum Verdict {
    /// Property held on this case.
    Pass,
    /// Case could not be judged (time guard etc.); counted, never a violation.
    Dropped(String),
    /// Property violated. `key` is the exact signature of the failing shape (matched against
    /// known_findings.json), `msg` the observed vs expected.
    Fail { key: String, msg: String },
}

impl Verdict {
    pub fn fail(key: impl Into<String>, msg: impl Into<String>) -> Self {
        Verdict::Fail { key: key.into(), msg: msg.into() }
    }
}

/// Per-case bookkeeping filled by the property function.
#[derive(Default, Debug)]
pub struct CaseInfo {
    pub nontrivial: bool,
    pub classes: Vec<String>,
}

impl CaseInfo {
    pub fn class(&mut self, c: impl Into<String>) {
        self.classes.push(c.into());
    }
    pub fn nt(&mut self, yes: bool) {
        if yes {
            self.nontrivial = true;
        }
    }
}

#[derive(Clone, Debug, serde::Deserialize)]
pub struct KnownFinding {
    pub property: String,
    pub key: String,
    pub status: String,
    #[serde(default)]
    pub commit: Option<String>,
    pub what: String,
}

/// Is `key` listed with status "known" (i.e. unfixed) for `property` in known_findings.json?
/// Checks use this to exclude a known failing shape from the bulk search only while it is listed:
/// once the entry is "fixed" (or removed) the shape is searched again like any other.
pub fn is_listed_known(property: &str, key: &str) -> bool {
    static LIST: std::sync::OnceLock<Vec<KnownFinding>> = std::sync::OnceLock::new();
    let list = LIST.get_or_init(|| {
        std::fs::read(verif_dir().join("known_findings.json")).ok().and_then(|d| serde_json::from_slice(&d).ok()).unwrap_or_default()
    });
    list.iter().any(|k| k.property == property && k.key == key && k.status == "known")
}

pub struct Ctx {
    pub id: String,
    pub tier: Tier,
    pub seed: u64,
    pub known: Vec<KnownFinding>,
    pub start: Instant,
    pub strict: bool,
    /// Upper bound on shrink iterations (lower it for expensive properties).
    pub shrink_iters: std::sync::atomic::AtomicU32,
}

impl Ctx {
    pub fn new(id: &str, tier: Tier) -> Self {
        let seed = std::env::var("VERIF_SEED").ok().and_then(|s| s.parse::<u64>().ok()).unwrap_or(20260921);
        let path = verif_dir().join("known_findings.json");
        let known: Vec<KnownFinding> = match std::fs::read(&path) {
            Ok(data) => serde_json::from_slice(&data).unwrap_or_else(|e| {
                eprintln!("cannot parse {}: {}", path.display(), e);
                std::process::exit(2)
            }),
            Err(_) => Vec::new(),
        };
        Ctx { id: id.into(), tier, seed, known, start: Instant::now(), strict: false, shrink_iters: std::sync::atomic::AtomicU32::new(4096) }
    }

    /// Is `key` a listed, unfixed finding of this property?
    pub fn known_key(&self, key: &str) -> Option<&KnownFinding> {
        self.known.iter().find(|k| k.property == self.id && k.status == "known" && k.key == key)
    }

    pub fn seed_for(&self, salt: &str) -> u64 {
        let mut h = std::collections::hash_map::DefaultHasher::new();
        // DefaultHasher::new() uses fixed keys -> deterministic.
        self.id.hash(&mut h);
        salt.hash(&mut h);
        self.seed.hash(&mut h);
        h.finish()
    }

    pub fn scratch(&self) -> tempfile::TempDir {
        let base = if Path::new("/dev/shm").is_dir() { "/dev/shm" } else { "/tmp" };
        tempfile::Builder::new().prefix(&format!("rv-{}-", self.id)).tempdir_in(base).expect("scratch dir")
    }
}

#[derive(Default)]
pub struct Report {
    pub evaluations: u64,
    pub distinct: HashSet<u64>,
    pub distinct_nontrivial: HashSet<u64>,
    pub classes: BTreeMap<String, u64>,
    pub samples: Vec<Value>,
    pub dropped: BTreeMap<String, u64>,
    pub excluded_known: BTreeMap<String, u64>,
    pub known_hits: BTreeMap<String, u64>,
    pub violations: Vec<(String, String, PathBuf)>,
    pub rules: Vec<String>,
    pub assumptions: Vec<String>,
    pub extra: BTreeMap<String, Value>,
    pub exhaustive: Option<bool>,
    pub level: String,
    printed_known: HashSet<String>,
}

pub type SharedReport = Arc<Mutex<Report>>;

impl Report {
    pub fn new() -> Self {
        Report { level: "exploration".into(), ..Default::default() }
    }

    pub fn rule(&mut self, r: impl Into<String>) {
        self.rules.push(r.into());
    }
    pub fn assume(&mut self, r: impl Into<String>) {
        self.assumptions.push(r.into());
    }
    pub fn count_class(&mut self, c: &str) {
        *self.classes.entry(c.to_string()).or_default() += 1;
    }
    pub fn sample(&mut self, v: Value) {
        if self.samples.len() < 5 {
            self.samples.push(v);
        }
    }
    pub fn exclude_known(&mut self, key: &str) {
        *self.excluded_known.entry(key.to_string()).or_default() += 1;
    }

    /// Records a case outcome that was produced outside the proptest driver (directed cases,
    /// enumerations). Returns true if the run may continue.
    pub fn record<T: Serialize + Debug>(&mut self, ctx: &Ctx, case: &T, info: &CaseInfo, verdict: &Verdict) {
        let h = hash_case(case);
        self.evaluations += 1;
        self.distinct.insert(h);
        if info.nontrivial {
            self.distinct_nontrivial.insert(h);
        }
        for c in &info.classes {
            self.count_class(c);
        }
        match verdict {
            Verdict::Pass => {
                if info.nontrivial && self.samples.len() < 4 {
                    self.samples.push(serde_json::to_value(case).unwrap_or(Value::Null));
                }
            }
            Verdict::Dropped(why) => {
                *self.dropped.entry(why.clone()).or_default() += 1;
            }
            Verdict::Fail { key, msg } => {
                self.failure(ctx, case, key, msg);
            }
        }
    }

    /// Handles a failing case: known finding or violation (writes the replay file).
    pub fn failure<T: Serialize + Debug>(&mut self, ctx: &Ctx, case: &T, key: &str, msg: &str) {
        if !ctx.strict {
            if let Some(k) = ctx.known_key(key) {
                *self.known_hits.entry(key.to_string()).or_default() += 1;
                if self.printed_known.insert(key.to_string()) {
                    println!("KNOWN-FINDING: property={} key={} {}", ctx.id, key, k.what);
                }
                return;
            }
        }
        let replay = write_replay(ctx, case, key, msg);
        println!("VIOLATION property={} replay={}", ctx.id, replay.display());
        println!("  key={} :: {}", key, truncate(msg, 2000));
        self.violations.push((key.to_string(), msg.to_string(), replay));
    }

    pub fn violated(&self) -> bool {
        !self.violations.is_empty()
    }
}

pub fn truncate(s: &str, n: usize) -> String {
    if s.len() <= n {
        s.to_string()
    } else {
        let mut end = n;
        while !s.is_char_boundary(end) {
            end -= 1;
        }
        format!("{}…[{} bytes]", &s[..end], s.len())
    }
}

pub fn hash_case<T: Serialize + Debug>(case: &T) -> u64 {
    let mut h = std::collections::hash_map::DefaultHasher::new();
    match serde_json::to_string(case) {
        Ok(s) => s.hash(&mut h),
        Err(_) => format!("{:?}", case).hash(&mut h),
    }
    h.finish()
}

pub fn write_replay<T: Serialize + Debug>(ctx: &Ctx, case: &T, key: &str, msg: &str) -> PathBuf {
    let dir = verif_dir().join("replays");
    let _ = std::fs::create_dir_all(&dir);
    let h = hash_case(case);
    let path = dir.join(format!("{}-{:016x}.json", ctx.id, h));
    let doc = json!({
        "property": ctx.id,
        "key": key,
        "seed": ctx.seed,
        "tier": ctx.tier.name(),
        "message": truncate(msg, 20000),
        "case": serde_json::to_value(case).unwrap_or_else(|_| Value::String(format!("{:?}", case))),
    });
    let _ = std::fs::write(&path, serde_json::to_vec_pretty(&doc).unwrap());
    path
}

/// Loads the `case` of a replay file. Returns (sub-check name, case).
pub fn load_replay<T: DeserializeOwned>(path: &Path) -> Result<T, String> {
    let data = std::fs::read(path).map_err(|e| format!("{}: {}", path.display(), e))?;
    let doc: Value = serde_json::from_slice(&data).map_err(|e| e.to_string())?;
    let case = doc.get("case").cloned().ok_or("replay file has no case")?;
    serde_json::from_value(case).map_err(|e| format!("replay case does not decode: {}", e))
}

pub fn replay_value(path: &Path) -> Result<Value, String> {
    let data = std::fs::read(path).map_err(|e| format!("{}: {}", path.display(), e))?;
    let doc: Value = serde_json::from_slice(&data).map_err(|e| e.to_string())?;
    doc.get("case").cloned().ok_or_else(|| "replay file has no case".to_string())
}

/// Wraps a case with the name of the sub-check that owns it, so replay can dispatch.
#[derive(Serialize, serde::Deserialize, Debug, Clone)]
pub struct Tagged<T> {
    pub sub: String,
    pub case: T,
}

/// Drives `prop` over `cases` values of `strategy` with a fixed seed, shrinking the first
/// unknown failure. Known findings do not stop the search.
pub fn run_prop<T, S, F>(ctx: &Ctx, rep: &mut Report, sub: &str, cases: u32, strategy: S, prop: F)
where
    T: Serialize + Debug + Clone,
    S: Strategy<Value = T>,
    F: Fn(&T, &mut CaseInfo) -> Verdict,
{
    run_prop_salted(ctx, rep, sub, sub, cases, strategy, prop)
}

pub fn run_prop_salted<T, S, F>(ctx: &Ctx, rep: &mut Report, sub: &str, salt: &str, cases: u32, strategy: S, prop: F)
where
    T: Serialize + Debug + Clone,
    S: Strategy<Value = T>,
    F: Fn(&T, &mut CaseInfo) -> Verdict,
{
    if rep.violated() {
        return;
    }
    let seed = ctx.seed_for(salt);
    let mut seed_bytes = [0u8; 32];
    for (i, chunk) in seed_bytes.chunks_mut(8).enumerate() {
        chunk.copy_from_slice(&(seed.wrapping_mul(0x9E37_79B9_7F4A_7C15).wrapping_add(i as u64)).to_le_bytes());
    }
    let config = Config {
        cases,
        failure_persistence: None,
        rng_seed: RngSeed::Fixed(seed),
        max_shrink_iters: ctx.shrink_iters.load(Ordering::Relaxed),
        max_global_rejects: 65536,
        ..Config::default()
    };
    let rng = TestRng::from_seed(RngAlgorithm::ChaCha, &seed_bytes);
    let mut runner = TestRunner::new_with_rng(config, rng);
    let failed = AtomicBool::new(false);
    let fail_key: Mutex<Option<(String, String)>> = Mutex::new(None);
    let rep_cell = Mutex::new(rep);
    let result = runner.run(&strategy, |value| {
        let mut info = CaseInfo::default();
        let verdict = prop(&value, &mut info);
        let counting = !failed.load(Ordering::SeqCst);
        let mut rep = rep_cell.lock().unwrap();
        match verdict {
            Verdict::Fail { key, msg } => {
                if !ctx.strict && ctx.known_key(&key).is_some() {
                    if counting {
                        count_case(&mut rep, &value, &info);
                        let k = ctx.known_key(&key).unwrap();
                        *rep.known_hits.entry(key.clone()).or_default() += 1;
                        if rep.printed_known.insert(key.clone()) {
                            println!("KNOWN-FINDING: property={} key={} {}", ctx.id, key, k.what);
                        }
                    }
                    return Ok(());
                }
                if counting {
                    count_case(&mut rep, &value, &info);
                    failed.store(true, Ordering::SeqCst);
                }
                // During shrinking only failures with the same key count as "still failing".
                let mut fk = fail_key.lock().unwrap();
                match fk.as_ref() {
                    Some((k0, _)) if *k0 != key => return Ok(()),
                    _ => {}
                }
                *fk = Some((key.clone(), msg.clone()));
                Err(TestCaseError::fail(format!("{}: {}", key, truncate(&msg, 500))))
            }
            Verdict::Dropped(why) => {
                if counting {
                    count_case(&mut rep, &value, &CaseInfo::default());
                    *rep.dropped.entry(why).or_default() += 1;
                }
                Ok(())
            }
            Verdict::Pass => {
                if counting {
                    count_case(&mut rep, &value, &info);
                    if info.nontrivial && rep.samples.len() < 4 {
                        let v = json!({"sub": sub, "case": serde_json::to_value(&value).unwrap_or(Value::Null)});
                        rep.samples.push(shrink_sample(v));
                    }
                }
                Ok(())
            }
        }
    });
    let rep = rep_cell.into_inner().unwrap();
    match result {
        Ok(()) => {}
        Err(TestError::Fail(_, value)) => {
            // Re-evaluate the shrunk case to obtain its message.
            let mut info = CaseInfo::default();
            let (key, msg) = match prop(&value, &mut info) {
                Verdict::Fail { key, msg } => (key, msg),
                _ => fail_key.lock().unwrap().clone().unwrap_or(("unstable".into(), "shrunk case did not fail again".into())),
            };
            let tagged = Tagged { sub: sub.to_string(), case: value };
            rep.failure(ctx, &tagged, &key, &msg);
        }
        Err(TestError::Abort(reason)) => {
            eprintln!("proptest aborted in {}/{}: {}", ctx.id, sub, reason);
            rep.extra.insert(format!("aborted_{}", sub), json!(reason.to_string()));
        }
    }
}

fn shrink_sample(v: Value) -> Value {
    let s = v.to_string();
    if s.len() > 3000 {
        json!({"truncated": truncate(&s, 3000)})
    } else {
        v
    }
}

fn count_case<T: Serialize + Debug>(rep: &mut Report, value: &T, info: &CaseInfo) {
    let h = hash_case(value);
    rep.evaluations += 1;
    rep.distinct.insert(h);
    if info.nontrivial {
        rep.distinct_nontrivial.insert(h);
    }
    for c in &info.classes {
        *rep.classes.entry(c.clone()).or_default() += 1;
    }
}

impl Report {
    /// Merges the counters of a worker report into this one.
    pub fn merge(&mut self, other: Report) {
        self.evaluations += other.evaluations;
        self.distinct.extend(other.distinct);
        self.distinct_nontrivial.extend(other.distinct_nontrivial);
        for (k, v) in other.classes {
            *self.classes.entry(k).or_default() += v;
        }
        for (k, v) in other.dropped {
            *self.dropped.entry(k).or_default() += v;
        }
        for (k, v) in other.excluded_known {
            *self.excluded_known.entry(k).or_default() += v;
        }
        for (k, v) in other.known_hits {
            *self.known_hits.entry(k).or_default() += v;
        }
        for s in other.samples {
            if self.samples.len() < 5 {
                self.samples.push(s);
            }
        }
        self.violations.extend(other.violations);
        for (k, v) in other.extra {
            self.extra.insert(k, v);
        }
        self.printed_known.extend(other.printed_known);
    }
}

/// Like `run_prop` but splits `cases` over `workers` threads (each with its own derived seed).
/// The property function must be thread-safe and use only per-case scratch state.
pub fn run_prop_par<T, S, F>(ctx: &Ctx, rep: &mut Report, sub: &str, cases: u32, workers: usize, strategy: impl Fn() -> S + Sync, prop: F)
where
    T: Serialize + Debug + Clone,
    S: Strategy<Value = T>,
    F: Fn(&T, &mut CaseInfo) -> Verdict + Sync,
{
    if rep.violated() {
        return;
    }
    // debugging aids: RV_SKIP_SUB=<name> leaves out one sub-check (to compare the others with an earlier run),
    // RV_ONLY_SUB=<name> runs only that one
    if std::env::var("RV_SKIP_SUB").map(|s| s == sub).unwrap_or(false) {
        return;
    }
    if std::env::var("RV_ONLY_SUB").map(|s| s != sub).unwrap_or(false) {
        return;
    }
    let workers = workers.max(1);
    let per = cases.div_ceil(workers as u32);
    let reports: Vec<Report> = std::thread::scope(|scope| {
        let handles: Vec<_> = (0..workers)
            .map(|w| {
                let strategy = &strategy;
                let prop = &prop;
                scope.spawn(move || {
                    let mut r = Report::new();
                    // the replay tag must be the plain sub-check name, the seed salt differs per worker
                    run_prop_salted(ctx, &mut r, sub, &format!("{}#{}", sub, w), per, strategy(), prop);
                    r
                })
            })
            .collect();
        handles.into_iter().map(|h| h.join().expect("worker panicked")).collect()
    });
    for r in reports {
        rep.merge(r);
    }
}

/// Runs one explicit (directed or replayed) case.
pub fn run_case<T, F>(ctx: &Ctx, rep: &mut Report, sub: &str, value: &T, prop: F)
where
    T: Serialize + Debug + Clone,
    F: Fn(&T, &mut CaseInfo) -> Verdict,
{
    let mut info = CaseInfo::default();
    let verdict = prop(value, &mut info);
    let tagged = Tagged { sub: sub.to_string(), case: value.clone() };
    rep.record(ctx, &tagged, &info, &verdict);
}

/// Generates one value from a strategy deterministically (for sampling without a property).
pub fn sample_strategy<T: Debug, S: Strategy<Value = T>>(strategy: &S, seed: u64, n: usize) -> Vec<T> {
    let mut seed_bytes = [0u8; 32];
    seed_bytes[..8].copy_from_slice(&seed.to_le_bytes());
    let rng = TestRng::from_seed(RngAlgorithm::ChaCha, &seed_bytes);
    let mut runner = TestRunner::new_with_rng(Config::default(), rng);
    (0..n).filter_map(|_| strategy.new_tree(&mut runner).ok().map(|t| t.current())).collect()
}

pub fn write_evidence(ctx: &Ctx, rep: &Report) {
    let dir = verif_dir().join("evidence");
    let _ = std::fs::create_dir_all(&dir);
    let mut coverage = serde_json::Map::new();
    coverage.insert("evaluations".into(), json!(rep.evaluations));
    coverage.insert("distinct".into(), json!(rep.distinct.len()));
    coverage.insert("distinct_nontrivial".into(), json!(rep.distinct_nontrivial.len()));
    coverage.insert("rule".into(), json!(rep.rules.join(" | ")));
    let samples = if rep.samples.is_empty() { vec![json!("no non-trivial passing case recorded")] } else { rep.samples.clone() };
    coverage.insert("samples".into(), Value::Array(samples));
    coverage.insert("classes".into(), json!(rep.classes));
    coverage.insert("dropped".into(), json!(rep.dropped));
    coverage.insert("excluded_known_shapes".into(), json!(rep.excluded_known));
    coverage.insert("known_finding_hits".into(), json!(rep.known_hits));
    if let Some(e) = rep.exhaustive {
        coverage.insert("exhaustive".into(), json!(e));
    }
    for (k, v) in &rep.extra {
        coverage.insert(k.clone(), v.clone());
    }
    let doc = json!({
        "property_id": ctx.id,
        "tier": ctx.tier.name(),
        "seed": ctx.seed,
        "level": rep.level,
        "coverage": Value::Object(coverage),
        "assumptions": rep.assumptions,
        "wall_s": ctx.start.elapsed().as_secs_f64(),
        "violations": rep.violations.len(),
        "violation_list": rep.violations.iter().map(|(k, m, p)| json!({"key": k, "message": truncate(m, 1000), "replay": p})).collect::<Vec<_>>(),
    });
    let path = dir.join(format!("{}.json", ctx.id));
    std::fs::write(&path, serde_json::to_vec_pretty(&doc).unwrap()).expect("write evidence");
}

/// Global counter helper for parallel workers.
pub static GLOBAL_COUNTER: AtomicU64 = AtomicU64::new(0);

/// Run `f` with panics caught; returns Err(message) on panic.
pub fn catch<R>(f: impl FnOnce() -> R) -> Result<R, String> {
    match std::panic::catch_unwind(std::panic::AssertUnwindSafe(f)) {
        Ok(r) => Ok(r),
        Err(e) => {
            let msg = if let Some(s) = e.downcast_ref::<&str>() {
                s.to_string()
            } else if let Some(s) = e.downcast_ref::<String>() {
                s.clone()
            } else {
                "panic".to_string()
            };
            Err(msg)
        }
    }
}
