//! C08 Unsafe-VRP policy filters exactly overlapping VRPs.

use std::net::{IpAddr, Ipv4Addr, Ipv6Addr};

use proptest::prelude::*;

use crate::core::*;
use crate::erpki::*;
use crate::erun::*;
use crate::escen::*;
use crate::rpkigen::Res;

fn v4(a: u32, len: u8) -> (Ipv4Addr, u8) {
    let m = if len == 0 { 0 } else { u32::MAX << (32 - len as u32) };
    (Ipv4Addr::from(a & m), len)
}
fn v6(a: u128, len: u8) -> (Ipv6Addr, u8) {
    let m = if len == 0 { 0 } else { u128::MAX << (128 - len as u32) };
    (Ipv6Addr::from(a & m), len)
}

/// TA(0) -> A(1) [candidate for rejection], B(2) [issues ROAs relative to A's blocks], optional
/// second TAL C(3) with unrelated ROAs, optional A2(4) under A.
fn scenario(words: &[u16]) -> Scenario {
    let mut d = D::new(words);
    let mut cfg = Cfg::default();
    cfg.unsafe_vrps = d.pick(&[0u8, 0, 1, 2]);
    cfg.stale = 0;
    cfg.threads = d.pick(&[2usize, 1, 8]);
    let p = Profile { max_cas: 5, max_tals: 1, max_objs: 2, versions: 1, fault_16: 0, obj_faults: false, cert_faults: false, pp_faults: false, vary_cfg: false, modules: 2, rrdp_16: 0, rrdp_repos: 2 };
    // A's blocks inside 10.200.0.0/14 and 2001:db8:c800::/38
    // 0 = specific blocks only, 1 = 0.0.0.0/0 and ::/0, 2 = 0.0.0.0/0 + specific IPv6, 3 = specific IPv4 + ::/0
    let zero_kind = d.pick(&[0u8, 0, 0, 0, 0, 0, 0, 0, 0, 0, 1, 1, 2, 2, 3, 3]);
    let slash_zero = zero_kind != 0;
    let mut a_res = Res { v4: vec![], v6: vec![], asn: vec![] };
    let n4 = 1 + d.below(2);
    let mut blocks4: Vec<(u32, u8)> = Vec::new();
    for _ in 0..n4 {
        let len = d.pick(&[24u8, 16, 20, 23, 17]);
        let base = 0x0AC8_0000u32 + ((d.below(4) as u32) << 16) + ((d.below(16) as u32) << 12);
        let (a, l) = v4(base, len);
        blocks4.push((u32::from(a), l));
        a_res.v4.push((a, l));
    }
    let len6 = d.pick(&[48u8, 40, 44]);
    let base6: u128 = (0x2001_0db8_c800u128 << 80) + ((d.below(8) as u128) << 84);
    let (a6, l6) = v6(base6, len6);
    a_res.v6.push((a6, l6));
    if zero_kind == 1 || zero_kind == 2 {
        a_res.v4 = vec![(Ipv4Addr::new(0, 0, 0, 0), 0)];
    }
    if zero_kind == 1 || zero_kind == 3 {
        a_res.v6 = vec![(Ipv6Addr::from(0u128), 0)];
    }
    // B covers the whole region
    let b_res = if slash_zero { Res { v4: vec![(Ipv4Addr::new(0, 0, 0, 0), 0)], v6: vec![(Ipv6Addr::from(0u128), 0)], asn: vec![] } } else { Res { v4: vec![(Ipv4Addr::new(10, 192, 0, 0), 11)], v6: vec![v6(0x2001_0db8_c000u128 << 80, 35)], asn: vec![] } };
    // ROAs of B relative to A's blocks
    let mut prefixes: Vec<(IpAddr, u8, Option<u8>)> = Vec::new();
    let nroa = 2 + d.below(6);
    for _ in 0..nroa {
        let rel = d.below(8);
        if rel == 7 || blocks4.is_empty() {
            // v6 relations
            let size_shift = 128 - l6 as u32;
            let a = u128::from(a6);
            let (addr, len) = match d.below(5) {
                0 => (a, l6),
                1 => (a, l6 - 4),
                2 => (a + (3u128 << (size_shift - 4)), l6 + 4),
                3 => (a.wrapping_add(1u128 << size_shift), l6),
                _ => (a.wrapping_sub(1u128 << size_shift), l6),
            };
            let (pa, pl) = v6(addr, len);
            prefixes.push((IpAddr::V6(pa), pl, d.pick(&[None, Some(pl.saturating_add(8).min(128))])));
            continue;
        }
        let (ba, bl) = blocks4[d.below(blocks4.len())];
        let size = 1u32 << (32 - bl as u32);
        let (addr, len) = match rel {
            0 => (ba, bl),                                       // equal
            1 => (ba, bl - 3),                                   // covering
            2 => (ba + size / 2, (bl + 2).min(32)),              // covered
            3 => (ba.wrapping_add(size), bl),                    // adjacent above
            4 => (ba.wrapping_sub(size), bl),                    // adjacent below
            5 => (ba.wrapping_add(size), (bl + 3).min(32)),      // first small block after the end
            _ => (ba.wrapping_sub(1), 32),                       // last address before the block
        };
        let (pa, pl) = v4(addr, len);
        prefixes.push((IpAddr::V4(pa), pl, d.pick(&[None, Some(pl.saturating_add(4).min(32))])));
    }
    if slash_zero {
        prefixes.push((IpAddr::V4(Ipv4Addr::new(203, 0, 113, 0)), 24, None));
    }
    prefixes.sort();
    prefixes.dedup_by(|a, b| a.0 == b.0 && a.1 == b.1);
    let reject_fault = d.pick(&[Some(PpFault::MftBadSig), Some(PpFault::MftMissing), Some(PpFault::CrlBadSig), None, Some(PpFault::FileMissing(0)), Some(PpFault::MftGarbage)]);
    let stale_reject = d.chance(2, 16);
    let mk_ver = |d: &mut D, objs: Vec<Obj>, fault: Option<PpFault>| {
        let mut v = decode_version(d, &p, 0);
        v.objs = objs;
        v.fault = fault;
        v
    };
    let roa_a = Obj { kind: ObjKind::Roa { extra: 1, maxlen_delta: 0, v6: false }, not_after: 86400 * 30, fault: None };
    let mut cas = Vec::new();
    let ta_extra = if slash_zero { Some(Res { v4: vec![(Ipv4Addr::new(0, 0, 0, 0), 0)], v6: vec![(Ipv6Addr::from(0u128), 0)], asn: vec![] }) } else { None };
    cas.push(Ca { parent: None, key: 0, module: 0, not_after: 86400 * 365, cert_fault: None, versions: vec![mk_ver(&mut d, vec![roa_a.clone()], None)], extra_res: ta_extra, ta_alt: vec![], sia_under_parent_mft: false, rrdp: None });
    let mut a_ver = mk_ver(&mut d, vec![roa_a.clone(), roa_a.clone()], reject_fault);
    if stale_reject {
        a_ver.fault = None;
        a_ver.next_off = -3600;
    }
    cas.push(Ca { parent: Some(0), key: 1, module: d.below(2), not_after: 86400 * 365, cert_fault: None, versions: vec![a_ver], extra_res: Some(a_res), ta_alt: vec![], sia_under_parent_mft: false, rrdp: None });
    let b_objs = vec![Obj { kind: ObjKind::RoaRaw { asn: 64999, prefixes }, not_after: 86400 * 30, fault: None }, roa_a.clone()];
    cas.push(Ca { parent: Some(0), key: 2, module: d.below(2), not_after: 86400 * 365, cert_fault: None, versions: vec![mk_ver(&mut d, b_objs, None)], extra_res: Some(b_res), ta_alt: vec![], sia_under_parent_mft: false, rrdp: None });
    if d.chance(1, 2) {
        // a descendant of A: its resources are part of A's certificate, it contributes nothing when A is rejected
        cas.push(Ca { parent: Some(1), key: 3, module: 0, not_after: 86400 * 365, cert_fault: None, versions: vec![mk_ver(&mut d, vec![roa_a.clone()], None)], extra_res: None, ta_alt: vec![], sia_under_parent_mft: false, rrdp: None });
    }
    let steps = vec![Step { publish: vec![0; cas.len()], fail_modules: vec![], offline: false, stale: None, foreign_tal_key: vec![], ta_serve: vec![], fail_rrdp: vec![] }];
    Scenario { cfg, cas, steps }
}

fn prop(sc: &Scenario, info: &mut CaseInfo) -> Verdict {
    let j = Judge { id: "C08", sound: true, complete: true, points: true, ..Default::default() };
    let mut overlapping = 0;
    let mut disjoint = 0;
    let mut rejected = false;
    let sc2 = sc.clone();
    let v = judge(&j, sc, info, |_, obs| {
        rejected = obs.exp.rejected.contains(&1);
        // classify B's raw prefixes against A's resources
        let res = cert_res(&sc2, 1);
        if let ObjKind::RoaRaw { prefixes, .. } = &sc2.cas[2].versions[0].objs[0].kind {
            for (a, l, _) in prefixes {
                let o = crate::pay::MOrigin::new(*a, *l, None, 1);
                let (lo, hi) = addr_range(o.bits(), o.len, o.is_v4());
                let hit = res.v4.iter().filter(|(_, bl)| *bl > 0).any(|(ba, bl)| {
                    let (blo, bhi) = addr_range((u32::from(*ba) as u128) << 96, *bl, true);
                    o.is_v4() && lo <= bhi && blo <= hi
                }) || res.v6.iter().filter(|(_, bl)| *bl > 0).any(|(ba, bl)| {
                    let (blo, bhi) = addr_range(u128::from(*ba), *bl, false);
                    !o.is_v4() && lo <= bhi && blo <= hi
                });
                if hit {
                    overlapping += 1
                } else {
                    disjoint += 1
                }
            }
        }
        None
    });
    info.nontrivial = rejected && overlapping >= 1 && disjoint >= 1;
    info.class(format!("unsafe_policy_{}", sc.cfg.unsafe_vrps));
    info.class(if rejected { "A_rejected" } else { "A_accepted" });
    if sc.cas[1].extra_res.as_ref().map(|r| r.v4.iter().any(|x| x.1 == 0)).unwrap_or(false) {
        info.class("A_holds_v4_slash_zero");
    }
    if sc.cas[1].extra_res.as_ref().map(|r| r.v6.iter().any(|x| x.1 == 0)).unwrap_or(false) {
        info.class("A_holds_v6_slash_zero");
    }
    v
}

pub fn run(ctx: &Ctx, rep: &mut Report, replay: Option<&serde_json::Value>) {
    rep.rule("E-rpki trees TA -> {A, B} (+ optional child of A): A holds 1-2 IPv4 blocks (/16../24) and an IPv6 block (/40../48) or 0.0.0.0/0 and/or ::/0 in place of one or both families (a whole-family block next to specific blocks of the other family), and is rejected in most cases (bad/missing/garbage manifest, bad CRL, missing file, stale manifest under reject); B holds a covering region and issues a ROA whose prefixes are built relative to A's blocks: equal, covering, covered, adjacent above/below, first small block after the end, last address before the start, IPv6 counterparts; unsafe-vrps in {reject, warn, accept}; oracle: served set equals the model computed with own u128 interval arithmetic (reject: nothing overlapping A's non-/0 blocks and nothing else removed; warn/accept: unfiltered), point counts match; non-trivial = A rejected and B has >=1 overlapping and >=1 disjoint prefix; distinct by serialised scenario");
    rep.assume("reference model Appendix A");
    ctx.shrink_iters.store(150, std::sync::atomic::Ordering::Relaxed);
    if let Some(v) = replay {
        let t: Tagged<Scenario> = serde_json::from_value(v.clone()).expect("replay");
        run_case(ctx, rep, &t.sub, &t.case, prop);
        return;
    }
    run_prop_par(ctx, rep, "overlap", ctx.tier.pick(320, 8000), 8, || genome(120).prop_map(|w| scenario(&w)), prop);
}
