pub mod core;
pub mod pay;
pub mod rpkigen;
pub mod erpki;
pub mod escen;
pub mod erun;
pub mod hist;
pub mod fmtx;
pub mod parsers;
pub mod sched;
pub mod hsched;
pub mod rtrnet;
pub mod clibin;
pub mod httpsrv;
pub mod bx;
pub mod bw;
pub mod fz;
pub mod crash;
pub mod c01;
pub mod c02;
pub mod c03;
pub mod c04;
pub mod c05;
pub mod c06;
pub mod c07;
pub mod c08;
pub mod c09;
pub mod c10;
pub mod c10h;
pub mod c11;
pub mod c12;
pub mod c13;
pub mod c14;
pub mod c15;
pub mod c16;
pub mod c17;
pub mod c18;
pub mod c19;
pub mod c20;
pub mod c21;
pub mod c22;
pub mod c23;
pub mod c24;
pub mod c25;
pub mod c26;
pub mod c27;
pub mod c27e;
pub mod c28;
pub mod c29;
pub mod c30;
pub mod c31;
pub mod c32;
pub mod c33;
pub mod c33i;
pub mod c34;
pub mod c35;
pub mod c36;
pub mod c37;
pub mod c37net;
pub mod c38;
pub mod c39;
pub mod c40;
pub mod c41;

use crate::core::{Ctx, Report};

pub type CheckFn = fn(&Ctx, &mut Report, Option<&serde_json::Value>);

/// Registry: property id -> check entry.
pub fn registry() -> Vec<(&'static str, CheckFn)> {
    vec![
        ("C01", c01::run as CheckFn),
        ("C02", c02::run as CheckFn),
        ("C03", c03::run as CheckFn),
        ("C04", c04::run as CheckFn),
        ("C05", c05::run as CheckFn),
        ("C06", c06::run as CheckFn),
        ("C07", c07::run as CheckFn),
        ("C08", c08::run as CheckFn),
        ("C09", c09::run as CheckFn),
        ("C10", c10::run as CheckFn),
        ("C11", c11::run as CheckFn),
        ("C12", c12::run as CheckFn),
        ("C13", c13::run as CheckFn),
        ("C14", c14::run as CheckFn),
        ("C15", c15::run as CheckFn),
        ("C16", c16::run as CheckFn),
        ("C17", c17::run as CheckFn),
        ("C18", c18::run as CheckFn),
        ("C19", c19::run as CheckFn),
        ("C20", c20::run as CheckFn),
        ("C21", c21::run as CheckFn),
        ("C22", c22::run as CheckFn),
        ("C23", c23::run as CheckFn),
        ("C24", c24::run as CheckFn),
        ("C25", c25::run as CheckFn),
        ("C26", c26::run as CheckFn),
        ("C27", c27::run as CheckFn),
        ("C28", c28::run as CheckFn),
        ("C29", c29::run as CheckFn),
        ("C30", c30::run as CheckFn),
        ("C31", c31::run as CheckFn),
        ("C32", c32::run as CheckFn),
        ("C33", c33::run as CheckFn),
        ("C34", c34::run as CheckFn),
        ("C35", c35::run as CheckFn),
        ("C36", c36::run as CheckFn),
        ("C37", c37::run as CheckFn),
        ("C38", c38::run as CheckFn),
        ("C39", c39::run as CheckFn),
        ("C40", c40::run as CheckFn),
        ("C41", c41::run as CheckFn),
    ]
}
