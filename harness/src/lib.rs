pub mod core;
pub mod pay;
pub mod c11;
pub mod c12;

use crate::core::{Ctx, Report};

pub type CheckFn = fn(&Ctx, &mut Report, Option<&serde_json::Value>);

/// Registry: property id -> check entry.
pub fn registry() -> Vec<(&'static str, CheckFn)> {
    vec![
        ("C11", c11::run as CheckFn),
        ("C12", c12::run as CheckFn),
    ]
}
