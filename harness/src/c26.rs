//! C26 The object archive behaves like a map and stays consistent.
//!
//! Model-based: every operation result of `utils::archive::Archive` is compared with a map
//! name -> (meta, data); after every operation `verify()` must succeed, `objects()` must list exactly
//! the model, and the harness' own reader of the file (bx::read_layout) must show that objects and free
//! blocks tile [end of index, end of file) without gap or overlap — through the index chains and through
//! a linear scan — and hold exactly the model's names, metadata and content.

use std::borrow::Cow;
use std::cell::{Cell, RefCell};
use std::collections::BTreeMap;
use std::path::{Path, PathBuf};
use std::sync::atomic::{AtomicU64, Ordering};
use std::sync::OnceLock;

use proptest::prelude::*;
use routinator::utils::archive::{AccessError, Archive, ArchiveError, FetchError, ObjectMeta, PublishError, StorageRead, StorageWrite};
use serde::{Deserialize, Serialize};

use crate::bx::*;
use crate::core::*;

//------------ metadata type of the test archive --------------------------------------------------

#[derive(Clone, Debug, PartialEq, Eq)]
pub struct TMeta<const N: usize>(pub [u8; N]);

impl<const N: usize> ObjectMeta for TMeta<N> {
    const SIZE: usize = N;
    type ConsistencyError = u8;
    fn write(&self, write: &mut StorageWrite) -> Result<(), ArchiveError> {
        write.write(&self.0)
    }
    fn read(read: &mut StorageRead) -> Result<Self, ArchiveError> {
        Ok(TMeta(read.read_array::<N>()?))
    }
}

fn meta_of<const N: usize>(tag: u32) -> TMeta<N> {
    let t = tag.to_le_bytes();
    let mut m = [0u8; N];
    for (i, b) in m.iter_mut().enumerate() {
        *b = t[i % 4] ^ ((i / 4) as u8);
    }
    TMeta(m)
}

//------------ case ------------------------------------------------------------------------------

#[derive(Clone, Debug, Serialize, Deserialize, PartialEq, Eq)]
pub enum NameSpec {
    Pool(u8),
    Raw(Hex),
}

fn pool() -> &'static Vec<Vec<u8>> {
    static P: OnceLock<Vec<Vec<u8>>> = OnceLock::new();
    P.get_or_init(|| {
        vec![
            b"".to_vec(),
            b"a".to_vec(),
            b"b".to_vec(),
            b"state".to_vec(),
            b"rsync://h.example/m/a.cer".to_vec(),
            b"rsync://h.example/m/b.cer".to_vec(),
            vec![b'n'; 190],
            vec![b'L'; 300],
        ]
    })
}

impl NameSpec {
    fn bytes(&self) -> Vec<u8> {
        match self {
            NameSpec::Pool(i) => pool()[*i as usize % pool().len()].clone(),
            NameSpec::Raw(h) => h.0.clone(),
        }
    }
}

#[derive(Clone, Debug, Serialize, Deserialize, PartialEq, Eq)]
pub enum SizeSpec {
    Abs(u32),
    /// total object size = k pages + delta bytes (before rounding), i.e. data length = k*256 - header - name - meta + delta
    Page(u8, i8),
}

#[derive(Clone, Debug, Serialize, Deserialize, PartialEq, Eq)]
pub struct DataSpec {
    pub size: SizeSpec,
    pub seed: u8,
}

impl DataSpec {
    fn bytes(&self, name_len: usize, meta: usize) -> Vec<u8> {
        let len = match self.size {
            SizeSpec::Abs(n) => n as i64,
            SizeSpec::Page(k, d) => (k.max(1) as i64) * 256 - 33 - name_len as i64 - meta as i64 + d as i64,
        }
        .max(0) as usize;
        (0..len).map(|i| self.seed.wrapping_add((i as u8).wrapping_mul(13)).wrapping_add((i >> 8) as u8)).collect()
    }
}

#[derive(Clone, Debug, Serialize, Deserialize, PartialEq, Eq)]
pub enum Check {
    Accept,
    Refuse,
    /// accept iff the stored metadata is the one made from this tag
    Match(u32),
}

#[derive(Clone, Debug, Serialize, Deserialize, PartialEq, Eq)]
pub enum Op {
    Publish { name: NameSpec, data: DataSpec, meta: u32 },
    Update { name: NameSpec, data: DataSpec, meta: u32, check: Check },
    Delete { name: NameSpec, check: Check },
    Fetch { name: NameSpec },
    FetchIf { name: NameSpec, check: Check },
    /// close and open the file again (writable)
    Reopen,
    /// open a second, read-only handle and compare everything through it
    Probe,
}

#[derive(Clone, Debug, Serialize, Deserialize, PartialEq, Eq)]
pub struct ArchCase {
    /// 0 = file made by `Archive::create` (1024 buckets); otherwise an empty archive with this many buckets
    pub buckets: u16,
    pub key: u64,
    /// 32-byte metadata (as the RRDP archive) instead of 5 bytes
    pub meta32: bool,
    pub ops: Vec<Op>,
}

type Model = BTreeMap<Vec<u8>, (Vec<u8>, Vec<u8>)>;

fn key16(k: u64) -> [u8; 16] {
    let mut key = [0u8; 16];
    key[..8].copy_from_slice(&k.to_le_bytes());
    key[8..].copy_from_slice(&k.wrapping_mul(0x9E37_79B9_7F4A_7C15).to_le_bytes());
    key
}

static FILE_NO: AtomicU64 = AtomicU64::new(0);

fn f(what: String, msg: String) -> Verdict {
    Verdict::fail(format!("C26/{}", what), msg)
}

fn aerr(e: &ArchiveError) -> String {
    match e {
        ArchiveError::Corrupt(s) => format!("corrupt({})", s.replace(' ', "-")),
        ArchiveError::Io(e) => format!("io({:?})", e.kind()),
    }
}

/// Everything observable must equal the model. `step` names the operation for messages.
fn check_all<const N: usize>(archive: &Archive<TMeta<N>>, path: &Path, model: &Model, step: &str) -> Result<Layout, Verdict> {
    let stats = archive.verify().map_err(|e| f(format!("verify/{}", aerr(&e)), format!("after {}: verify() = {:?}", step, e)))?;
    let mut listed: Model = BTreeMap::new();
    let iter = archive.objects().map_err(|e| f(format!("objects/{}", aerr(&e)), format!("after {}: objects() = {:?}", step, e)))?;
    for item in iter {
        let (name, meta, data) = item.map_err(|e| f(format!("objects/{}", aerr(&e)), format!("after {}: objects() item = {:?}", step, e)))?;
        if listed.insert(name.to_vec(), (meta.0.to_vec(), data.to_vec())).is_some() {
            return Err(f("objects/duplicate".into(), format!("after {}: objects() lists {} twice", step, to_hex(&name))));
        }
    }
    if listed != *model {
        return Err(f("objects/differs-from-model".into(), format!("after {}: objects() lists {} entries {:?}, model has {} {:?}", step, listed.len(), names(&listed), model.len(), names(model))));
    }
    let file = std::fs::read(path).map_err(|e| Verdict::Dropped(format!("cannot read archive file: {}", e)))?;
    let layout = read_layout(&file, N as u64).map_err(|(code, msg)| f(format!("layout/{}", code), format!("after {}: {}", step, msg)))?;
    if layout.object_map() != *model {
        return Err(f("layout/content-differs-from-model".into(), format!("after {}: file holds {:?}, model {:?}", step, names(&layout.object_map()), names(model))));
    }
    let free_n = layout.free().count() as u64;
    let free_sz: u64 = layout.free().map(|b| b.size).sum();
    let obj_sz: u64 = layout.objects().map(|b| b.size).sum();
    if stats.object_count != model.len() as u64 || stats.empty_count != free_n || stats.empty_size != free_sz || stats.object_size != obj_sz {
        return Err(f("verify/stats-differ-from-file".into(), format!("after {}: verify() reports {:?}; file has {} objects ({} bytes), {} free blocks ({} bytes)", step, stats, model.len(), obj_sz, free_n, free_sz)));
    }
    Ok(layout)
}

fn names(m: &Model) -> Vec<String> {
    m.iter().map(|(k, (meta, d))| format!("{}:{}:{}b", truncate(&String::from_utf8_lossy(k), 24), to_hex(&meta[..meta.len().min(4)]), d.len())).collect()
}

fn open_archive<const N: usize>(path: &Path, writable: bool) -> Result<Archive<TMeta<N>>, Verdict> {
    Archive::open(path, writable).map_err(|e| f("open/error".into(), format!("Archive::open(writable={}) = {:?}", writable, e)))
}

pub fn judge_in<const N: usize>(dir: &Path, case: &ArchCase, info: &mut CaseInfo) -> Verdict {
    let path: PathBuf = dir.join(format!("arch-{}.bin", FILE_NO.fetch_add(1, Ordering::SeqCst)));
    let v = judge_file::<N>(&path, case, info);
    let _ = std::fs::remove_file(&path);
    v
}

fn judge_file<const N: usize>(path: &Path, case: &ArchCase, info: &mut CaseInfo) -> Verdict {
    let key = key16(case.key);
    if case.buckets == 0 {
        // the real constructor; its output must be the documented empty archive, then the random key
        // is replaced by the case's key so that chain order is reproducible
        let a = match Archive::<TMeta<N>>::create(path) {
            Ok(a) => a,
            Err(e) => return Verdict::Dropped(format!("create failed: {:?}", e)),
        };
        drop(a);
        let mut file = std::fs::read(path).unwrap();
        let mut k = [0u8; 16];
        k.copy_from_slice(&file[6..22]);
        if file != empty_archive(k, 1024) {
            return f("create/not-an-empty-archive".into(), format!("Archive::create wrote {} bytes that are not magic+key+1024+zeroed index", file.len()));
        }
        file[6..22].copy_from_slice(&key);
        std::fs::write(path, &file).unwrap();
        info.class("made_by=Archive::create");
    } else {
        std::fs::write(path, empty_archive(key, case.buckets as u64)).unwrap();
        info.class(format!("buckets={}", case.buckets));
    }
    let mut archive = match open_archive::<N>(path, true) {
        Ok(a) => a,
        Err(v) => return v,
    };
    let mut model: Model = BTreeMap::new();
    let mut layout = match check_all(&archive, path, &model, "open") {
        Ok(l) => l,
        Err(v) => return v,
    };
    let mut freed_before = false;
    for (i, op) in case.ops.iter().enumerate() {
        let step = format!("op {} {:?}", i, short(op));
        let prev = layout.clone();
        let mut written: Option<Vec<u8>> = None;
        match op {
            Op::Publish { name, data, meta } => {
                let n = name.bytes();
                let d = data.bytes(n.len(), N);
                let m = meta_of::<N>(*meta);
                let res = archive.publish(&n, &m, &d);
                let exists = model.contains_key(&n);
                match (&res, exists) {
                    (Ok(()), false) => {
                        model.insert(n.clone(), (m.0.to_vec(), d));
                        written = Some(n);
                    }
                    (Err(PublishError::AlreadyExists), true) => info.class("result=already-exists"),
                    _ => return f(format!("publish/expected={}/got={}", if exists { "already-exists" } else { "ok" }, pub_class(&res)), format!("{}: {:?}", step, res)),
                }
            }
            Op::Update { name, data, meta, check } => {
                let n = name.bytes();
                let d = data.bytes(n.len(), N);
                let m = meta_of::<N>(*meta);
                let seen: RefCell<Option<Vec<u8>>> = RefCell::new(None);
                let res = archive.update(&n, &m, &d, |stored| {
                    *seen.borrow_mut() = Some(stored.0.to_vec());
                    decide::<N>(check, stored)
                });
                let expect = expectation::<N>(&model, &n, check);
                if let Some(v) = judge_access("update", &step, &expect, access_class(&res), &seen.borrow(), &model, &n) {
                    return v;
                }
                if expect == "ok" {
                    let old_len = model[&n].1.len();
                    if page_size(n.len(), N, old_len) == page_size(n.len(), N, d.len()) {
                        info.class("update=in_place");
                    } else {
                        info.class("update=relocate");
                    }
                    model.insert(n.clone(), (m.0.to_vec(), d));
                    written = Some(n);
                } else {
                    info.class(format!("result={}", expect));
                }
            }
            Op::Delete { name, check } => {
                let n = name.bytes();
                let seen: RefCell<Option<Vec<u8>>> = RefCell::new(None);
                let res = archive.delete(&n, |stored| {
                    *seen.borrow_mut() = Some(stored.0.to_vec());
                    decide::<N>(check, stored)
                });
                let expect = expectation::<N>(&model, &n, check);
                if let Some(v) = judge_access("delete", &step, &expect, access_class(&res), &seen.borrow(), &model, &n) {
                    return v;
                }
                if expect == "ok" {
                    model.remove(&n);
                } else {
                    info.class(format!("result={}", expect));
                }
            }
            Op::Fetch { name } => {
                let n = name.bytes();
                let res = archive.fetch(&n);
                let res2 = archive.fetch_bytes(&n);
                match (model.get(&n), &res, &res2) {
                    (Some((_, d)), Ok(got), Ok(got2)) if got.as_ref() == d.as_slice() && got2.as_ref() == d.as_slice() => {}
                    (None, Err(FetchError::NotFound), Err(FetchError::NotFound)) => info.class("result=not-found"),
                    (m, _, _) => {
                        return f(
                            format!("fetch/expected={}/got={}", if m.is_some() { "data" } else { "not-found" }, fetch_class(&res, m.map(|x| x.1.as_slice()))),
                            format!("{}: fetch = {:?}, fetch_bytes = {:?}", step, res.as_ref().map(|d| d.len()), res2.as_ref().map(|d| d.len())),
                        )
                    }
                }
            }
            Op::FetchIf { name, check } => {
                let n = name.bytes();
                let seen: RefCell<Option<Vec<u8>>> = RefCell::new(None);
                let res = archive.fetch_if(&n, |stored| {
                    *seen.borrow_mut() = Some(stored.0.to_vec());
                    decide::<N>(check, stored)
                });
                let expect = expectation::<N>(&model, &n, check);
                let class = match &res {
                    Ok(d) if model.get(&n).map(|m| m.1.as_slice() == d.as_ref()).unwrap_or(false) => "ok",
                    Ok(_) => "wrong-data",
                    Err(AccessError::NotFound) => "not-found",
                    Err(AccessError::Inconsistent(_)) => "refused",
                    Err(AccessError::Archive(_)) => "archive-error",
                };
                if let Some(v) = judge_access("fetch_if", &step, &expect, class.to_string(), &seen.borrow(), &model, &n) {
                    return v;
                }
                if expect != "ok" {
                    info.class(format!("result={}", expect));
                }
            }
            Op::Reopen => {
                drop(archive);
                archive = match open_archive::<N>(path, true) {
                    Ok(a) => a,
                    Err(v) => return v,
                };
                if !model.is_empty() {
                    info.class("reopen_nonempty");
                    info.nt(true);
                }
            }
            Op::Probe => {
                let ro = match open_archive::<N>(path, false) {
                    Ok(a) => a,
                    Err(v) => return v,
                };
                if let Err(v) = check_all(&ro, path, &model, &format!("{} (read-only handle)", step)) {
                    return v;
                }
                for (n, (_, d)) in &model {
                    match ro.fetch(n) {
                        Ok(got) if got.as_ref() == d.as_slice() => {}
                        other => return f("fetch/expected=data/got=other-through-read-only-handle".into(), format!("{}: fetch({}) = {:?}", step, to_hex(n), other.map(|d| d.len()))),
                    }
                }
                info.class("probe_read_only");
            }
        }
        layout = match check_all(&archive, path, &model, &step) {
            Ok(l) => l,
            Err(v) => return v,
        };
        // classification of what happened to the file (for the non-trivial rule)
        if layout.file_len < prev.file_len {
            info.class("file_truncated");
        }
        if let Some(n) = written {
            if let Some(b) = layout.objects().find(|b| b.name == n) {
                if let Some(fb) = prev.free().find(|fb| fb.pos <= b.pos && b.pos < fb.pos + fb.size) {
                    let cls = if fb.size == b.size { "free_reuse=exact" } else { "free_reuse=split" };
                    info.class(cls);
                    if freed_before {
                        info.nt(true);
                    }
                } else if b.pos >= prev.file_len {
                    info.class("appended");
                }
            }
        }
        if matches!(op, Op::Delete { .. } | Op::Update { .. }) && layout.free().count() > 0 {
            freed_before = true;
            if layout.free().count() == prev.free().count() && layout.file_len == prev.file_len && layout.objects().count() < prev.objects().count() {
                info.class("free_coalesced");
            }
        }
    }
    info.class(format!("meta_size={}", N));
    Verdict::Pass
}

fn short(op: &Op) -> String {
    let s = format!("{:?}", op);
    truncate(&s, 160)
}

fn page_size(name: usize, meta: usize, data: usize) -> u64 {
    ((33 + name + meta + data) as u64).next_multiple_of(256)
}

fn decide<const N: usize>(check: &Check, stored: &TMeta<N>) -> Result<(), u8> {
    match check {
        Check::Accept => Ok(()),
        Check::Refuse => Err(7),
        Check::Match(t) => {
            if *stored == meta_of::<N>(*t) {
                Ok(())
            } else {
                Err(9)
            }
        }
    }
}

fn expectation<const N: usize>(model: &Model, name: &[u8], check: &Check) -> String {
    match model.get(name) {
        None => "not-found".into(),
        Some((meta, _)) => {
            let accept = match check {
                Check::Accept => true,
                Check::Refuse => false,
                Check::Match(t) => meta.as_slice() == meta_of::<N>(*t).0.as_slice(),
            };
            if accept { "ok".into() } else { "refused".into() }
        }
    }
}

fn access_class(res: &Result<(), AccessError<u8>>) -> String {
    match res {
        Ok(()) => "ok".into(),
        Err(AccessError::NotFound) => "not-found".into(),
        Err(AccessError::Inconsistent(_)) => "refused".into(),
        Err(AccessError::Archive(_)) => "archive-error".into(),
    }
}

fn pub_class(res: &Result<(), PublishError>) -> &'static str {
    match res {
        Ok(()) => "ok",
        Err(PublishError::AlreadyExists) => "already-exists",
        Err(PublishError::Archive(_)) => "archive-error",
    }
}

fn fetch_class(res: &Result<Cow<[u8]>, FetchError>, want: Option<&[u8]>) -> &'static str {
    match res {
        Ok(d) if Some(d.as_ref()) == want => "data-but-fetch_bytes-differs",
        Ok(_) => "wrong-data",
        Err(FetchError::NotFound) => "not-found",
        Err(FetchError::Archive(_)) => "archive-error",
    }
}

fn judge_access(op: &str, step: &str, expect: &str, got: String, seen: &Option<Vec<u8>>, model: &Model, name: &[u8]) -> Option<Verdict> {
    if expect != got {
        return Some(f(format!("{}/expected={}/got={}", op, expect, got), format!("{}: expected {}, got {}", step, expect, got)));
    }
    match (model.get(name), seen) {
        (None, Some(_)) => Some(f(format!("{}/check-called-for-missing-object", op), format!("{}: the metadata check ran although the name is not in the archive", step))),
        (Some(_), None) => Some(f(format!("{}/check-not-called", op), format!("{}: the metadata check was not consulted", step))),
        (Some((meta, _)), Some(s)) if meta != s => Some(f(format!("{}/check-saw-wrong-metadata", op), format!("{}: check saw {} but the object's metadata is {}", step, to_hex(s), to_hex(meta)))),
        _ => None,
    }
}

pub fn judge(dir: &Path, case: &ArchCase, info: &mut CaseInfo) -> Verdict {
    match crate::core::catch(|| if case.meta32 { judge_in::<32>(dir, case, info) } else { judge_in::<5>(dir, case, info) }) {
        Ok(v) => v,
        Err(p) => {
            let first = p.lines().next().unwrap_or("").to_string();
            f(format!("panic/{}", truncate(&first.replace(' ', "-"), 60)), format!("archive operation panicked: {}", p))
        }
    }
}

//------------ byte-driven entry (libFuzzer body) ------------------------------------------------

pub fn case_from_bytes(data: &[u8]) -> ArchCase {
    let mut it = data.iter().copied();
    let mut next = move || it.next();
    let b0 = next().unwrap_or(0);
    let buckets = [1u16, 2, 3, 7, 0, 1024][(b0 % 6) as usize];
    let meta32 = b0 & 0x40 != 0;
    let key = next().unwrap_or(1) as u64 + 1;
    let mut ops = Vec::new();
    while ops.len() < 64 {
        let Some(code) = next() else { break };
        let name = |b: Option<u8>, next: &mut dyn FnMut() -> Option<u8>| -> NameSpec {
            let b = b.unwrap_or(0);
            if b < 0xE0 {
                NameSpec::Pool(b % 8)
            } else {
                let len = (b & 0x0f) as usize;
                NameSpec::Raw(Hex((0..len).map(|_| next().unwrap_or(b'x')).collect()))
            }
        };
        let data_spec = |next: &mut dyn FnMut() -> Option<u8>| -> DataSpec {
            let a = next().unwrap_or(0);
            let b = next().unwrap_or(0);
            let size = if a & 1 == 0 { SizeSpec::Page(1 + (a >> 1) % 5, [(-1i8), 0, 1][(b % 3) as usize]) } else { SizeSpec::Abs(((a as u32 >> 1) << 8 | b as u32) % 3000) };
            DataSpec { size, seed: b }
        };
        let check = |b: Option<u8>| match b.unwrap_or(0) % 4 {
            0 | 1 => Check::Accept,
            2 => Check::Refuse,
            _ => Check::Match(b.unwrap_or(0) as u32 % 4),
        };
        let mut nx = &mut next as &mut dyn FnMut() -> Option<u8>;
        let op = match code % 9 {
            0 | 1 => {
                let n = nx();
                let n = name(n, &mut nx);
                let d = data_spec(&mut nx);
                Op::Publish { name: n, data: d, meta: nx().unwrap_or(0) as u32 % 4 }
            }
            2 | 3 => {
                let n = nx();
                let n = name(n, &mut nx);
                let d = data_spec(&mut nx);
                let m = nx().unwrap_or(0) as u32 % 4;
                Op::Update { name: n, data: d, meta: m, check: check(nx()) }
            }
            4 | 5 => {
                let n = nx();
                let n = name(n, &mut nx);
                Op::Delete { name: n, check: check(nx()) }
            }
            6 => {
                let n = nx();
                let n = name(n, &mut nx);
                if code & 0x10 != 0 { Op::Fetch { name: n } } else { Op::FetchIf { name: n, check: check(nx()) } }
            }
            7 => Op::Reopen,
            _ => Op::Probe,
        };
        ops.push(op);
    }
    ArchCase { buckets, key, meta32, ops }
}

fn fuzz_dir() -> &'static Path {
    static D: OnceLock<tempfile::TempDir> = OnceLock::new();
    D.get_or_init(|| {
        let base = if Path::new("/dev/shm").is_dir() { "/dev/shm" } else { "/tmp" };
        tempfile::Builder::new().prefix("rv-C26-fuzz-").tempdir_in(base).expect("scratch")
    })
    .path()
}

pub fn judge_bytes(dir: &Path, data: &[u8], info: &mut CaseInfo) -> Verdict {
    let case = case_from_bytes(data);
    info.class("byte_driven");
    judge(dir, &case, info)
}

pub fn fuzz_bytes(data: &[u8]) -> Result<(), String> {
    let mut info = CaseInfo::default();
    match judge_bytes(fuzz_dir(), data, &mut info) {
        Verdict::Fail { key, msg } => Err(format!("{}: {}", key, msg)),
        _ => Ok(()),
    }
}

//------------ strategies ------------------------------------------------------------------------

fn name_strategy() -> impl Strategy<Value = NameSpec> {
    prop_oneof![
        8 => (0u8..8).prop_map(NameSpec::Pool),
        1 => prop::collection::vec(any::<u8>(), 0..24).prop_map(|v| NameSpec::Raw(Hex(v))),
    ]
}

fn data_strategy() -> impl Strategy<Value = DataSpec> {
    let size = prop_oneof![
        6 => (1u8..=5, prop_oneof![Just(-1i8), Just(0), Just(1)]).prop_map(|(k, d)| SizeSpec::Page(k, d)),
        3 => prop_oneof![Just(0u32), Just(1), Just(255), Just(256), Just(1023), Just(1024), Just(1025)].prop_map(SizeSpec::Abs),
        2 => (0u32..3000).prop_map(SizeSpec::Abs),
        1 => prop_oneof![Just(65535u32), Just(65536), Just(65537)].prop_map(SizeSpec::Abs),
    ];
    (size, any::<u8>()).prop_map(|(size, seed)| DataSpec { size, seed })
}

fn check_strategy() -> impl Strategy<Value = Check> {
    prop_oneof![3 => Just(Check::Accept), 1 => Just(Check::Refuse), 2 => (0u32..4).prop_map(Check::Match)]
}

fn op_strategy() -> impl Strategy<Value = Op> {
    prop_oneof![
        6 => (name_strategy(), data_strategy(), 0u32..4).prop_map(|(name, data, meta)| Op::Publish { name, data, meta }),
        5 => (name_strategy(), data_strategy(), 0u32..4, check_strategy()).prop_map(|(name, data, meta, check)| Op::Update { name, data, meta, check }),
        5 => (name_strategy(), check_strategy()).prop_map(|(name, check)| Op::Delete { name, check }),
        1 => name_strategy().prop_map(|name| Op::Fetch { name }),
        2 => (name_strategy(), check_strategy()).prop_map(|(name, check)| Op::FetchIf { name, check }),
        1 => Just(Op::Reopen),
        1 => Just(Op::Probe),
    ]
}

pub fn case_strategy(max_ops: usize) -> impl Strategy<Value = ArchCase> {
    (prop_oneof![3 => Just(1u16), 2 => Just(2), 2 => Just(3), 1 => Just(7), 2 => Just(0), 1 => Just(1024)], 1u64..1000, any::<bool>(), prop::collection::vec(op_strategy(), 1..=max_ops))
        .prop_map(|(buckets, key, meta32, ops)| ArchCase { buckets, key, meta32, ops })
}

pub fn run(ctx: &Ctx, rep: &mut Report, replay: Option<&serde_json::Value>) {
    rep.rule("operation sequences (publish / update / delete / fetch / fetch_if with accepting, refusing and metadata-matching checks / reopen / read-only second handle) of 1..=40 operations over 8 pooled names (empty, short, 190 and 300 bytes) plus random names, in archives with 1, 2, 3, 7 or 1024 hash buckets (so names collide) and a fixed hash key, data sizes placed at page boundaries (k*256 total -1/0/+1), 0, 1, 255..1025, up to 3000 and 64 KiB +-1, metadata of 5 or 32 bytes; also byte-driven sequences (the libFuzzer body); non-trivial = a publish/update lands in space freed earlier in the same sequence (exact fit or split), or a reopen of a non-empty archive; distinct by serialised case");
    rep.assume("the archive is used by one writer at a time and opened writable for writing (as the RRDP collector does); the hash key of a fresh archive is replaced by a fixed one before the first object is added so chain order is reproducible");
    let scratch = ctx.scratch();
    let dir = scratch.path().to_path_buf();
    let d2 = dir.clone();
    let seq = move |c: &ArchCase, i: &mut CaseInfo| judge(&dir, c, i);
    let bytes = move |d: &Hex, i: &mut CaseInfo| judge_bytes(&d2, &d.0, i);
    if let Some(v) = replay {
        let t: Tagged<serde_json::Value> = serde_json::from_value(v.clone()).expect("replay");
        match t.sub.as_str() {
            "ops" | "long" => run_case(ctx, rep, &t.sub, &serde_json::from_value::<ArchCase>(t.case).expect("case"), seq),
            other if other == "bytes" || other.starts_with("corpus:") || other.starts_with("fuzz:") => run_case(ctx, rep, other, &serde_json::from_value::<Hex>(t.case).expect("case"), bytes),
            other => panic!("unknown sub {}", other),
        }
        return;
    }
    let _ = Cell::new(0);
    run_prop(ctx, rep, "ops", ctx.tier.pick(2_000, 40_000), case_strategy(40), &seq);
    run_prop(ctx, rep, "long", ctx.tier.pick(60, 1_000), case_strategy(300), &seq);
    run_prop(ctx, rep, "bytes", ctx.tier.pick(800, 10_000), prop::collection::vec(any::<u8>(), 0..300).prop_map(Hex), &bytes);
    let d3 = scratch.path().to_path_buf();
    crate::fz::replay_corpus(ctx, rep, "archive_ops", |d, i| judge_bytes(&d3, d, i));
    if ctx.tier == Tier::Thorough {
        crate::fz::campaign(ctx, rep, "archive_ops", 30_000, 512, |d, i| judge_bytes(&d3, d, i));
    }
}
