//! Shared helpers of the format checks (C18, C20, C21, C22): a minimal trust-anchor kit that lets
//! published payload (ROA and ASPA content with an arbitrary TAL name) enter a real
//! `ValidationReport`, history installation, the in-process HTTP handler, a loopback HTTP client
//! for the one endpoint that needs a request body, and string generators.

use std::cell::RefCell;
use std::collections::{BTreeMap, HashMap};
use std::io::{Read, Write};
use std::net::{IpAddr, SocketAddr, TcpStream};
use std::path::PathBuf;
use std::sync::Arc;
use std::time::Duration;

use proptest::prelude::*;
use routinator::config::Config;
use routinator::engine::{CaCert, ProcessPubPoint, ProcessRun};
use routinator::http::verif::{Handler, PlainResponse};
use routinator::metrics::{Metrics, RtrServerMetrics, TalMetrics};
use routinator::payload::{SharedHistory, ValidationReport};
use routinator::slurm::LocalExceptions;
use rpki::crypto::keys::{PublicKey, PublicKeyFormat};
use rpki::crypto::signer::{KeyError, Signer, SigningError};
use rpki::crypto::softsigner::{KeyId, OpenSslSigner};
use rpki::crypto::{Signature, SignatureAlgorithm};
use rpki::repository::aspa::{AsProviderAttestation, Aspa, AspaBuilder};
use rpki::repository::cert::{Cert, KeyUsage, Overclaim, ResourceCert, TbsCert};
use rpki::repository::resources::{Asn, Prefix};
use rpki::repository::roa::{Roa, RoaBuilder, RouteOriginAttestation};
use rpki::repository::sigobj::SignedObjectBuilder;
use rpki::repository::tal::{Tal, TalInfo, TalUri};
use rpki::repository::x509::{Time, Validity};
use rpki::rtr::server::NotifySender;
use rpki::uri;

use crate::pay::*;

//------------------------------------------------------------------------------------------
// Signer that signs "one-off" objects with a fixed key instead of generating a key per object.

pub struct PoolSigner {
    inner: OpenSslSigner,
    oneoff: KeyId,
}

impl Signer for PoolSigner {
    type KeyId = KeyId;
    type Error = <OpenSslSigner as Signer>::Error;

    fn create_key(&self, algorithm: PublicKeyFormat) -> Result<Self::KeyId, Self::Error> {
        self.inner.create_key(algorithm)
    }
    fn get_key_info(&self, key: &Self::KeyId) -> Result<PublicKey, KeyError<Self::Error>> {
        self.inner.get_key_info(key)
    }
    fn destroy_key(&self, key: &Self::KeyId) -> Result<(), KeyError<Self::Error>> {
        self.inner.destroy_key(key)
    }
    fn sign<Alg: SignatureAlgorithm, D: AsRef<[u8]> + ?Sized>(&self, key: &Self::KeyId, algorithm: Alg, data: &D) -> Result<Signature<Alg>, SigningError<Self::Error>> {
        self.inner.sign(key, algorithm, data)
    }
    fn sign_one_off<Alg: SignatureAlgorithm, D: AsRef<[u8]> + ?Sized>(&self, algorithm: Alg, data: &D) -> Result<(Signature<Alg>, PublicKey), Self::Error> {
        let sig = match self.inner.sign(&self.oneoff, algorithm, data) {
            Ok(s) => s,
            Err(SigningError::Signer(e)) => return Err(e),
            Err(_) => panic!("one-off key unusable"),
        };
        let key = match self.inner.get_key_info(&self.oneoff) {
            Ok(k) => k,
            Err(KeyError::Signer(e)) => return Err(e),
            Err(_) => panic!("one-off key missing"),
        };
        Ok((sig, key))
    }
    fn rand(&self, target: &mut [u8]) -> Result<(), Self::Error> {
        self.inner.rand(target)
    }
}

//------------------------------------------------------------------------------------------
// Trust-anchor kit

/// One self-signed trust-anchor certificate holding all resources. It is only used to obtain
/// `ResourceCert` / `CaCert` values (validated by rpki's own `validate_ta`) that carry a chosen
/// TAL name, so that ROA / ASPA *content* can be pushed through routinator's real
/// `ValidationReport` → `into_snapshot` path.
pub struct Kit {
    signer: PoolSigner,
    key: KeyId,
    ta_cert: Cert,
    pub tal: Tal,
    pub ta_uri: TalUri,
    obj_uri: uri::Rsync,
    aspa_cache: RefCell<HashMap<(u32, Vec<u32>), AsProviderAttestation>>,
    roa_cache: RefCell<HashMap<String, RouteOriginAttestation>>,
}

fn rsync(s: &str) -> uri::Rsync {
    uri::Rsync::from_string(s.to_string()).expect("rsync uri")
}

impl Kit {
    pub fn new() -> Kit {
        let inner = OpenSslSigner::new();
        let key = inner.create_key(PublicKeyFormat::Rsa).expect("ta key");
        let oneoff = inner.create_key(PublicKeyFormat::Rsa).expect("ee key");
        let signer = PoolSigner { inner, oneoff };
        let pubkey = signer.get_key_info(&key).expect("key info");
        let validity = Validity::new(Time::now() - chrono::Duration::days(2), Time::now() + chrono::Duration::days(365));
        let mut tbs = TbsCert::new(1u64.into(), pubkey.to_subject_name(), validity, None, pubkey.clone(), KeyUsage::Ca, Overclaim::Refuse);
        tbs.set_basic_ca(Some(true));
        tbs.set_ca_repository(Some(rsync("rsync://rv.test/repo/")));
        tbs.set_rpki_manifest(Some(rsync("rsync://rv.test/repo/ta.mft")));
        tbs.build_v4_resource_blocks(|b| b.push(Prefix::new(IpAddr::from([0u8, 0, 0, 0]), 0)));
        tbs.build_v6_resource_blocks(|b| b.push(Prefix::new(IpAddr::from([0u16; 8]), 0)));
        tbs.build_as_resource_blocks(|b| b.push((Asn::MIN, Asn::MAX)));
        let ta_cert = tbs.into_cert(&signer, &key).expect("ta cert");
        let tal_text = format!("rsync://rv.test/ta/ta.cer\n\n{}\n", rpki::util::base64::Xml.encode(pubkey.to_info_bytes().as_ref()));
        let tal = Tal::read_named("rv".to_string(), &mut tal_text.as_bytes()).expect("tal");
        Kit {
            signer,
            key,
            ta_cert,
            tal,
            ta_uri: TalUri::from_string("rsync://rv.test/ta/ta.cer".to_string()).unwrap(),
            obj_uri: rsync("rsync://rv.test/repo/obj"),
            aspa_cache: RefCell::new(HashMap::new()),
            roa_cache: RefCell::new(HashMap::new()),
        }
    }

    /// A validation report (plus matching metrics) whose only validated content is the given
    /// ASPAs, pushed through one publication point of TAL "ta". `config.enable_aspa` must be on.
    pub fn report_with_aspas(&self, config: &Config, aspas: &[MAspa]) -> (ValidationReport, Metrics) {
        let report = ValidationReport::new(config);
        let mut metrics = Metrics::new();
        if !aspas.is_empty() {
            metrics.tals.push(TalMetrics::new(TalInfo::from_name("ta".to_string()).into_arc()));
            let ca = self.ca_cert("ta", 0);
            let mut point = (&report).process_ta(&self.tal, &self.ta_uri, &ca, 0).expect("process_ta").expect("processor");
            let ee = self.resource_cert("ta");
            for a in aspas {
                point.process_aspa(&self.obj_uri, ee.clone(), self.aspa_att(a)).expect("process_aspa");
            }
            point.commit();
        }
        (report, metrics)
    }

    /// The TA certificate validated under a TAL info with the given name.
    pub fn resource_cert(&self, tal_name: &str) -> ResourceCert {
        self.ta_cert.clone().validate_ta(TalInfo::from_name(tal_name.to_string()).into_arc(), false).expect("validate_ta")
    }

    pub fn ca_cert(&self, tal_name: &str, tal_index: usize) -> Arc<CaCert> {
        CaCert::root(self.resource_cert(tal_name), self.ta_uri.clone(), tal_index).expect("CaCert::root")
    }

    /// ASPA content for a model ASPA (signed once, then cached — `AsProviderAttestation` has no
    /// public constructor besides a finished signed object). The provider list must not contain
    /// the customer (rpki's decoder refuses that). The content of rpki 0.19.3's builder iterates
    /// as an *empty* provider set (its captured list keeps the outer SEQUENCE), so the content is
    /// taken from the decoded signed object; for an empty provider list — which the decoder
    /// refuses but the payload layer can hold — the builder's own content is used as it is.
    pub fn aspa_att(&self, a: &MAspa) -> AsProviderAttestation {
        assert!(!a.providers.contains(&a.customer), "normalise ASPAs with servable_aspa first");
        let k = (a.customer, a.providers.clone());
        if let Some(v) = self.aspa_cache.borrow().get(&k) {
            return v.clone();
        }
        let builder = AspaBuilder::new(Asn::from_u32(a.customer), a.providers.iter().map(|p| Asn::from_u32(*p)).collect::<Vec<_>>()).expect("aspa builder");
        let sob = SignedObjectBuilder::new(
            7u64.into(),
            Validity::new(Time::now() - chrono::Duration::days(1), Time::now() + chrono::Duration::days(30)),
            rsync("rsync://rv.test/repo/ta.crl"),
            rsync("rsync://rv.test/ta/ta.cer"),
            self.obj_uri.clone(),
        );
        let aspa = builder.finalize(sob, &self.signer, &self.key).expect("sign aspa");
        let att = if a.providers.is_empty() {
            aspa.content().clone()
        } else {
            Aspa::decode(aspa.to_captured().into_bytes(), false).expect("decode own aspa").content().clone()
        };
        assert_eq!(att.provider_as_set().iter().map(|x| x.into_u32()).collect::<Vec<_>>(), a.providers, "ASPA content does not carry the intended providers");
        self.aspa_cache.borrow_mut().insert(k, att.clone());
        att
    }

    /// ROA content for the given origins, one ROA per origin AS. `RoaBuilder::to_attestation`
    /// of rpki 0.19.3 yields a value whose address iterator panics (the captured prefix list
    /// keeps its outer SEQUENCE), so the content is taken from a signed-and-decoded ROA instead;
    /// results are cached per (AS, prefix list).
    pub fn roa_atts(&self, origins: &[MOrigin]) -> Vec<RouteOriginAttestation> {
        let mut by_asn: BTreeMap<u32, Vec<&MOrigin>> = BTreeMap::new();
        for o in origins {
            by_asn.entry(o.asn).or_default().push(o);
        }
        let mut out = Vec::new();
        for (asn, list) in by_asn {
            let key = format!("{}:{}", asn, list.iter().map(|o| format!("{}/{}-{}", o.addr, o.len, o.max_len)).collect::<Vec<_>>().join(","));
            if let Some(v) = self.roa_cache.borrow().get(&key) {
                out.push(v.clone());
                continue;
            }
            let mut b = RoaBuilder::new(Asn::from_u32(asn));
            for o in &list {
                let ml = if o.max_len == o.len { None } else { Some(o.max_len) };
                b.push_addr(o.addr, o.len, ml);
            }
            let sob = SignedObjectBuilder::new(
                8u64.into(),
                Validity::new(Time::now() - chrono::Duration::days(1), Time::now() + chrono::Duration::days(30)),
                rsync("rsync://rv.test/repo/ta.crl"),
                rsync("rsync://rv.test/ta/ta.cer"),
                self.obj_uri.clone(),
            );
            let roa = b.finalize(sob, &self.signer, &self.key).expect("sign roa");
            let decoded = Roa::decode(roa.to_captured().into_bytes(), false).expect("decode own roa");
            let att = decoded.content().clone();
            self.roa_cache.borrow_mut().insert(key, att.clone());
            out.push(att);
        }
        out
    }
}

/// An ASPA the way it can come out of a validation run: the customer is never its own provider.
pub fn servable_aspa(a: &MAspa) -> MAspa {
    MAspa { customer: a.customer, providers: a.providers.iter().cloned().filter(|p| *p != a.customer).collect() }
}

pub fn servable_item(i: &MItem) -> MItem {
    match i {
        MItem::Aspa(a) => MItem::Aspa(servable_aspa(a)),
        other => other.clone(),
    }
}

//------------------------------------------------------------------------------------------
// Served state

/// What one trust anchor publishes (content of its ROAs and ASPAs).
#[derive(Clone, Debug, Default)]
pub struct PubSpec {
    pub tal_name: String,
    pub origins: Vec<MOrigin>,
    pub aspas: Vec<MAspa>,
}

/// Payload added through SLURM assertions (the only public way to serve router keys).
#[derive(Clone, Debug, Default)]
pub struct LocalSpec {
    pub origins: Vec<(MOrigin, Option<String>)>,
    pub keys: Vec<(MKey, Option<String>)>,
}

pub fn slurm_json(local: &LocalSpec) -> String {
    use serde_json::json;
    let prefixes: Vec<_> = local
        .origins
        .iter()
        .map(|(o, c)| {
            let mut m = serde_json::Map::new();
            m.insert("asn".into(), json!(o.asn));
            m.insert("prefix".into(), json!(format!("{}/{}", o.addr, o.len)));
            if o.max_len != o.len {
                m.insert("maxPrefixLength".into(), json!(o.max_len));
            }
            if let Some(c) = c {
                m.insert("comment".into(), json!(c));
            }
            serde_json::Value::Object(m)
        })
        .collect();
    let keys: Vec<_> = local
        .keys
        .iter()
        .map(|(k, c)| {
            let mut m = serde_json::Map::new();
            m.insert("asn".into(), json!(k.asn));
            m.insert("SKI".into(), json!(rpki::util::base64::Slurm.encode(&k.ski)));
            m.insert("routerPublicKey".into(), json!(rpki::util::base64::Slurm.encode(&k.info)));
            if let Some(c) = c {
                m.insert("comment".into(), json!(c));
            }
            serde_json::Value::Object(m)
        })
        .collect();
    json!({
        "slurmVersion": 1,
        "validationOutputFilters": {"prefixFilters": [], "bgpsecFilters": []},
        "locallyAddedAssertions": {"prefixAssertions": prefixes, "bgpsecAssertions": keys}
    })
    .to_string()
}

pub struct Served {
    pub config: Config,
    pub history: SharedHistory,
    pub handler: Handler,
    pub rtr_metrics: Arc<RtrServerMetrics>,
    _dir: tempfile::TempDir,
}

pub fn base_config(dir: &std::path::Path, history_size: usize) -> Config {
    let mut config = Config::default_with_paths(PathBuf::from(dir.join("routinator.conf")), PathBuf::from(dir.join("cache")));
    config.enable_bgpsec = true;
    config.enable_aspa = true;
    config.history_size = history_size;
    config.no_rir_tals = true;
    config
}

impl Served {
    pub fn new(dir: tempfile::TempDir, history_size: usize, detailed_rtr: bool) -> Served {
        let config = base_config(dir.path(), history_size);
        Self::with_config(dir, config, detailed_rtr)
    }

    pub fn with_config(dir: tempfile::TempDir, config: Config, detailed_rtr: bool) -> Served {
        let history = SharedHistory::from_config(&config);
        let rtr_metrics = Arc::new(RtrServerMetrics::new(detailed_rtr));
        let handler = Handler::new(&config, history.clone(), rtr_metrics.clone(), NotifySender::new());
        Served { config, history, handler, rtr_metrics, _dir: dir }
    }

    /// One validation-run worth of data through the real report → snapshot → history path.
    /// `metrics` must not yet contain TAL entries for `pubs` (they are appended here, in order).
    pub fn update(&self, kit: &Kit, pubs: &[PubSpec], local: &LocalSpec, mut metrics: Metrics) -> bool {
        let report = ValidationReport::new(&self.config);
        let base = metrics.tals.len();
        for (i, p) in pubs.iter().enumerate() {
            let idx = base + i;
            metrics.tals.push(TalMetrics::new(TalInfo::from_name(p.tal_name.clone()).into_arc()));
            let ca = kit.ca_cert(&p.tal_name, idx);
            let mut point = (&report).process_ta(&kit.tal, &kit.ta_uri, &ca, idx).expect("process_ta").expect("processor");
            let ee = kit.resource_cert(&p.tal_name);
            for att in kit.roa_atts(&p.origins) {
                point.process_roa(&kit.obj_uri, ee.clone(), att).expect("process_roa");
            }
            for a in &p.aspas {
                point.process_aspa(&kit.obj_uri, ee.clone(), kit.aspa_att(a)).expect("process_aspa");
            }
            point.commit();
        }
        let exceptions = if local.origins.is_empty() && local.keys.is_empty() {
            LocalExceptions::empty()
        } else {
            LocalExceptions::from_json(&slurm_json(local), true).expect("harness SLURM must parse")
        };
        let changed = self.history.update(report, &exceptions, metrics);
        self.history.mark_update_done();
        changed
    }
}

//------------------------------------------------------------------------------------------
// Runtime + requests

pub fn runtime() -> tokio::runtime::Runtime {
    tokio::runtime::Builder::new_current_thread().enable_all().build().expect("tokio runtime")
}

pub fn get(rt: &tokio::runtime::Runtime, handler: &Handler, uri: &str) -> PlainResponse {
    rt.block_on(handler.request("GET", uri, &[]))
}

/// Percent-encodes everything except unreserved characters (for query values).
pub fn pct(s: &str) -> String {
    let mut out = String::new();
    for b in s.bytes() {
        if b.is_ascii_alphanumeric() || matches!(b, b'-' | b'.' | b'_' | b'~') {
            out.push(b as char);
        } else {
            out.push_str(&format!("%{:02X}", b));
        }
    }
    out
}

/// Finds a free loopback port (probe, then release).
pub fn free_port() -> u16 {
    let l = std::net::TcpListener::bind("127.0.0.1:0").expect("probe port");
    l.local_addr().unwrap().port()
}

/// Starts routinator's real `http_listener` on a loopback port (own thread and runtime) serving
/// the history of the returned `Served`. Three attempts with freshly probed ports.
pub fn spawn_listener(ctx: &crate::core::Ctx) -> Option<(Served, SocketAddr)> {
    for _ in 0..3 {
        let dir = ctx.scratch();
        let mut config = base_config(dir.path(), 2);
        let addr: SocketAddr = format!("127.0.0.1:{}", free_port()).parse().unwrap();
        config.http_listen = vec![addr];
        let served = Served::with_config(dir, config, false);
        let (history, rtrm, cfg) = (served.history.clone(), served.rtr_metrics.clone(), served.config.clone());
        let (tx, rx) = std::sync::mpsc::channel();
        std::thread::spawn(move || {
            let rt = tokio::runtime::Builder::new_current_thread().enable_all().build().unwrap();
            rt.block_on(async move {
                match routinator::http::http_listener(history, rtrm, None, &cfg, NotifySender::new()) {
                    Ok(fut) => {
                        tx.send(true).ok();
                        fut.await
                    }
                    Err(_) => {
                        tx.send(false).ok();
                    }
                }
            });
        });
        if rx.recv_timeout(Duration::from_secs(10)) == Ok(true) {
            return Some((served, addr));
        }
    }
    None
}

/// A minimal blocking HTTP/1.1 client for loopback use: one request, `Connection: close`.
/// Returns (status, headers, body) with chunked transfer coding undone.
pub fn http_request(addr: SocketAddr, method: &str, target: &str, headers: &[(&str, &str)], body: &[u8]) -> Result<(u16, Vec<(String, String)>, Vec<u8>), String> {
    let mut s = TcpStream::connect_timeout(&addr, Duration::from_secs(5)).map_err(|e| format!("connect: {}", e))?;
    s.set_read_timeout(Some(Duration::from_secs(20))).ok();
    s.set_write_timeout(Some(Duration::from_secs(20))).ok();
    let mut req = format!("{} {} HTTP/1.1\r\nHost: {}\r\nConnection: close\r\n", method, target, addr);
    for (k, v) in headers {
        req.push_str(&format!("{}: {}\r\n", k, v));
    }
    if !body.is_empty() || method == "POST" {
        req.push_str(&format!("Content-Length: {}\r\n", body.len()));
    }
    req.push_str("\r\n");
    s.write_all(req.as_bytes()).map_err(|e| format!("write: {}", e))?;
    s.write_all(body).map_err(|e| format!("write body: {}", e))?;
    let mut raw = Vec::new();
    s.read_to_end(&mut raw).map_err(|e| format!("read: {}", e))?;
    let split = raw.windows(4).position(|w| w == b"\r\n\r\n").ok_or("no header end")?;
    let head = String::from_utf8_lossy(&raw[..split]).to_string();
    let mut lines = head.split("\r\n");
    let status_line = lines.next().ok_or("no status line")?;
    let status: u16 = status_line.split_whitespace().nth(1).and_then(|s| s.parse().ok()).ok_or("bad status line")?;
    let hdrs: Vec<(String, String)> = lines.filter_map(|l| l.split_once(':').map(|(k, v)| (k.trim().to_ascii_lowercase(), v.trim().to_string()))).collect();
    let rest = &raw[split + 4..];
    let chunked = hdrs.iter().any(|(k, v)| k == "transfer-encoding" && v.to_ascii_lowercase().contains("chunked"));
    let body = if chunked {
        let mut out = Vec::new();
        let mut pos = 0usize;
        loop {
            let eol = rest[pos..].windows(2).position(|w| w == b"\r\n").ok_or("bad chunk header")? + pos;
            let size_str = String::from_utf8_lossy(&rest[pos..eol]);
            let size = usize::from_str_radix(size_str.split(';').next().unwrap().trim(), 16).map_err(|_| "bad chunk size")?;
            pos = eol + 2;
            if size == 0 {
                break;
            }
            if pos + size > rest.len() {
                return Err("truncated chunk".into());
            }
            out.extend_from_slice(&rest[pos..pos + size]);
            pos += size + 2;
        }
        out
    } else {
        rest.to_vec()
    };
    Ok((status, hdrs, body))
}

//------------------------------------------------------------------------------------------
// The routinator command line in a child process

/// Body of `rvchild routinator …`: the steps of routinator's `main.rs` (prepare, parse the
/// command line, build the configuration and the operation, run it) with its exit codes.
pub fn child_routinator(args: &[String]) -> i32 {
    use routinator::{Config, ExitError, Operation};
    let run = || -> Result<(), ExitError> {
        Operation::prepare()?;
        let cur_dir = std::env::current_dir().map_err(|_| ExitError::Generic)?;
        let argv = std::iter::once("routinator".to_string()).chain(args.iter().cloned());
        let matches = Operation::config_args(Config::config_args(clap::Command::new("routinator"))).get_matches_from(argv);
        let mut config = Config::from_arg_matches(&matches, &cur_dir)?;
        let operation = Operation::from_arg_matches(&matches, &cur_dir, &mut config)?;
        operation.run(config)
    };
    match run() {
        Ok(()) => 0,
        Err(ExitError::Generic) => 1,
        Err(ExitError::IncompleteUpdate) => 2,
        Err(ExitError::Invalid) => 3,
    }
}

/// Runs the routinator command line in a child process; returns (exit code, stdout, stderr).
pub fn run_routinator(args: &[String], cwd: &std::path::Path) -> (Option<i32>, Vec<u8>, Vec<u8>) {
    let exe = std::env::current_exe().expect("current_exe").with_file_name("rvchild");
    let out = std::process::Command::new(&exe).arg("routinator").args(args).current_dir(cwd).stdin(std::process::Stdio::null()).output().unwrap_or_else(|e| panic!("cannot run {}: {}", exe.display(), e));
    (out.status.code(), out.stdout, out.stderr)
}

//------------------------------------------------------------------------------------------
// String generators

/// Characters that matter to some formatter, without ASCII digits (so a generated name can
/// never imitate the head of a CSV / RPSL record) and without '/' and NUL exclusions — names
/// are labels (`tal-labels`), not file names.
pub const SPECIALS: &[char] = &[
    '"', '\\', '\n', '\r', '\t', '\u{0}', '\u{1}', '\u{8}', '\u{c}', '\u{1b}', '\u{1f}', '\u{7f}', ' ', ',', ';', ':', '\'', '/', '{', '}', '[', ']', '#', '=', '<', '>', '&', '%', '+', '-', '_', '.', '|', 'é', 'ß', 'Ж', '中', '😀',
    '\u{2028}', '\u{feff}', '\u{301}', '\u{fffd}', '\u{10ffff}',
];

pub fn is_json_ctl(c: char) -> bool {
    (c as u32) < 0x20
}

/// String class selector: which "dangerous" characters may occur.
#[derive(Clone, Copy, Debug, PartialEq, Eq)]
pub enum StrClass {
    Plain,
    /// anything except `"`, `\` and U+0000–U+001F
    Tame,
    /// may contain `"` and `\` but no control characters
    Quoted,
    /// may contain control characters other than LF (and no `"`/`\`)
    Ctl,
    /// anything
    Wild,
}

pub fn text_strategy(class: StrClass, max: usize) -> BoxedStrategy<String> {
    let letters: Vec<char> = "abcxyzTALripeARIN".chars().collect();
    let pool: Vec<char> = match class {
        StrClass::Plain => letters.clone(),
        StrClass::Tame => letters.iter().cloned().chain(SPECIALS.iter().cloned().filter(|c| *c != '"' && *c != '\\' && !is_json_ctl(*c))).collect(),
        StrClass::Quoted => letters.iter().cloned().chain(SPECIALS.iter().cloned().filter(|c| !is_json_ctl(*c))).collect(),
        StrClass::Ctl => letters.iter().cloned().chain(SPECIALS.iter().cloned().filter(|c| *c != '"' && *c != '\\' && *c != '\n')).collect(),
        StrClass::Wild => letters.iter().cloned().chain(SPECIALS.iter().cloned()).collect(),
    };
    prop::collection::vec(prop::sample::select(pool), 0..=max).prop_map(|v| v.into_iter().collect::<String>()).boxed()
}

/// Mixed-class text: mostly tame, with all other classes represented.
pub fn mixed_text(max: usize) -> BoxedStrategy<String> {
    prop_oneof![
        2 => text_strategy(StrClass::Plain, max),
        4 => text_strategy(StrClass::Tame, max),
        3 => text_strategy(StrClass::Quoted, max),
        2 => text_strategy(StrClass::Ctl, max),
        2 => text_strategy(StrClass::Wild, max),
    ]
    .boxed()
}

pub fn has_quote_or_backslash(s: &str) -> bool {
    s.contains('"') || s.contains('\\')
}

pub fn has_json_ctl(s: &str) -> bool {
    s.chars().any(is_json_ctl)
}

/// Does rendering this string inside a JSON string literal require any escaping at all?
pub fn needs_json_escape(s: &str) -> bool {
    has_quote_or_backslash(s) || has_json_ctl(s)
}
