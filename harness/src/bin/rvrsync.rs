//! Fake rsync used as `rsync-command`: mirrors <root>/<host>/<module>/ to the destination.
//!
//! Options (passed through routinator's `rsync-args`): --rv-root=<dir> --rv-log=<file>.
//! Control files: <root>/<host>/<module>.fail (exit 10, destination untouched),
//! <root>/<host>/<module>.hang=<secs> is not supported here (see rvchild).
//! Last two arguments are the source `rsync://host/module/` and the destination directory.
use std::fs;
use std::io::Write;
use std::path::{Path, PathBuf};

fn mirror(src: &Path, dst: &Path) -> std::io::Result<()> {
    fs::create_dir_all(dst)?;
    // delete what is not in src
    for entry in fs::read_dir(dst)? {
        let entry = entry?;
        let target = src.join(entry.file_name());
        let ft = entry.file_type()?;
        if ft.is_dir() {
            if !target.is_dir() {
                fs::remove_dir_all(entry.path())?;
            }
        } else if !target.is_file() {
            fs::remove_file(entry.path())?;
        }
    }
    for entry in fs::read_dir(src)? {
        let entry = entry?;
        let target = dst.join(entry.file_name());
        if entry.file_type()?.is_dir() {
            mirror(&entry.path(), &target)?;
        } else {
            let data = fs::read(entry.path())?;
            let same = fs::read(&target).map(|old| old == data).unwrap_or(false);
            if !same {
                fs::write(&target, data)?;
            }
        }
    }
    Ok(())
}

fn main() {
    let args: Vec<String> = std::env::args().skip(1).collect();
    if args.iter().any(|a| a == "-h") {
        println!("rvrsync fake rsync  --contimeout");
        return;
    }
    let mut root: Option<PathBuf> = None;
    let mut log: Option<PathBuf> = None;
    let mut max_size: Option<u64> = None;
    for a in &args {
        if let Some(v) = a.strip_prefix("--rv-root=") {
            root = Some(PathBuf::from(v));
        } else if let Some(v) = a.strip_prefix("--rv-log=") {
            log = Some(PathBuf::from(v));
        } else if let Some(v) = a.strip_prefix("--max-size=") {
            max_size = v.parse().ok();
        }
    }
    let _ = max_size;
    if args.len() < 2 {
        std::process::exit(1);
    }
    let src = &args[args.len() - 2];
    let dst = PathBuf::from(&args[args.len() - 1]);
    let Some(root) = root else {
        eprintln!("rvrsync: no --rv-root");
        std::process::exit(1);
    };
    let Some(rest) = src.strip_prefix("rsync://") else {
        eprintln!("rvrsync: bad source {}", src);
        std::process::exit(1);
    };
    let rest = rest.trim_end_matches('/');
    if let Some(log) = log {
        if let Ok(mut f) = fs::OpenOptions::new().create(true).append(true).open(log) {
            // one write call per line: concurrent invocations append to the same file, and `writeln!`
            // may split the text and the newline into two writes that interleave
            let line = format!("{}\n", rest);
            let _ = f.write_all(line.as_bytes());
        }
    }
    let srcdir = root.join(rest);
    let fail = root.join(format!("{}.fail", rest));
    if fail.exists() {
        eprintln!("rvrsync: connection refused (scripted)");
        std::process::exit(10);
    }
    if !srcdir.is_dir() {
        eprintln!("rvrsync: unknown module {}", rest);
        std::process::exit(23);
    }
    if let Err(e) = mirror(&srcdir, &dst) {
        eprintln!("rvrsync: {}", e);
        std::process::exit(11);
    }
}
