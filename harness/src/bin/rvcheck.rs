//! rvcheck <Cxx> <quick|thorough> | rvcheck <Cxx> --replay <file>
use rv::core::*;

struct StderrLogger;
impl log::Log for StderrLogger {
    fn enabled(&self, m: &log::Metadata) -> bool {
        m.level() <= log::Level::Debug && !m.target().starts_with("rustls") && !m.target().starts_with("hyper") && !m.target().starts_with("reqwest")
    }
    fn log(&self, r: &log::Record) {
        if self.enabled(r.metadata()) {
            eprintln!("[{}] {}", r.level(), r.args());
        }
    }
    fn flush(&self) {}
}
static LOGGER: StderrLogger = StderrLogger;

fn main() {
    if std::env::var_os("RV_LOG").is_some() {
        let _ = log::set_logger(&LOGGER);
        log::set_max_level(log::LevelFilter::Debug);
    }
    let args: Vec<String> = std::env::args().collect();
    if args.len() < 3 {
        eprintln!("usage: rvcheck <id> <quick|thorough> | rvcheck <id> --replay <file> | rvcheck --list");
        std::process::exit(2);
    }
    let id = args[1].as_str();
    let reg = rv::registry();
    let Some((_, f)) = reg.iter().find(|(n, _)| *n == id) else {
        eprintln!("unknown property {}", id);
        std::process::exit(2);
    };
    let (tier, replay) = match args[2].as_str() {
        "quick" => (Tier::Quick, None),
        "thorough" => (Tier::Thorough, None),
        "--replay" => {
            let p = std::path::PathBuf::from(args.get(3).expect("replay path"));
            (Tier::Quick, Some(p))
        }
        other => {
            eprintln!("unknown tier {}", other);
            std::process::exit(2);
        }
    };
    let mut ctx = Ctx::new(id, tier);
    let mut rep = Report::new();
    let replay_doc = replay.as_ref().map(|p| {
        ctx.strict = std::env::var("VERIF_REPLAY_STRICT").map(|v| v != "0").unwrap_or(true);
        replay_value(p).unwrap_or_else(|e| {
            eprintln!("{}", e);
            std::process::exit(2)
        })
    });
    // Harness panics are infrastructure failures (exit 2), never violations.
    let res = std::panic::catch_unwind(std::panic::AssertUnwindSafe(|| f(&ctx, &mut rep, replay_doc.as_ref())));
    if let Err(e) = res {
        let msg = e.downcast_ref::<String>().cloned().or_else(|| e.downcast_ref::<&str>().map(|s| s.to_string())).unwrap_or_default();
        eprintln!("harness panic in {}: {}", id, msg);
        std::process::exit(2);
    }
    if replay.is_none() {
        write_evidence(&ctx, &rep);
    }
    println!(
        "{} {}: evaluations={} distinct_nontrivial={} known_hits={:?} dropped={:?} violations={} wall={:.1}s",
        id, tier.name(), rep.evaluations, rep.distinct_nontrivial.len(), rep.known_hits, rep.dropped, rep.violations.len(), ctx.start.elapsed().as_secs_f64()
    );
    if rep.violated() {
        std::process::exit(1);
    }
    // A check that had to drop most of its cases (preconditions not met, faults not applied, transport
    // trouble) has decided nothing: inconclusive (exit 2), never "held" and never a violation.
    let dropped: u64 = rep.dropped.iter().filter(|(k, _)| !k.starts_with("excluded-known-shape")).map(|(_, n)| *n).sum();
    if replay.is_none() && rep.evaluations >= 20 && dropped * 2 > rep.evaluations {
        eprintln!("{}: INCONCLUSIVE: {} of {} cases were dropped without a verdict: {:?}", id, dropped, rep.evaluations, rep.dropped);
        std::process::exit(2);
    }
    std::process::exit(0);
}
