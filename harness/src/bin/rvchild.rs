//! rvchild <role> [args…] — subprocess roles of the harness.
//!   routinator <args…>   the routinator command line (same steps as routinator's main.rs), in a
//!                        process of its own because logging can be set up only once per process.
//!   rrdp-update <dir> <notify uri> <proxy port>
//!                        one RRDP client update through routinator's collector (C24 victim; kill
//!                        points are armed through ROUTINATOR_VERIF_KILL_AT / _KILL_TRACE).
fn main() {
    let args: Vec<String> = std::env::args().collect();
    match args.get(1).map(|s| s.as_str()) {
        Some("routinator") => std::process::exit(rv::fmtx::child_routinator(&args[2..])),
        Some("rrdp-update") => std::process::exit(rv::c24::child_rrdp_update(&args[2..])),
        _ => {
            eprintln!("usage: rvchild <role> [args…]");
            std::process::exit(2);
        }
    }
}
