//! rvchild <role> [args…] — subprocess roles of the harness.
//!   routinator <args…>   the routinator command line (same steps as routinator's main.rs), in a
//!                        process of its own because logging can be set up only once per process.
//!   bytes-worker …       C27: executes decoders on corrupt input (allocation cap, CPU budget, panics reported)
//!   crash-victim <job>   one engine run over the directories of an E-rpki world (see rv::crash);
//!                        killed at a numbered kill point through ROUTINATOR_VERIF_KILL_AT.
//!   rrdp-update <dir> <notify uri> <proxy port>   C24: one RRDP client update against the parent's HTTPS server
#[global_allocator]
static ALLOC: rv::bw::TrackAlloc = rv::bw::TrackAlloc;

fn main() {
    let args: Vec<String> = std::env::args().collect();
    match args.get(1).map(|s| s.as_str()) {
        Some("routinator") => std::process::exit(rv::fmtx::child_routinator(&args[2..])),
        Some("bytes-worker") => rv::c27::child_main(&args[2..]),
        Some("crash-victim") => std::process::exit(rv::crash::victim_main(&args[2..])),
        Some("rrdp-update") => std::process::exit(rv::c24::child_rrdp_update(&args[2..])),
        _ => {
            eprintln!("usage: rvchild <role> [args…]");
            std::process::exit(2);
        }
    }
}
