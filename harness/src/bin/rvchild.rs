fn main(){}
