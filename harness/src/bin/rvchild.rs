//! rvchild <role> [args…] — subprocess roles of the harness.
#[global_allocator]
static ALLOC: rv::bw::TrackAlloc = rv::bw::TrackAlloc;

fn main() {
    let args: Vec<String> = std::env::args().collect();
    match args.get(1).map(|s| s.as_str()) {
        // C27: executes decoders on corrupt input (allocation cap, CPU budget, panics reported)
        Some("bytes-worker") => rv::c27::child_main(&args[2..]),
        _ => {}
    }
}
