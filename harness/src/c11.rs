//! C11 Deltas describe exactly the change between two data sets.

use proptest::prelude::*;
use routinator::payload::{PayloadDelta, PayloadSnapshot};
use rpki::rtr::Serial;

use crate::core::*;
use crate::pay::*;

/// The oracle, shared with the byte-level fuzz target.
pub fn judge(old: &MSet, new: &MSet, old_s: &PayloadSnapshot, new_s: &PayloadSnapshot, serial: u32, info: &mut CaseInfo) -> Verdict {
    let delta = PayloadDelta::construct(old_s, new_s, Serial::from(serial));
    let equal = old == new;
    let types_differing = (old.origins != new.origins) as u8 + (old.keys != new.keys) as u8 + (old.aspas != new.aspas) as u8;
    let provider_only = old.aspas.iter().any(|(c, p)| new.aspas.get(c).map(|q| q != p).unwrap_or(false));
    info.nt(!old.is_empty() && !new.is_empty() && (types_differing >= 2 || provider_only));
    info.class(if equal { "equal" } else { "differ" });
    if provider_only {
        info.class("aspa_provider_change");
    }
    let delta = match delta {
        None => {
            return if equal { Verdict::Pass } else { Verdict::fail("C11/none-for-different-sets", format!("construct returned None but sets differ: old={:?} new={:?}", old, new)) };
        }
        Some(d) => d,
    };
    if equal {
        return Verdict::fail("C11/some-for-equal-sets", format!("construct returned a delta for equal sets: {:?}", delta_actions(&delta)));
    }
    if delta.is_empty() {
        return Verdict::fail("C11/empty-some", "construct returned Some(empty delta)");
    }
    if delta.serial() != Serial::from(serial.wrapping_add(1)) {
        return Verdict::fail("C11/serial", format!("delta serial {:?} for base serial {}", delta.serial(), serial));
    }
    let actions = delta_actions(&delta);
    let ann = actions.iter().filter(|a| a.1).count();
    let wd = actions.len() - ann;
    if ann != delta.announce_len() || wd != delta.withdraw_len() {
        return Verdict::fail("C11/counts", format!("announce_len={} withdraw_len={} but listed {} / {}", delta.announce_len(), delta.withdraw_len(), ann, wd));
    }
    // announces: absent from old (or ASPA changed) and present in new; withdraws: in old, not in new.
    for (item, announce) in &actions {
        let ok = match (item, announce) {
            (MItem::Origin(o), true) => !old.origins.contains(o) && new.origins.contains(o),
            (MItem::Origin(o), false) => old.origins.contains(o) && !new.origins.contains(o),
            (MItem::Key(k), true) => !old.keys.contains(k) && new.keys.contains(k),
            (MItem::Key(k), false) => old.keys.contains(k) && !new.keys.contains(k),
            (MItem::Aspa(a), true) => old.aspas.get(&a.customer) != Some(&a.providers) && new.aspas.get(&a.customer) == Some(&a.providers),
            (MItem::Aspa(a), false) => old.aspas.contains_key(&a.customer) && !new.aspas.contains_key(&a.customer),
        };
        if !ok {
            return Verdict::fail("C11/wrong-action", format!("action {:?} announce={} not justified by old={:?} new={:?}", item, announce, old, new));
        }
    }
    // each item at most once
    let mut seen = std::collections::HashSet::new();
    for (item, _) in &actions {
        let k = match item {
            MItem::Aspa(a) => MItem::Aspa(MAspa { customer: a.customer, providers: vec![] }),
            other => other.clone(),
        };
        if !seen.insert(k) {
            return Verdict::fail("C11/duplicate-action", format!("item {:?} listed twice", item));
        }
    }
    match old.apply(&actions) {
        Err(e) => Verdict::fail("C11/apply-error", e),
        Ok(res) if res != *new => Verdict::fail("C11/apply-mismatch", format!("old+delta={:?} but new={:?}", res, new)),
        Ok(_) => Verdict::Pass,
    }
}

fn prop_pair(case: &(Vec<MSet>, u32), info: &mut CaseInfo) -> Verdict {
    let (sets, serial) = case;
    let (old, new) = (&sets[0], &sets[1]);
    judge(old, new, &old.to_snapshot(), &new.to_snapshot(), *serial, info)
}

/// Byte-level entry (also the libFuzzer target body): two Arbitrary snapshots.
pub fn fuzz_bytes(data: &[u8]) -> Result<(), String> {
    let mut info = CaseInfo::default();
    match judge_bytes(data, &mut info) {
        Verdict::Fail { key, msg } => Err(format!("{}: {}", key, msg)),
        _ => Ok(()),
    }
}

pub fn judge_bytes(data: &[u8], info: &mut CaseInfo) -> Verdict {
    use arbitrary::{Arbitrary, Unstructured};
    let mut u = Unstructured::new(data);
    let pair = match <[PayloadSnapshot; 2]>::arbitrary(&mut u) {
        Ok(p) => p,
        Err(_) => return Verdict::Dropped("arbitrary_exhausted".into()),
    };
    let (old, new) = match (MSet::from_snapshot(&pair[0]), MSet::from_snapshot(&pair[1])) {
        (Ok(a), Ok(b)) => (a, b),
        _ => return Verdict::Dropped("arbitrary_duplicate_keys".into()),
    };
    judge(&old, &new, &pair[0], &pair[1], 7, info)
}

pub fn run(ctx: &Ctx, rep: &mut Report, replay: Option<&serde_json::Value>) {
    rep.rule("pairs of data sets drawn as subsets of one generated universe (<=14 items: origins v4/v6 with boundary lengths and max-lens, router keys, ASPAs over 5 customers) plus byte-driven Arbitrary snapshots; non-trivial = both sets non-empty and differing in >=2 payload types or by an ASPA provider-only change; distinct by serialised case");
    rep.assume("snapshot collections hold distinct keys (precondition guaranteed by SnapshotBuilder's hash maps)");
    let pair_strategy = || (sets_strategy(2, 2, 14), prop_oneof![Just(0u32), Just(u32::MAX), any::<u32>()]);
    if let Some(v) = replay {
        let t: Tagged<serde_json::Value> = serde_json::from_value(v.clone()).expect("replay");
        match t.sub.as_str() {
            "pairs" => run_case(ctx, rep, "pairs", &serde_json::from_value::<(Vec<MSet>, u32)>(t.case).expect("case"), prop_pair),
            "bytes" => run_case(ctx, rep, "bytes", &serde_json::from_value::<Vec<u8>>(t.case).expect("case"), |d, i| judge_bytes(d, i)),
            other => panic!("unknown sub {}", other),
        }
        return;
    }
    run_prop(ctx, rep, "pairs", ctx.tier.pick(60_000, 1_500_000), pair_strategy(), prop_pair);
    run_prop(ctx, rep, "bytes", ctx.tier.pick(20_000, 500_000), prop::collection::vec(any::<u8>(), 0..600), |d, i| judge_bytes(d, i));
}
