//! C24 A crash never leaves an RRDP copy that is silently wrong.
//!
//! Crash-point enumeration (E-crash, DESIGN §0.8) over RRDP client updates.
//!
//! * A generated scenario is a publisher history v0 → v1 → v2 (→ follow-ups) over 8 URIs and six content
//!   sizes (three of them share one archive page class, so in-place rewrites, re-allocations into freed
//!   space, appends and end-of-file truncations all occur). Four kinds of v1→v2 step: snapshot only,
//!   one multi-element delta, several deltas, one delta followed by a new session.
//! * The *pre-state* (local copy at v1) is produced by routinator's real collector: snapshot at v0, then
//!   a delta update to v1, so the archive already contains freed blocks.
//! * The *victim* is a child process (`rvchild rrdp-update …`) that performs the update v1 → v2 against
//!   the in-harness HTTPS server of the parent and is killed (`abort()`, hook `verif::kill_point`) at kill
//!   point k; pass 0 traces the M points of the scenario. All k in 0..=M run when M ≤ 400, else the first
//!   and last 20 points, every point whose label differs from its predecessor's and a seeded sample.
//! * Afterwards the honest server continues (same version, more deltas, deltas withheld, new session) and
//!   1–3 further updates run in-process on the post-kill cache, the earlier ones optionally with a transient
//!   HTTP error (notification 500 / cut, snapshot 500 / cut, first needed delta 404, last delta cut, delta
//!   and snapshot both failing); the notification is served with an honest ETag in half of the scenarios,
//!   so a 304 is answered exactly when the client holds the current notification.
//! * Oracle, per run after the crash: `Run::repository` hands out an RRDP repository ⇒ the archive (read from a
//!   copy of the file with routinator's own reader) holds exactly the server's objects at the notified
//!   serial, byte for byte, the state record names that session and serial, and `load_object` agrees for
//!   every URI of the universe. Ok(None) / a failed run are "not updated" and always acceptable.
//!   Uninterrupted updates (k = 0 and the pre-state construction) are judged by the same rule.

use std::collections::{BTreeMap, BTreeSet};
use std::path::{Path, PathBuf};
use std::process::Command;
use std::sync::Arc;
use std::time::Duration;

use bytes::Bytes;
use proptest::prelude::*;
use routinator::collector::{Collector, RrdpArchive};
use routinator::config::Config;
use rpki::uri;
use serde::{Deserialize, Serialize};
use uuid::Uuid;

use crate::clibin::{parallel_map, run_watchdog};
use crate::core::*;
use crate::erun::scratch_base;
use crate::httpsrv::*;

pub const IMPLEMENTED: bool = true;

const HOST: &str = "rrdp.rpki.test";
const N_URIS: u8 = 8;
const SIZES: [usize; 6] = [1, 60, 120, 200, 700, 3000];
const N_SIZES: u8 = SIZES.len() as u8;
const MAX_DELTA_COUNT: usize = 10;
const MAX_POINTS: usize = 400;
/// failure class shared with C25's finding `C25/modified-copy-reused-after-failed-update`
const WHAT_REUSE: &str = "modified-copy-reused-after-failed-update";

/// (uri index, Some(content index) = publish/update | None = withdraw)
pub type Change = (u8, Option<u8>);
pub type Delta = Vec<Change>;

#[derive(Serialize, Deserialize, Clone, Copy, Debug, PartialEq, Eq)]
pub enum Kind {
    SnapshotOnly,
    SingleDelta,
    MultiDelta,
    DeltaThenNewSession,
}

impl Kind {
    fn name(self) -> &'static str {
        match self {
            Kind::SnapshotOnly => "snapshot-only",
            Kind::SingleDelta => "single-delta",
            Kind::MultiDelta => "multi-delta",
            Kind::DeltaThenNewSession => "delta-then-new-session",
        }
    }
}

const KINDS: [Kind; 4] = [Kind::SnapshotOnly, Kind::SingleDelta, Kind::MultiDelta, Kind::DeltaThenNewSession];

#[derive(Serialize, Deserialize, Clone, Debug, PartialEq, Eq)]
pub struct Scenario {
    /// seeds the session ids
    pub seed: u64,
    pub kind: Kind,
    /// notification served with an ETag and honest conditional handling
    pub etag: bool,
    /// first published object set (one delta, serial 2); the client takes the snapshot
    pub v0: Vec<(u8, u8)>,
    /// deltas leading to v1; the client follows them (pre-state of the victim)
    pub v1: Vec<Delta>,
    /// deltas leading to v2; the victim's update (kind SnapshotOnly: the server then withholds all deltas)
    pub v2: Vec<Delta>,
}

#[derive(Serialize, Deserialize, Clone, Debug, PartialEq, Eq)]
pub enum Advance {
    /// server unchanged
    Same,
    /// further deltas
    Deltas(Vec<Delta>),
    /// a change, after which the server lists no deltas at all
    Withheld(Delta),
    /// new session (serial 1), optionally followed by one delta in the new session
    NewSession(Option<Delta>),
}

#[derive(Serialize, Deserialize, Clone, Copy, Debug, PartialEq, Eq)]
pub enum Fault {
    None,
    N500,
    NCut,
    S500,
    SCut,
    /// first needed delta answers 404 (snapshot fallback works)
    DFirst404,
    /// last needed delta is cut mid-body after the earlier ones were applied (snapshot fallback works)
    DLastCut,
    /// first needed delta 404 and snapshot 500: the whole update fails
    DFirst404S500,
    /// last needed delta cut and snapshot 500: the whole update fails after deltas were applied in place
    DLastCutS500,
    /// NOT honest, never generated: a lagging cache still serves the notification of v1 (directed probe of the
    /// relation to C25's modified-copy finding only)
    NStaleV1,
}

impl Fault {
    fn name(self) -> &'static str {
        match self {
            Fault::None => "none",
            Fault::N500 => "N500",
            Fault::NCut => "Ncut",
            Fault::S500 => "S500",
            Fault::SCut => "Scut",
            Fault::DFirst404 => "Dfirst404",
            Fault::DLastCut => "Dlastcut",
            Fault::DFirst404S500 => "Dfirst404+S500",
            Fault::DLastCutS500 => "Dlastcut+S500",
            Fault::NStaleV1 => "stale-notification-of-v1",
        }
    }
}

#[derive(Serialize, Deserialize, Clone, Debug, PartialEq, Eq)]
pub struct Follow {
    pub adv: Advance,
    pub fault: Fault,
}

impl Follow {
    fn name(&self) -> String {
        let a = match &self.adv {
            Advance::Same => "same".to_string(),
            Advance::Deltas(d) => format!("deltas{}", d.len()),
            Advance::Withheld(_) => "withheld".to_string(),
            Advance::NewSession(None) => "newsession".to_string(),
            Advance::NewSession(Some(_)) => "newsession+delta".to_string(),
        };
        format!("{}+{}", a, self.fault.name())
    }
}

fn follow_names(f: &[Follow]) -> String {
    if f.is_empty() {
        "-".to_string()
    } else {
        f.iter().map(|x| x.name()).collect::<Vec<_>>().join(">")
    }
}

/// One executed case: scenario, kill point (0 = the victim is not killed), what follows.
#[derive(Serialize, Deserialize, Clone, Debug, PartialEq, Eq)]
pub struct Case {
    pub sc: Scenario,
    pub k: u32,
    /// kill point of a second victim run on the copy the first crash left (0 = no second victim)
    #[serde(default)]
    pub k2: u32,
    pub follow: Vec<Follow>,
}

/// What the strategy generates per scenario: the scenario, a pool of follow-up plans and the sampling seed.
#[derive(Clone, Debug)]
pub struct Gen {
    pub sc: Scenario,
    pub plans: Vec<Vec<Follow>>,
    pub sample_seed: u64,
}

//------------------------------------------------------------------------------------------
// Content and publisher

pub fn obj_uri(u: u8) -> String {
    format!("rsync://rv.rpki.test/repo/o{}.roa", u % N_URIS)
}

pub fn content(u: u8, c: u8) -> Bytes {
    let u = u % N_URIS;
    let c = c % N_SIZES;
    let len = SIZES[c as usize];
    if len == 1 {
        return Bytes::from(vec![b'A' + u * N_SIZES + c]);
    }
    let mut v = format!("{}:{}:", u, c).into_bytes();
    while v.len() < len {
        v.push(b'a' + ((v.len() as u8).wrapping_mul(7).wrapping_add(u.wrapping_mul(3)).wrapping_add(c) % 26));
    }
    v.truncate(len);
    Bytes::from(v)
}

fn universe() -> Vec<uri::Rsync> {
    (0..N_URIS).map(|u| uri::Rsync::from_string(obj_uri(u)).expect("uri")).collect()
}

fn to_changes(d: &Delta) -> Vec<(String, Option<Bytes>)> {
    d.iter().map(|(u, c)| (obj_uri(*u), c.map(|c| content(*u, c)))).collect()
}

fn server_v0(sc: &Scenario) -> RrdpServer {
    let mut s = RrdpServer::new(HOST, "rrdp", sc.seed);
    s.max_deltas = 24;
    let first: Delta = sc.v0.iter().map(|(u, c)| (*u, Some(*c))).collect();
    s.apply(&to_changes(&first));
    s
}

fn to_v1(s: &mut RrdpServer, sc: &Scenario) {
    for d in &sc.v1 {
        s.apply(&to_changes(d));
    }
}

fn to_v2(s: &mut RrdpServer, sc: &Scenario) {
    for d in &sc.v2 {
        s.apply(&to_changes(d));
    }
    if sc.kind == Kind::SnapshotOnly {
        s.trim(0);
    }
}

fn advance(s: &mut RrdpServer, adv: &Advance) {
    match adv {
        Advance::Same => {}
        Advance::Deltas(ds) => {
            for d in ds {
                s.apply(&to_changes(d));
            }
        }
        Advance::Withheld(d) => {
            s.apply(&to_changes(d));
            s.trim(0);
        }
        Advance::NewSession(d) => {
            s.new_session();
            if let Some(d) = d {
                s.apply(&to_changes(d));
            }
        }
    }
}

fn notification_resp(server: &RrdpServer, etag: bool) -> Resp {
    let body = server.notification_xml();
    if etag {
        let tag = format!("\"{}\"", &sha256_hex(&body)[..16]);
        Resp::ok(body).etag(&tag).conditional()
    } else {
        Resp::ok(body)
    }
}

/// Puts the truthful files of the current version on the HTTPS server.
fn install(srv: &HttpsServer, server: &RrdpServer, etag: bool) {
    srv.clear_host(HOST);
    srv.set(HOST, &server.notify_path(), notification_resp(server, etag));
    srv.set(HOST, &server.snapshot_path(), Resp::ok(server.snapshot_xml()));
    for d in &server.deltas {
        srv.set(HOST, &server.delta_path(d.serial), Resp::ok(render_delta(&server.session, d.serial, &d.els)));
    }
}

//------------------------------------------------------------------------------------------
// Client side (shared by the parent and the child role)

pub fn c24_config(dir: &Path, proxy_port: u16) -> Config {
    let mut c = Config::default_with_paths(dir.join("routinator.conf"), dir.join("cache"));
    c.no_rir_tals = true;
    c.rrdp_root_certs = vec![tls_ca_path()];
    c.rrdp_proxies = vec![format!("http://127.0.0.1:{}", proxy_port)];
    c.rrdp_timeout = Some(Duration::from_secs(60));
    c.rrdp_connect_timeout = Some(Duration::from_secs(20));
    c.disable_rsync = true;
    c.rrdp_max_delta_count = MAX_DELTA_COUNT;
    c.log_repository_issues = std::env::var_os("RV_LOG").is_some();
    c
}

/// What one client update reported.
#[derive(Serialize, Deserialize, Clone, Debug, PartialEq, Eq)]
pub struct UpdateOut {
    /// "updated" (RRDP repository handed out) | "none" | "non-rrdp" | "retry" | "fatal" | "infra:<what>"
    pub result: String,
    /// for "updated": uri -> "absent" | "err" | "<len>:<sha256>" as returned by `load_object`
    pub loads: BTreeMap<String, String>,
}

fn digest(data: &[u8]) -> String {
    format!("{}:{}", data.len(), sha256_hex(data))
}

fn ca_repo() -> uri::Rsync {
    uri::Rsync::from_string("rsync://rv.rpki.test/repo/".into()).expect("uri")
}

/// The CA certificate naming `notify` as its rpkiNotify, issued once per process (parent only: the child reads
/// the bytes from `<dir>/ta.cer` so that it does not have to load the key pool).
fn ca_cert_bytes(notify: &uri::Https) -> Bytes {
    static CACHE: std::sync::Mutex<Option<(String, Bytes)>> = std::sync::Mutex::new(None);
    let mut c = CACHE.lock().unwrap_or_else(|e| e.into_inner());
    if let Some((n, b)) = c.as_ref() {
        if n == notify.as_str() {
            return b.clone();
        }
    }
    let b = ta_cert_bytes(0, &ca_repo(), Some(notify));
    *c = Some((notify.as_str().to_string(), b.clone()));
    b
}

fn ca_from_bytes(bytes: Bytes) -> Option<Arc<routinator::engine::CaCert>> {
    use rpki::repository::cert::Cert;
    use rpki::repository::tal::{TalInfo, TalUri};
    let cert = Cert::decode(bytes).ok()?;
    let cert = cert.validate_ta(TalInfo::from_name("rv".into()).into_arc(), false).ok()?;
    let uri = TalUri::Rsync(ca_repo().join(b"ta.cer").ok()?);
    routinator::engine::CaCert::root(cert, uri, 0).ok()
}

/// A collector over `<dir>/cache` reaching the HTTPS server through its proxy port.
pub fn new_collector(dir: &Path, proxy_port: u16) -> Result<Collector, String> {
    let config = c24_config(dir, proxy_port);
    let mut collector = Collector::new(&config).map_err(|_| "collector_new".to_string())?;
    collector.ignite().map_err(|_| "collector_ignite".to_string())?;
    Ok(collector)
}

/// One client update through routinator's collector: `Collector::start` → `Run::repository(&ca)`.
pub fn client_update(dir: &Path, proxy_port: u16, notify: &uri::Https) -> UpdateOut {
    match new_collector(dir, proxy_port) {
        Ok(c) => client_update_with(&c, ca_cert_bytes(notify)),
        Err(e) => UpdateOut { result: format!("infra:{}", e), loads: BTreeMap::new() },
    }
}

/// One client update with an existing collector (a long-running routinator keeps its collector across runs; the
/// collector holds no per-repository state, so this equals a restart as far as the local copy is concerned).
pub fn client_update_with(collector: &Collector, ca_bytes: Bytes) -> UpdateOut {
    let Some(ca) = ca_from_bytes(ca_bytes) else {
        return UpdateOut { result: "infra:ca_cert".into(), loads: BTreeMap::new() };
    };
    let run = collector.start();
    let res = run.repository(&ca);
    let mut loads = BTreeMap::new();
    let result = match &res {
        Ok(Some(repo)) if repo.is_rrdp() => {
            for u in universe() {
                let v = match repo.load_object(&u) {
                    Ok(Some(d)) => digest(&d),
                    Ok(None) => "absent".to_string(),
                    Err(_) => "err".to_string(),
                };
                loads.insert(u.to_string(), v);
            }
            "updated"
        }
        Ok(Some(_)) => "non-rrdp",
        Ok(None) => "none",
        Err(e) if e.is_fatal() => "fatal",
        Err(_) => "retry",
    };
    UpdateOut { result: result.to_string(), loads }
}

/// `rvchild rrdp-update <dir> <notify uri> <proxy port>`: one client update, result as JSON on stdout.
/// Kill points are armed through the environment by the parent.
pub fn child_rrdp_update(args: &[String]) -> i32 {
    // no core files from the intended abort()
    unsafe {
        let lim = libc::rlimit { rlim_cur: 0, rlim_max: 0 };
        libc::setrlimit(libc::RLIMIT_CORE, &lim);
    }
    if args.len() < 3 {
        eprintln!("usage: rvchild rrdp-update <dir> <notify uri> <proxy port>");
        return 2;
    }
    let dir = PathBuf::from(&args[0]);
    let Ok(notify) = uri::Https::from_string(args[1].clone()) else {
        eprintln!("bad notify uri");
        return 2;
    };
    let Ok(port) = args[2].parse::<u16>() else {
        eprintln!("bad port");
        return 2;
    };
    let _ = notify;
    let Ok(ca_bytes) = std::fs::read(dir.join("ta.cer")) else {
        eprintln!("no ta.cer in {}", dir.display());
        return 2;
    };
    let out = match new_collector(&dir, port) {
        Ok(c) => client_update_with(&c, Bytes::from(ca_bytes)),
        Err(e) => UpdateOut { result: format!("infra:{}", e), loads: BTreeMap::new() },
    };
    println!("{}", serde_json::to_string(&out).expect("json"));
    if out.result.starts_with("infra:") {
        2
    } else {
        0
    }
}

//------------------------------------------------------------------------------------------
// Reading the local copy without touching it

#[derive(Debug)]
struct Inspect {
    exists: bool,
    objects: Result<BTreeMap<String, Bytes>, String>,
    state: Result<(Uuid, u64), String>,
    verify_ok: bool,
}

/// Reads objects and state from a *copy* of the archive file (routinator's readers delete a file they find corrupt).
fn inspect(apath: &Path, scratch: &Path) -> Inspect {
    if !apath.exists() {
        return Inspect { exists: false, objects: Err("no archive".into()), state: Err("no archive".into()), verify_ok: false };
    }
    let copy = scratch.join("inspect.bin");
    let fresh = || -> bool {
        let _ = std::fs::remove_file(&copy);
        std::fs::copy(apath, &copy).is_ok()
    };
    let mut verify_ok = false;
    if fresh() {
        verify_ok = RrdpArchive::verify(&copy).is_ok();
    }
    let objects = (|| -> Result<BTreeMap<String, Bytes>, String> {
        if !fresh() {
            return Err("copy failed".into());
        }
        let a = RrdpArchive::open(Arc::new(copy.clone())).map_err(|_| "archive does not open".to_string())?;
        let mut res = BTreeMap::new();
        for item in a.objects().map_err(|_| "objects() failed".to_string())? {
            let (u, d) = item.map_err(|_| "object unreadable".to_string())?;
            if res.insert(u.to_string(), d).is_some() {
                return Err(format!("archive lists {} twice", u));
            }
        }
        Ok(res)
    })();
    let state = (|| -> Result<(Uuid, u64), String> {
        if !fresh() {
            return Err("copy failed".into());
        }
        let a = RrdpArchive::open(Arc::new(copy.clone())).map_err(|_| "archive does not open".to_string())?;
        let st = a.load_state().map_err(|_| "state unreadable".to_string())?;
        Ok((st.session, st.serial))
    })();
    let _ = std::fs::remove_file(&copy);
    Inspect { exists: true, objects, state, verify_ok }
}

fn diff(want: &BTreeMap<String, Bytes>, got: &BTreeMap<String, Bytes>) -> String {
    let keys: BTreeSet<&String> = want.keys().chain(got.keys()).collect();
    keys.into_iter()
        .filter(|u| want.get(*u) != got.get(*u))
        .map(|u| format!("{} server={} local={}", u.rsplit('/').next().unwrap_or(u), want.get(u).map(|d| digest(d)[..14.min(digest(d).len())].to_string()).unwrap_or("absent".into()), got.get(u).map(|d| digest(d)[..14.min(digest(d).len())].to_string()).unwrap_or("absent".into())))
        .collect::<Vec<_>>()
        .join("; ")
}

/// The success clause of the statement: the update reported success ⇒ local copy == server's objects at the
/// notified (session, serial), state names it, `load_object` agrees. Returns (what, message) on a breach.
fn judge_updated(out: &UpdateOut, insp: &Inspect, server: &Ver) -> Option<(&'static str, String)> {
    let want = &server.objects;
    if !insp.exists {
        return Some(("success-without-archive", "update reported successful but there is no archive file".into()));
    }
    match &insp.objects {
        Err(e) => return Some(("success-with-unreadable-archive", format!("update reported successful but the archive cannot be read: {}", e))),
        Ok(got) => {
            if got != want {
                return Some(("success-with-divergent-content", format!("update reported successful at session {} serial {} but the archive differs from the server's object set: {}", server.session, server.serial, diff(want, got))));
            }
        }
    }
    match &insp.state {
        Err(e) => return Some(("success-with-unreadable-state", e.clone())),
        Ok((sess, ser)) => {
            if *sess != server.session || *ser != server.serial {
                return Some(("success-with-wrong-state", format!("notified session {} serial {}, recorded session {} serial {}", server.session, server.serial, sess, ser)));
            }
        }
    }
    for u in universe() {
        let w = want.get(u.as_str()).map(|d| digest(d)).unwrap_or_else(|| "absent".to_string());
        let g = out.loads.get(u.as_str()).cloned().unwrap_or_else(|| "missing".to_string());
        if w != g {
            return Some(("load-object-differs", format!("load_object({}) = {} but the server has {} at session {} serial {}", u, g, w, server.session, server.serial)));
        }
    }
    None
}

/// A published version: what a notification names and the objects the server held then.
#[derive(Clone, Debug)]
pub struct Ver {
    session: Uuid,
    serial: u64,
    objects: BTreeMap<String, Bytes>,
}

fn ver(server: &RrdpServer) -> Ver {
    Ver { session: server.session, serial: server.serial, objects: server.objects.clone() }
}

//------------------------------------------------------------------------------------------
// Pre-state and kill-point trace of a scenario

pub struct Template {
    /// bytes of the archive file holding v1
    archive: Vec<u8>,
    v1: (Uuid, u64),
    v1_objects: BTreeMap<String, Bytes>,
    /// the notification file of v1 (what a lagging cache would still serve)
    v1_notification: Vec<u8>,
    /// labels of the kill points 1..=M of the uninterrupted victim run
    labels: Vec<String>,
    /// how the client reached v1 ("delta" expected)
    v1_path: &'static str,
}

fn rvchild_exe() -> PathBuf {
    std::env::current_exe().expect("current_exe").with_file_name("rvchild")
}

fn read_trace(path: &Path) -> Vec<String> {
    std::fs::read_to_string(path).map(|s| s.lines().filter_map(|l| l.split_once(' ').map(|x| x.1.to_string())).collect()).unwrap_or_default()
}

struct Victim {
    /// None = killed
    out: Option<UpdateOut>,
    labels: Vec<String>,
}

/// Runs the victim child on `dir` against the server at `port`; `k` = 0 runs it to completion.
fn run_victim(dir: &Path, port: u16, notify: &uri::Https, k: u32) -> Result<Victim, Verdict> {
    let trace = dir.join("kill-trace");
    let _ = std::fs::remove_file(&trace);
    if std::fs::write(dir.join("ta.cer"), ca_cert_bytes(notify)).is_err() {
        return Err(Verdict::Dropped("ta_cer_write_failed".into()));
    }
    let mut cmd = Command::new(rvchild_exe());
    cmd.arg("rrdp-update").arg(dir).arg(notify.as_str()).arg(port.to_string());
    cmd.env("ROUTINATOR_VERIF_KILL_TRACE", &trace);
    if k > 0 {
        cmd.env("ROUTINATOR_VERIF_KILL_AT", k.to_string());
    } else {
        cmd.env_remove("ROUTINATOR_VERIF_KILL_AT");
    }
    let pr = run_watchdog(cmd, dir, Duration::from_secs(180)).map_err(|e| Verdict::Dropped(format!("victim_spawn_failed:{}", truncate(&e, 60))))?;
    if pr.watchdog {
        return Err(Verdict::Dropped("victim_watchdog".into()));
    }
    let labels = read_trace(&trace);
    if k > 0 {
        if pr.signal == Some(libc::SIGABRT) {
            return Ok(Victim { out: None, labels });
        }
        if pr.code == Some(0) {
            return Err(Verdict::Dropped("kill_point_not_reached".into()));
        }
        return Err(Verdict::Dropped(format!("victim_exit_code_{:?}_signal_{:?}", pr.code, pr.signal)));
    }
    if pr.code != Some(0) {
        return Err(Verdict::Dropped(format!("victim_exit_code_{:?}_signal_{:?}", pr.code, pr.signal)));
    }
    let line = String::from_utf8_lossy(&pr.stdout).lines().last().unwrap_or("").to_string();
    match serde_json::from_str::<UpdateOut>(&line) {
        Ok(out) => Ok(Victim { out: Some(out), labels }),
        Err(_) => Err(Verdict::Dropped("victim_output_unparsable".into())),
    }
}

/// Which storage operation encloses kill point `k` (1-based) of a trace: the `Storage::write` window it lies in,
/// classified by its number of partial writes (1 = index entry / next pointer, 5 = header of a freed block,
/// 8-9 = a whole object: 5 header fields, name, meta, data, padding), or a point outside any window.
fn op_class(labels: &[String], k: u32) -> String {
    let i = k as usize - 1;
    if i >= labels.len() {
        return "unknown".into();
    }
    let l = labels[i].as_str();
    if !l.starts_with("archive.storage.write") {
        return l.to_string();
    }
    let begin = if l == "archive.storage.write.begin" {
        Some(i)
    } else {
        let mut found = None;
        for j in (0..i).rev() {
            if labels[j] == "archive.storage.write.begin" {
                found = Some(j);
                break;
            }
            if labels[j] == "archive.storage.write.end" {
                break;
            }
        }
        found
    };
    let Some(b) = begin else {
        return if l == "archive.storage.write.chunk" { "snapshot-temp-archive-write".into() } else { "unknown".into() };
    };
    let mut e = b + 1;
    let mut chunks = 0;
    while e < labels.len() && labels[e] != "archive.storage.write.end" {
        if labels[e] == "archive.storage.write.chunk" {
            chunks += 1;
        }
        e += 1;
    }
    let what = match chunks {
        1 => "index-entry-or-next-pointer",
        5 => "freed-block-header",
        8 | 9 => "whole-object",
        _ => "other",
    };
    let pos = match l {
        "archive.storage.write.begin" => "begin".to_string(),
        "archive.storage.write.before_finish" => "all-written".to_string(),
        "archive.storage.write.end" => "end".to_string(),
        _ => {
            let nth = labels[b..=i].iter().filter(|x| *x == "archive.storage.write.chunk").count();
            if chunks >= 8 {
                match nth {
                    1..=5 => "in-header".to_string(),
                    6 => "before-name".to_string(),
                    7 => "before-meta".to_string(),
                    8 => "before-data".to_string(),
                    _ => "before-padding".to_string(),
                }
            } else {
                format!("before-write-{}", nth)
            }
        }
    };
    format!("{}:{}", what, pos)
}

fn fail_key(what: &str, sc: &Scenario, label: &str, follow: &[Follow]) -> String {
    format!("C24/{}/kind={}/kill={}/follow={}", what, sc.kind.name(), label, follow_names(follow))
}

/// Builds the v1 pre-state with the real collector and traces the kill points of the v1→v2 update.
/// An uninterrupted update that breaks the success clause is reported as a failure of the case (k = 0).
pub fn build_template(sc: &Scenario) -> Result<Template, Verdict> {
    let dir = tempfile::Builder::new().prefix("c24-t-").tempdir_in(scratch_base()).expect("tmp");
    let srv = HttpsServer::start();
    let mut server = server_v0(sc);
    let notify = server.notify_uri();
    let config = c24_config(dir.path(), srv.port());
    let apath = archive_path(&config, &notify);
    // v0 by snapshot
    install(&srv, &server, sc.etag);
    let coll = new_collector(dir.path(), srv.port()).map_err(|e| Verdict::Dropped(format!("infra:{}", e)))?;
    let out = client_update_with(&coll, ca_cert_bytes(&notify));
    if out.result.starts_with("infra:") {
        return Err(Verdict::Dropped(out.result));
    }
    if out.result != "updated" {
        return Err(Verdict::Dropped(format!("prestate_v0_not_updated:{}", out.result)));
    }
    if let Some((what, msg)) = judge_updated(&out, &inspect(&apath, dir.path()), &ver(&server)) {
        return Err(Verdict::fail(fail_key(what, sc, "none(pre-state v0 by snapshot)", &[]), msg));
    }
    // v1 by deltas
    to_v1(&mut server, sc);
    install(&srv, &server, sc.etag);
    let _ = srv.take_log();
    let out = client_update_with(&coll, ca_cert_bytes(&notify));
    let log = srv.take_log();
    drop(coll);
    if out.result != "updated" {
        return Err(Verdict::Dropped(format!("prestate_v1_not_updated:{}", out.result)));
    }
    if let Some((what, msg)) = judge_updated(&out, &inspect(&apath, dir.path()), &ver(&server)) {
        return Err(Verdict::fail(fail_key(what, sc, "none(pre-state v1 by deltas)", &[]), msg));
    }
    let v1_path = if log.iter().any(|r| r.path.ends_with("/snapshot.xml")) { "snapshot" } else { "delta" };
    let archive = std::fs::read(&apath).map_err(|e| Verdict::Dropped(format!("prestate_unreadable:{}", e)))?;
    let v1 = (server.session, server.serial);
    let v1_objects = server.objects.clone();
    let v1_notification = server.notification_xml();
    // pass 0: uninterrupted victim, traced
    to_v2(&mut server, sc);
    install(&srv, &server, sc.etag);
    let v = run_victim(dir.path(), srv.port(), &notify, 0)?;
    Ok(Template { archive, v1, v1_objects, v1_notification, labels: v.labels, v1_path })
}

//------------------------------------------------------------------------------------------
// One case

fn run_case_with(case: &Case, tpl: &Template, info: &mut CaseInfo) -> Verdict {
    run_case_inner(case, tpl, info, None)
}

/// `second_trace`: run a second, uninterrupted victim after the first crash and hand back its kill-point labels.
fn run_case_inner(case: &Case, tpl: &Template, info: &mut CaseInfo, second_trace: Option<&mut Vec<String>>) -> Verdict {
    let sc = &case.sc;
    let dir = tempfile::Builder::new().prefix("c24-").tempdir_in(scratch_base()).expect("tmp");
    let srv = HttpsServer::start();
    let mut server = server_v0(sc);
    to_v1(&mut server, sc);
    to_v2(&mut server, sc);
    let v2_objects = server.objects.clone();
    let notify = server.notify_uri();
    install(&srv, &server, sc.etag);
    let config = c24_config(dir.path(), srv.port());
    let apath = archive_path(&config, &notify);
    if let Some(p) = apath.parent() {
        let _ = std::fs::create_dir_all(p);
    }
    if std::fs::write(&apath, &tpl.archive).is_err() {
        return Verdict::Dropped("prestate_copy_failed".into());
    }
    info.class(format!("kind:{}", sc.kind.name()));

    // --- the victim
    let _ = srv.take_log();
    let victim = match run_victim(dir.path(), srv.port(), &notify, case.k) {
        Ok(v) => v,
        Err(v) => return v,
    };
    let vlog = srv.take_log();
    let label: String = if case.k == 0 { "none".to_string() } else { victim.labels.last().cloned().unwrap_or_else(|| "unknown".to_string()) };
    if case.k > 0 {
        if victim.labels.len() != case.k as usize {
            return Verdict::Dropped("kill_trace_length_mismatch".into());
        }
        if tpl.labels.get(case.k as usize - 1) != Some(&label) {
            info.class("kill-label-differs-from-pass-0");
        }
    }
    info.class(format!("kill:{}", label));
    if case.k > 0 && case.k2 == 0 {
        info.class(format!("op:{}", op_class(&tpl.labels, case.k)));
    }
    let victim_deltas = vlog.iter().filter(|r| r.path.ends_with("/delta.xml") && r.status == 200).count();

    // --- the copy the crash left behind (classification only)
    let post = inspect(&apath, dir.path());
    let state_is_v1 = matches!(&post.state, Ok(s) if *s == tpl.v1);
    let post_class = if !post.exists {
        "no-archive"
    } else {
        match (&post.objects, &post.state) {
            (Ok(o), Ok(s)) if *o == tpl.v1_objects && *s == tpl.v1 => "v1-intact",
            (Ok(o), Ok(s)) if *o == v2_objects && *s == (server.session, server.serial) => "v2-complete",
            (Ok(o), Ok(_)) if state_is_v1 && *o == v2_objects => "v2-objects-under-v1-state",
            (Ok(_), Ok(_)) if state_is_v1 => "partly-changed-under-v1-state",
            (Ok(_), Ok(_)) => "other-state",
            (Err(_), Ok(_)) => "objects-unreadable",
            (_, Err(_)) => "state-unreadable",
        }
    };
    if case.k > 0 {
        info.class(format!("postkill:{}", post_class));
        if !post.verify_ok && post.exists {
            info.class("postkill:archive-fails-verify");
        }
    }
    // non-trivial: killed inside a delta application after at least one object was changed
    let changed = match &post.objects {
        Ok(o) => *o != tpl.v1_objects,
        Err(_) => post.exists,
    };
    let nontrivial = case.k > 0 && sc.kind != Kind::SnapshotOnly && victim_deltas >= 1 && label.starts_with("archive.storage") && state_is_v1 && changed;
    info.nt(nontrivial);
    if nontrivial {
        info.class("nontrivial:killed-inside-delta-application-after-a-change");
    }

    // --- the uninterrupted victim is judged like any update
    if let Some(out) = &victim.out {
        info.class(format!("victim:{}", out.result));
        if out.result == "updated" {
            if let Some((what, msg)) = judge_updated(out, &post, &ver(&server)) {
                return Verdict::fail(fail_key(what, sc, &label, &[]), format!("uninterrupted victim update v1→v2: {}", msg));
            }
        }
    }

    // --- a second victim on the copy the first crash left (same server version)
    let mut label = label;
    if case.k > 0 && (case.k2 > 0 || second_trace.is_some()) {
        let k2 = if second_trace.is_some() { 0 } else { case.k2 };
        let v2nd = match run_victim(dir.path(), srv.port(), &notify, k2) {
            Ok(v) => v,
            Err(v) => return v,
        };
        let _ = srv.take_log();
        if let Some(t) = second_trace {
            *t = v2nd.labels.clone();
        }
        if k2 > 0 {
            if v2nd.labels.len() != k2 as usize {
                return Verdict::Dropped("kill_trace_length_mismatch".into());
            }
            let l2 = v2nd.labels.last().cloned().unwrap_or_else(|| "unknown".to_string());
            info.class(format!("kill2:{}", l2));
            label = format!("{}+{}", label, l2);
        }
        if let Some(out) = &v2nd.out {
            info.class(format!("second-victim:{}", out.result));
            if out.result == "updated" {
                if let Some((what, msg)) = judge_updated(out, &inspect(&apath, dir.path()), &ver(&server)) {
                    return Verdict::fail(fail_key(what, sc, &label, &[]), format!("kill point {} ({}), copy left by the crash: {}; uninterrupted second update: {}", case.k, label, post_class, msg));
                }
            }
        }
    }

    // --- the honest server continues
    let mut recovered: Option<usize> = None;
    // one collector for all follow-up updates, created after the crash (it holds no per-repository state)
    let mut coll: Option<Collector> = None;
    for (i, step) in case.follow.iter().enumerate() {
        let done = &case.follow[..=i];
        advance(&mut server, &step.adv);
        install(&srv, &server, sc.etag);
        // transient faults
        let before = inspect(&apath, dir.path());
        let needed: Vec<u64> = match &before.state {
            Ok((sess, ser)) if *sess == server.session && *ser < server.serial => server.deltas.iter().map(|d| d.serial).filter(|s| s > ser).collect(),
            _ => Vec::new(),
        };
        let mut inert = false;
        let mut expect = ver(&server);
        let snap = server.snapshot_xml();
        let cut_delta = |serial: u64| {
            if let Some(body) = server.delta_xml(serial) {
                let n = body.len() * 3 / 4;
                srv.set(HOST, &server.delta_path(serial), Resp::ok(body).drop_after(n));
            }
        };
        match step.fault {
            Fault::None => {}
            Fault::N500 => srv.set(HOST, &server.notify_path(), Resp::status(500)),
            Fault::NCut => {
                let body = server.notification_xml();
                let n = body.len() / 2;
                srv.set(HOST, &server.notify_path(), Resp::ok(body).drop_after(n));
            }
            Fault::S500 => srv.set(HOST, &server.snapshot_path(), Resp::status(500)),
            Fault::SCut => srv.set(HOST, &server.snapshot_path(), Resp::ok(snap.clone()).drop_after(snap.len() / 2)),
            Fault::DFirst404 | Fault::DFirst404S500 => {
                match needed.first() {
                    Some(s) => srv.set(HOST, &server.delta_path(*s), Resp::status(404)),
                    None => inert = true,
                }
                if step.fault == Fault::DFirst404S500 {
                    srv.set(HOST, &server.snapshot_path(), Resp::status(500));
                }
            }
            Fault::NStaleV1 => {
                let body = tpl.v1_notification.clone();
                let r = if sc.etag {
                    let tag = format!("\"{}\"", &sha256_hex(&body)[..16]);
                    Resp::ok(body).etag(&tag).conditional()
                } else {
                    Resp::ok(body)
                };
                srv.set(HOST, &server.notify_path(), r);
                expect = Ver { session: tpl.v1.0, serial: tpl.v1.1, objects: tpl.v1_objects.clone() };
            }
            Fault::DLastCut | Fault::DLastCutS500 => {
                match needed.last() {
                    Some(s) => cut_delta(*s),
                    None => inert = true,
                }
                if step.fault == Fault::DLastCutS500 {
                    srv.set(HOST, &server.snapshot_path(), Resp::status(500));
                }
            }
        }
        if inert {
            info.class("follow-fault-without-needed-delta");
        }
        let _ = srv.take_log();
        if coll.is_none() {
            match new_collector(dir.path(), srv.port()) {
                Ok(c) => coll = Some(c),
                Err(e) => return Verdict::Dropped(format!("infra:{}", e)),
            }
        }
        let out = client_update_with(coll.as_ref().expect("collector"), ca_cert_bytes(&notify));
        let log = srv.take_log();
        if out.result.starts_with("infra:") {
            return Verdict::Dropped(out.result);
        }
        let got304 = log.iter().any(|r| r.path == server.notify_path() && r.status == 304);
        let snap_req = log.iter().any(|r| r.path.ends_with("/snapshot.xml"));
        let delta_ok = log.iter().filter(|r| r.path.ends_with("/delta.xml") && r.status == 200).count();
        let after = inspect(&apath, dir.path());
        info.class(format!("follow:{}", step.name()));
        match out.result.as_str() {
            "updated" => {
                if let Some((what, msg)) = judge_updated(&out, &after, &expect) {
                    // a stale notification re-validating the copy a crash modified: C25's root cause, reached by a crash
                    let what = if step.fault == Fault::NStaleV1 && what == "success-with-divergent-content" { WHAT_REUSE } else { what };
                    return Verdict::fail(
                        fail_key(what, sc, &label, done),
                        format!(
                            "kill point {} of {} ({}), copy left by the crash: {}; follow-up {} ({}): 304={} deltas fetched={} snapshot requested={}: {}",
                            case.k,
                            tpl.labels.len(),
                            label,
                            post_class,
                            i + 1,
                            step.name(),
                            got304,
                            delta_ok,
                            snap_req,
                            msg
                        ),
                    );
                }
                let how = if got304 {
                    "not-modified"
                } else if snap_req {
                    "snapshot"
                } else if delta_ok > 0 {
                    "delta"
                } else {
                    "already-current"
                };
                info.class(format!("run:updated:{}", how));
                if !after.verify_ok {
                    info.class("run:updated-but-archive-fails-verify(content-correct)");
                }
                if recovered.is_none() {
                    recovered = Some(i + 1);
                }
            }
            "non-rrdp" => return Verdict::fail(fail_key("non-rrdp-repository", sc, &label, done), "rsync is disabled, yet a non-RRDP repository was handed out"),
            "none" => {
                info.class("run:not-updated");
                if step.fault == Fault::None {
                    info.class("run:clean-follow-up-not-updated");
                }
            }
            "retry" => {
                info.class(if apath.exists() { "run:failed-retry(archive-kept)" } else { "run:failed-retry(archive-removed)" });
                if step.fault == Fault::None {
                    info.class("run:clean-follow-up-failed");
                }
            }
            "fatal" => {
                info.class("run:failed-fatal");
                if step.fault == Fault::None {
                    info.class("run:clean-follow-up-failed");
                }
            }
            other => return Verdict::Dropped(format!("unknown_result_{}", other)),
        }
    }
    if std::env::var_os("RV_C24_DEBUG").is_some() {
        eprintln!("C24DBG kind={} k={}/{} label={} post={} verify={} nt={} follow={} classes={:?}", sc.kind.name(), case.k, tpl.labels.len(), label, post_class, post.verify_ok, nontrivial, follow_names(&case.follow), info.classes.iter().filter(|c| c.starts_with("run:")).collect::<Vec<_>>());
    }
    if case.k > 0 && !case.follow.is_empty() {
        match recovered {
            Some(n) => info.class(format!("recovered-at-follow-up:{}", n)),
            None => info.class("never-recovered"),
        }
    }
    Verdict::Pass
}

/// Replays and directed cases build the pre-state themselves.
fn run_case_full(case: &Case, info: &mut CaseInfo) -> Verdict {
    match build_template(&case.sc) {
        Ok(t) => run_case_with(case, &t, info),
        Err(v) => v,
    }
}

//------------------------------------------------------------------------------------------
// Generators

fn change() -> impl Strategy<Value = Change> {
    (0..N_URIS, prop::option::weighted(0.78, 0..N_SIZES))
}

fn delta(min: usize, max: usize) -> impl Strategy<Value = Delta> {
    prop::collection::vec(change(), min..=max).prop_map(|mut d| {
        // one element per URI and delta (what the publisher model emits anyway)
        let mut seen = BTreeSet::new();
        d.retain(|(u, _)| seen.insert(*u));
        d
    })
}

fn advance_strategy() -> impl Strategy<Value = Advance> {
    prop_oneof![
        4 => Just(Advance::Same),
        4 => prop::collection::vec(delta(1, 3), 1..=2).prop_map(Advance::Deltas),
        1 => delta(1, 2).prop_map(Advance::Withheld),
        1 => prop::option::of(delta(1, 2)).prop_map(Advance::NewSession),
    ]
}

fn fault_strategy() -> impl Strategy<Value = Fault> {
    prop_oneof![
        4 => Just(Fault::None),
        1 => Just(Fault::N500),
        1 => Just(Fault::NCut),
        2 => Just(Fault::S500),
        1 => Just(Fault::SCut),
        1 => Just(Fault::DFirst404),
        1 => Just(Fault::DLastCut),
        2 => Just(Fault::DFirst404S500),
        2 => Just(Fault::DLastCutS500),
    ]
}

fn plan_strategy() -> impl Strategy<Value = Vec<Follow>> {
    prop::collection::vec((advance_strategy(), fault_strategy()).prop_map(|(adv, fault)| Follow { adv, fault }), 1..=3).prop_map(|mut p| {
        // the last update of a plan meets no fault, so recovery is observed
        if let Some(l) = p.last_mut() {
            l.fault = Fault::None;
        }
        p
    })
}

/// A change that really alters object 0 relative to `objects`.
fn real_change(objects: &BTreeMap<String, Bytes>) -> Change {
    let cur = objects.get(&obj_uri(0));
    for c in 0..N_SIZES {
        if cur != Some(&content(0, c)) {
            return (0, Some(c));
        }
    }
    (0, None)
}

pub fn gen_strategy(kind: Kind) -> impl Strategy<Value = Gen> {
    let v2 = match kind {
        Kind::SnapshotOnly => prop::collection::vec(delta(1, 4), 1..=2).boxed(),
        Kind::SingleDelta => prop::collection::vec(delta(4, 8), 1..=1).boxed(),
        Kind::MultiDelta => prop::collection::vec(delta(1, 4), 2..=4).boxed(),
        Kind::DeltaThenNewSession => prop::collection::vec(delta(2, 5), 1..=1).boxed(),
    };
    (any::<u64>(), any::<bool>(), prop::collection::vec((0..N_URIS, 0..N_SIZES), 4..=8), prop::collection::vec(delta(1, 4), 1..=3), v2, prop::collection::vec(plan_strategy(), 6..=6), any::<u64>()).prop_map(move |(seed, etag, v0, v1, v2, mut plans, sample_seed)| {
        let mut sc = Scenario { seed, kind, etag, v0, v1, v2 };
        // every version differs from its predecessor
        let mut s = server_v0(&sc);
        let o0 = s.objects.clone();
        to_v1(&mut s, &sc);
        if s.objects == o0 {
            let c = real_change(&s.objects);
            sc.v1.push(vec![c]);
            s.apply(&to_changes(&vec![c]));
        }
        let o1 = s.objects.clone();
        for d in &sc.v2 {
            s.apply(&to_changes(d));
        }
        if s.objects == o1 {
            let c = real_change(&s.objects);
            sc.v2.last_mut().expect("v2 has a delta").retain(|(u, _)| *u != 0);
            sc.v2.last_mut().expect("v2 has a delta").push(c);
        }
        // fixed plans beside the generated ones
        plans.push(vec![Follow { adv: Advance::Same, fault: Fault::None }]);
        plans.push(vec![Follow { adv: Advance::Same, fault: Fault::DLastCutS500 }, Follow { adv: Advance::Same, fault: Fault::None }]);
        plans.push(vec![Follow { adv: Advance::Deltas(vec![vec![(1, Some(2))]]), fault: Fault::S500 }, Follow { adv: Advance::Same, fault: Fault::None }]);
        if kind == Kind::DeltaThenNewSession {
            for p in plans.iter_mut() {
                if !matches!(p[0].adv, Advance::NewSession(_)) {
                    let d = match &p[0].adv {
                        Advance::Deltas(ds) => ds.first().cloned(),
                        Advance::Withheld(d) => Some(d.clone()),
                        _ => None,
                    };
                    p[0].adv = Advance::NewSession(d);
                }
            }
        }
        Gen { sc, plans, sample_seed }
    })
}

fn splitmix(x: &mut u64) -> u64 {
    *x = x.wrapping_add(0x9E37_79B9_7F4A_7C15);
    let mut z = *x;
    z = (z ^ (z >> 30)).wrapping_mul(0xBF58_476D_1CE4_E5B9);
    z = (z ^ (z >> 27)).wrapping_mul(0x94D0_49BB_1331_11EB);
    z ^ (z >> 31)
}

/// The kill points to run: all when M ≤ MAX_POINTS, else first/last 20, every label change, and a sample
/// drawn with the scenario's generated sampling seed.
fn select_points(labels: &[String], sample_seed: u64) -> (Vec<u32>, bool) {
    let m = labels.len();
    if m <= MAX_POINTS {
        return ((1..=m as u32).collect(), true);
    }
    let mut set: BTreeSet<u32> = BTreeSet::new();
    for k in 1..=20.min(m) {
        set.insert(k as u32);
        set.insert((m - k + 1) as u32);
    }
    for k in 1..m {
        if labels[k] != labels[k - 1] {
            set.insert(k as u32 + 1);
        }
    }
    let mut x = sample_seed;
    let mut guard = 0;
    while set.len() < MAX_POINTS && guard < 100 * MAX_POINTS {
        set.insert((splitmix(&mut x) % m as u64) as u32 + 1);
        guard += 1;
    }
    (set.into_iter().collect(), false)
}

//------------------------------------------------------------------------------------------
// Driver

fn count_case(rep: &mut Report, tagged: &Tagged<Case>, info: &CaseInfo) {
    let h = hash_case(tagged);
    rep.evaluations += 1;
    rep.distinct.insert(h);
    if info.nontrivial {
        rep.distinct_nontrivial.insert(h);
    }
    for c in &info.classes {
        rep.count_class(c);
    }
}

/// Hand-rolled shrinking of a failing case: fewer follow-ups, then plainer ones, keeping the key's class.
fn shrink(case: &Case, tpl: &Template, what: &str) -> (Case, String, String) {
    let fails = |c: &Case| -> Option<(String, String)> {
        let mut info = CaseInfo::default();
        match run_case_with(c, tpl, &mut info) {
            Verdict::Fail { key, msg } if key.starts_with(&format!("C24/{}/", what)) => Some((key, msg)),
            _ => None,
        }
    };
    let mut best = case.clone();
    let mut res = fails(&best);
    // shortest failing prefix
    for n in 1..best.follow.len() {
        let mut c = best.clone();
        c.follow.truncate(n);
        if let Some(r) = fails(&c) {
            best = c;
            res = Some(r);
            break;
        }
    }
    // plainer steps
    for i in 0..best.follow.len() {
        if best.follow[i].fault != Fault::None {
            let mut c = best.clone();
            c.follow[i].fault = Fault::None;
            if let Some(r) = fails(&c) {
                best = c;
                res = Some(r);
            }
        }
        if best.follow[i].adv != Advance::Same && !matches!(best.follow[i].adv, Advance::NewSession(_)) {
            let mut c = best.clone();
            c.follow[i].adv = Advance::Same;
            if let Some(r) = fails(&c) {
                best = c;
                res = Some(r);
            }
        }
    }
    let (key, msg) = res.unwrap_or_else(|| ("unstable".into(), "shrunk case did not fail again".into()));
    (best, key, msg)
}

fn what_of(key: &str) -> String {
    key.split('/').nth(1).unwrap_or("").to_string()
}

/// Hand-written scenarios that pin the storage paths the generated ones reach only by chance: publish appended
/// at the end of the file then withdrawn (truncation), re-allocation into an exactly fitting freed block,
/// growth of the state record across a page class (delete + re-publish of `state`).
fn directed_gens() -> Vec<(String, Gen)> {
    let plans = vec![
        vec![Follow { adv: Advance::Same, fault: Fault::None }],
        vec![Follow { adv: Advance::Same, fault: Fault::DLastCutS500 }, Follow { adv: Advance::Same, fault: Fault::None }],
        vec![Follow { adv: Advance::Deltas(vec![vec![(1, Some(0)), (4, None)]]), fault: Fault::None }],
        vec![Follow { adv: Advance::Same, fault: Fault::S500 }, Follow { adv: Advance::Deltas(vec![vec![(2, Some(1))]]), fault: Fault::DFirst404 }, Follow { adv: Advance::Same, fault: Fault::None }],
        vec![Follow { adv: Advance::NewSession(Some(vec![(3, Some(2))])), fault: Fault::SCut }, Follow { adv: Advance::Same, fault: Fault::None }],
        vec![Follow { adv: Advance::Withheld(vec![(5, None)]), fault: Fault::None }],
    ];
    let truncate = Scenario {
        seed: 0x00c2_4001,
        kind: Kind::MultiDelta,
        etag: true,
        v0: vec![(0, 0), (1, 1), (2, 3), (3, 4), (4, 2)],
        v1: vec![vec![(0, Some(1))], vec![(5, Some(3))]],
        v2: vec![vec![(6, Some(4)), (1, Some(2))], vec![(6, None), (2, Some(5))], vec![(7, Some(3)), (3, None)], vec![(7, Some(5)), (0, Some(0))]],
    };
    let state_growth = Scenario {
        seed: 0x00c2_4002,
        kind: Kind::MultiDelta,
        etag: false,
        v0: vec![(0, 1), (1, 2), (2, 0)],
        v1: vec![vec![(3, Some(1))]],
        v2: vec![vec![(0, Some(2))], vec![(4, Some(3))], vec![(1, None)], vec![(2, Some(1))], vec![(5, Some(0))], vec![(0, Some(0))], vec![(3, Some(4))]],
    };
    // ten deltas of four changes each: more than MAX_POINTS kill points, so the sampling rule is exercised (thorough tier)
    let mut long_v2: Vec<Delta> = Vec::new();
    for i in 0..10u8 {
        long_v2.push(vec![(i % N_URIS, Some((i + 1) % N_SIZES)), ((i + 3) % N_URIS, Some((i + 4) % N_SIZES)), ((i + 5) % N_URIS, if i % 3 == 2 { None } else { Some(i % N_SIZES) }), ((i + 6) % N_URIS, Some((i + 2) % N_SIZES))]);
    }
    let long = Scenario { seed: 0x00c2_4003, kind: Kind::MultiDelta, etag: true, v0: vec![(0, 0), (1, 1), (2, 2), (3, 3), (4, 4), (5, 5)], v1: vec![vec![(6, Some(1)), (0, Some(2))]], v2: long_v2 };
    vec![
        ("directed-truncate".to_string(), Gen { sc: truncate, plans: plans.clone(), sample_seed: 1 }),
        ("directed-state-growth".to_string(), Gen { sc: state_growth, plans: plans.clone(), sample_seed: 2 }),
        ("directed-long".to_string(), Gen { sc: long, plans, sample_seed: 3 }),
    ]
}

struct Drive {
    workers: usize,
    all_points: bool,
    scen_meta: Vec<serde_json::Value>,
    label_hist: BTreeMap<String, u64>,
    reported: BTreeSet<String>,
}

/// Records the verdicts of one batch; unknown failures are shrunk and reported once per shape.
fn absorb(ctx: &Ctx, rep: &mut Report, d: &mut Drive, tpl: &Template, sub: &str, cases: &[Case], results: Vec<(CaseInfo, Verdict)>) {
    for (case, (info, verdict)) in cases.iter().zip(results) {
        let tagged = Tagged { sub: sub.to_string(), case: case.clone() };
        match verdict {
            Verdict::Fail { key, msg } => {
                count_case(rep, &tagged, &info);
                if !ctx.strict && ctx.known_key(&key).is_some() {
                    rep.failure(ctx, &tagged, &key, &msg);
                    continue;
                }
                // one report per failing shape (what + kind + kill label), shrunk
                let shape = key.rsplit_once("/follow=").map(|x| x.0.to_string()).unwrap_or(key.clone());
                if d.reported.insert(shape) && d.reported.len() <= 5 {
                    let (small, k2, m2) = shrink(case, tpl, &what_of(&key));
                    let (k2, m2) = if k2 == "unstable" { (key.clone(), msg.clone()) } else { (k2, m2) };
                    let tagged = Tagged { sub: sub.to_string(), case: small };
                    rep.failure(ctx, &tagged, &k2, &m2);
                }
            }
            other => rep.record(ctx, &tagged, &info, &other),
        }
    }
}

const POST_CLASSES: [&str; 7] = ["partly-changed-under-v1-state", "state-unreadable", "v2-objects-under-v1-state", "objects-unreadable", "no-archive", "v2-complete", "v1-intact"];
/// classes of copy left behind that get a second-crash pass (v1-intact would repeat the first pass)
const SECOND_ALL: [&str; 6] = ["partly-changed-under-v1-state", "state-unreadable", "v2-objects-under-v1-state", "objects-unreadable", "no-archive", "v2-complete"];

/// Enumerates the kill points of one scenario. Returns false when the campaign is to stop (violation).
fn enumerate(ctx: &Ctx, rep: &mut Report, d: &mut Drive, name: &str, si: usize, g: &Gen, reps: usize, second_classes: &[&str], related: bool) -> bool {
    let tpl = match build_template(&g.sc) {
        Ok(t) => t,
        Err(Verdict::Fail { key, msg }) => {
            let tagged = Tagged { sub: "uninterrupted".to_string(), case: Case { sc: g.sc.clone(), k: 0, k2: 0, follow: vec![] } };
            count_case(rep, &tagged, &CaseInfo::default());
            rep.failure(ctx, &tagged, &key, &msg);
            return false;
        }
        Err(Verdict::Dropped(why)) => {
            *rep.dropped.entry(format!("template:{}", why)).or_default() += 1;
            return true;
        }
        Err(Verdict::Pass) => unreachable!(),
    };
    let m = tpl.labels.len();
    if m == 0 {
        *rep.dropped.entry("template:no_kill_points_traced".to_string()).or_default() += 1;
        return true;
    }
    for l in &tpl.labels {
        *d.label_hist.entry(l.clone()).or_default() += 1;
    }
    let (points, complete) = select_points(&tpl.labels, g.sample_seed);
    d.all_points &= complete;
    let mut cases: Vec<Case> = Vec::new();
    // k = 0: the uninterrupted update followed by each plan once
    for p in &g.plans {
        cases.push(Case { sc: g.sc.clone(), k: 0, k2: 0, follow: p.clone() });
    }
    for (pi, k) in points.iter().enumerate() {
        for j in 0..reps {
            let plan = &g.plans[(pi * reps + j + si) % g.plans.len()];
            cases.push(Case { sc: g.sc.clone(), k: *k, k2: 0, follow: plan.clone() });
        }
    }
    let workers = d.workers;
    let results: Vec<(CaseInfo, Verdict)> = parallel_map(cases.len(), workers, |i| {
        let mut info = CaseInfo::default();
        let v = run_case_with(&cases[i], &tpl, &mut info);
        (info, v)
    });
    // first kill point per class of copy left behind (for the second-crash pass and the related probe)
    let mut first_of: BTreeMap<&'static str, u32> = BTreeMap::new();
    let mut first_nt: Option<u32> = None;
    for (case, (info, _)) in cases.iter().zip(results.iter()) {
        if case.k == 0 {
            continue;
        }
        for pc in POST_CLASSES {
            if info.classes.iter().any(|c| c == &format!("postkill:{}", pc)) {
                first_of.entry(pc).or_insert(case.k);
            }
        }
        if info.nontrivial && first_nt.is_none() {
            first_nt = Some(case.k);
        }
    }
    let n_single = cases.len();
    absorb(ctx, rep, d, &tpl, "enumeration", &cases, results);
    let mut meta = serde_json::json!({"scenario": name, "kind": g.sc.kind.name(), "etag": g.sc.etag, "kill_points": m, "points_run": points.len(), "all_points": complete, "cases": n_single, "v1_reached_by": tpl.v1_path, "v2_deltas": g.sc.v2.len()});
    if rep.violated() {
        d.scen_meta.push(meta);
        return false;
    }

    // --- second crash: a second victim is killed at every point of its update on the copy the first crash left
    let mut second = Vec::new();
    for pc in second_classes.iter().filter(|pc| first_of.contains_key(*pc)) {
        let k1 = first_of[pc];
        let mut labels2 = Vec::new();
        let mut info = CaseInfo::default();
        let probe = Case { sc: g.sc.clone(), k: k1, k2: 0, follow: vec![] };
        match run_case_inner(&probe, &tpl, &mut info, Some(&mut labels2)) {
            Verdict::Pass => {}
            Verdict::Dropped(why) => {
                *rep.dropped.entry(format!("second-trace:{}", why)).or_default() += 1;
                continue;
            }
            Verdict::Fail { key, msg } => {
                let tagged = Tagged { sub: "second-crash".to_string(), case: probe };
                count_case(rep, &tagged, &info);
                rep.failure(ctx, &tagged, &key, &msg);
                d.scen_meta.push(meta);
                return false;
            }
        }
        for l in &labels2 {
            *d.label_hist.entry(l.clone()).or_default() += 1;
        }
        let (points2, complete2) = select_points(&labels2, g.sample_seed ^ k1 as u64);
        d.all_points &= complete2;
        let cases2: Vec<Case> = points2.iter().enumerate().map(|(pi, k2)| Case { sc: g.sc.clone(), k: k1, k2: *k2, follow: g.plans[(pi + si) % g.plans.len()].clone() }).collect();
        let results2: Vec<(CaseInfo, Verdict)> = parallel_map(cases2.len(), workers, |i| {
            let mut info = CaseInfo::default();
            let v = run_case_with(&cases2[i], &tpl, &mut info);
            (info, v)
        });
        second.push(serde_json::json!({"first_kill": k1, "copy_left": pc, "kill_points_of_second_update": labels2.len(), "points_run": points2.len()}));
        absorb(ctx, rep, d, &tpl, "second-crash", &cases2, results2);
        if rep.violated() {
            break;
        }
    }
    if !second.is_empty() {
        meta["second_crash"] = serde_json::json!(second);
    }
    d.scen_meta.push(meta);
    if rep.violated() {
        return false;
    }

    // --- relation to C25's finding: the copy a crash leaves is the copy a failed delta update leaves
    if related {
        if let Some(k) = first_nt {
            let case = Case { sc: g.sc.clone(), k, k2: 0, follow: vec![Follow { adv: Advance::Same, fault: Fault::NStaleV1 }] };
            let mut info = CaseInfo::default();
            let v = run_case_with(&case, &tpl, &mut info);
            let tagged = Tagged { sub: "related-stale-notification".to_string(), case: case.clone() };
            match v {
                Verdict::Fail { key, msg } => {
                    count_case(rep, &tagged, &info);
                    let same_root = key.starts_with(&format!("C24/{}/", WHAT_REUSE));
                    if !ctx.strict && ctx.known_key(&key).is_none() && same_root && is_listed_known("C25", crate::c25::KEY_REUSE) {
                        println!("RELATED-KNOWN-FINDING: property=C25 key={} reproduced through a crash by C24 as {} :: {}", crate::c25::KEY_REUSE, key, truncate(&msg, 600));
                        rep.extra.insert("related_known_finding".into(), serde_json::json!({"property": "C25", "key": crate::c25::KEY_REUSE, "seen_as": key, "reproduced": true, "note": "the continuation is a stale notification (not an honest further version), so this is outside C24's quantifier while C25 lists the root cause; judged as a C24 failure once C25's entry is no longer listed"}));
                    } else {
                        rep.failure(ctx, &tagged, &key, &msg);
                    }
                }
                other => {
                    rep.record(ctx, &tagged, &info, &other);
                    rep.extra.insert("related_known_finding".into(), serde_json::json!({"property": "C25", "key": crate::c25::KEY_REUSE, "reproduced": false}));
                }
            }
        }
    }
    !rep.violated()
}

pub fn run(ctx: &Ctx, rep: &mut Report, replay: Option<&serde_json::Value>) {
    rep.level = "fault_enumeration".into();
    rep.rule("per scenario (publisher history v0→v1→v2 over 8 URIs x 6 content sizes; generated kinds snapshot-only / single multi-element delta / 2-4 deltas / delta then new session, plus hand-written multi-delta scenarios pinning end-of-file truncation, exact-fit reuse of freed blocks and re-allocation of the state record (thorough: also a ten-delta one with M > 400); pre-state = routinator's own copy at v1 made by snapshot + delta update) pass 0 traces the M kill points (verif::kill_point: every partial write of an archive object or index entry, truncation, finalize of the snapshot archive, remove/rename of the snapshot swap, deletion of a corrupt archive) of the client update v1→v2 performed by a child process; the child is re-run from a copy of the same pre-state and abort()ed at point k for every k in 0..=M (M > 400: first/last 20, every label change, seeded sample), each k with 2 follow-up plans (quick: 1 for the generated scenarios) of 1-3 further in-process updates against the honest server (same version / more deltas / deltas withheld / new session; earlier updates optionally meet notification 500/cut, snapshot 500/cut, first delta 404, last delta cut, delta+snapshot failing; ETag with truthful 304 in about half of the scenarios); second-crash pass: for the first kill point of each class of copy left behind (quick: 2 classes of each hand-written scenario; thorough: all classes of the hand-written and of 3 generated scenarios per kind) a second victim update is traced and killed at every one of its points, followed by one plan; oracle on every update that hands out an RRDP repository: archive objects (routinator's reader on a copy of the file) == server objects at the notified session+serial byte for byte, state record names them, load_object agrees for all 8 URIs; Ok(None)/failed run = not updated; non-trivial = killed at an archive.storage.* point of a delta-path update that had fetched >= 1 delta, the copy left behind still carries the v1 state record and its objects differ from v1 (or are unreadable); distinct by (scenario, k, k2, follow-up plan)");
    rep.assume("abort() at a hook point stands for SIGKILL: writes already issued (incl. stores into the MAP_SHARED mapping) survive in the page cache, nothing else does; power-loss reordering / lost page-cache contents are out of scope; kill points have the granularity of routinator's own write calls (one header field, name, meta, data, padding per call), a kill inside one memcpy is not modelled");
    rep.assume("the publisher model (httpsrv::RrdpServer) renders RFC 8182 files as rpki::rrdp parses them and is honest after the crash: serials only grow within a session, 304 only for the ETag of the notification currently served, every served file matches its listed hash; transient faults are plain HTTP errors or cut connections");
    rep.assume("'not updated' is observed as Run::repository == Ok(None) (rsync disabled) or a failed run; the statement has no liveness clause, so updates that stay unsuccessful are counted (classes run:clean-follow-up-*) but are not violations; Archive::verify failing on a copy whose content is correct is counted, not judged");
    if let Some(v) = replay {
        let t: Tagged<Case> = serde_json::from_value(v.clone()).expect("replay");
        run_case(ctx, rep, &t.sub, &t.case, run_case_full);
        return;
    }
    let per_kind = ctx.tier.pick(1usize, 10usize);
    let mut d = Drive { workers: 12, all_points: true, scen_meta: Vec::new(), label_hist: BTreeMap::new(), reported: BTreeSet::new() };
    let mut go = true;
    // hand-written scenarios first: the first one also carries the second-crash pass of the quick tier and the related probe
    // RV_C24_ONLY=<scenario name> restricts a run to one scenario (debugging aid; evidence then covers only that one)
    let only = std::env::var("RV_C24_ONLY").ok();
    let wanted = |name: &str| only.as_deref().map(|o| o == name).unwrap_or(true);
    for (i, (name, g)) in directed_gens().iter().enumerate() {
        if !go {
            break;
        }
        if !wanted(name) || (name == "directed-long" && ctx.tier == Tier::Quick && only.is_none()) {
            continue;
        }
        let second: &[&str] = match (ctx.tier, i) {
            (Tier::Quick, 0) => &["partly-changed-under-v1-state", "v2-complete"],
            (Tier::Quick, _) => &["state-unreadable", "v2-objects-under-v1-state"],
            _ => &SECOND_ALL,
        };
        go = enumerate(ctx, rep, &mut d, name, i, g, 2, second, i == 0);
    }
    'outer: for kind in KINDS {
        if !go {
            break;
        }
        let gens = sample_strategy(&gen_strategy(kind), ctx.seed_for(&format!("scenarios/{}", kind.name())), per_kind);
        for (si, g) in gens.iter().enumerate() {
            let second: &[&str] = if ctx.tier == Tier::Thorough && si < 3 { &SECOND_ALL } else { &[] };
            if !wanted(&format!("generated-{}-{}", kind.name(), si)) {
                continue;
            }
            if !enumerate(ctx, rep, &mut d, &format!("generated-{}-{}", kind.name(), si), si, g, ctx.tier.pick(1, 2), second, false) {
                break 'outer;
            }
        }
    }
    rep.extra.insert("scenarios".into(), serde_json::json!(d.scen_meta));
    rep.extra.insert("kill_point_labels_traced".into(), serde_json::json!(d.label_hist));
    rep.extra.insert("out_of_scope".into(), serde_json::json!("power-loss reordering (un-synced page cache), kills inside a single write call"));
    rep.exhaustive = Some(d.all_points && !rep.violated() && rep.dropped.is_empty());
    let total: u64 = rep.evaluations;
    let dropped: u64 = rep.dropped.values().sum();
    if total == 0 || dropped * 2 > total {
        eprintln!("C24: {} of {} cases dropped ({:?}) — infrastructure problem, no verdict", dropped, total, rep.dropped);
        write_evidence(ctx, rep);
        std::process::exit(2);
    }
}
