//! C31 No fetches to dubious hosts unless allowed.
//!
//! Generated host forms are placed in caRepository (rsync) and/or rpkiNotify (https) of a CA and
//! handed to routinator's collector (`Run::repository`), next to a sibling CA on an unremarkable
//! host. Every started request is observable: rsync goes to the fake `rvrsync` (invocation log),
//! https goes through the harness proxy (CONNECT log, whatever the host form).
//! Oracle, literally from the property text: a host is *flagged* iff it equals `localhost`, is an
//! IP address literal, or carries an explicit port. Flagged + option off => no log entry for that
//! authority; unflagged, or option on => the fetch is attempted (vacuity guard).
//! Forms whose classification the text leaves open (case variants of localhost, trailing dot,
//! inet_aton-style numeric names) are run and recorded but never judged.

use std::collections::BTreeMap;
use std::sync::Mutex;

use proptest::prelude::*;
use routinator::collector::Collector;
use rpki::uri;
use serde::{Deserialize, Serialize};

use crate::core::*;
use crate::erun::scratch_base;
use crate::httpsrv::*;

pub const IMPLEMENTED: bool = true;

#[derive(Serialize, Deserialize, Clone, Copy, Debug, PartialEq, Eq)]
pub enum Placement {
    /// host in caRepository of a CA without rpkiNotify
    Rsync,
    /// host in rpkiNotify; caRepository on a clean host
    Notify,
    /// same host in both
    Both,
}

#[derive(Serialize, Deserialize, Clone, Debug, PartialEq, Eq)]
pub struct Case {
    /// authority as written into the URIs
    pub authority: String,
    /// generator's label for the form (histogram only, not used by the oracle)
    pub form: String,
    pub placement: Placement,
    pub allow: bool,
    pub sibling: String,
    /// validation runs started on the same `Collector` (a server performs one after the other)
    #[serde(default = "one")]
    pub runs: u8,
}

fn one() -> u8 {
    1
}

#[derive(Clone, Copy, Debug, PartialEq, Eq)]
pub enum Class {
    Flagged,
    Clean,
    /// the statement does not settle it
    Open,
}

/// Independent classifier written from the property text.
pub fn classify(authority: &str) -> Class {
    // explicit port / IPv6 literal: both need a colon; a bracketed literal starts with '['
    if authority.starts_with('[') {
        return Class::Flagged;
    }
    if authority.contains('@') {
        return Class::Open;
    }
    if let Some((h, p)) = authority.rsplit_once(':') {
        let _ = (h, p);
        // "host:port", or a bare IPv6 literal (which is an IP address literal) — flagged either way
        return Class::Flagged;
    }
    if authority == "localhost" {
        return Class::Flagged;
    }
    // dotted-quad IPv4 literal (RFC 3986 IPv4address)
    let parts: Vec<&str> = authority.split('.').collect();
    let dec_octet = |s: &str| !s.is_empty() && s.len() <= 3 && s.bytes().all(|b| b.is_ascii_digit()) && s.parse::<u16>().map(|v| v <= 255).unwrap_or(false);
    if parts.len() == 4 && parts.iter().all(|p| dec_octet(p)) {
        // leading zeros ("0177.0.0.1") are not RFC 3986 dec-octets; octal readings are left open
        if parts.iter().any(|p| p.len() > 1 && p.starts_with('0')) {
            return Class::Open;
        }
        return Class::Flagged;
    }
    let lower = authority.to_ascii_lowercase();
    if lower == "localhost" || lower == "localhost." {
        return Class::Open;
    }
    // names that C libraries / URL parsers read as numeric addresses (127.1, 2130706433, 0x7f.1, trailing dot on a quad)
    let numericish = lower.trim_end_matches('.').split('.').all(|p| !p.is_empty() && (p.bytes().all(|b| b.is_ascii_digit()) || (p.starts_with("0x") && p.len() > 2 && p[2..].bytes().all(|b| b.is_ascii_hexdigit()))));
    if numericish {
        return Class::Open;
    }
    Class::Clean
}

fn label() -> impl Strategy<Value = String> {
    "[a-z][a-z0-9]{0,6}"
}

fn clean_name() -> impl Strategy<Value = (String, String)> {
    prop_oneof![
        (label(), label()).prop_map(|(a, b)| (format!("{}.{}.example.net", a, b), "name".to_string())),
        (label(), 0u16..999).prop_map(|(a, n)| (format!("{}{}.example.org", a, n), "name-with-digits".to_string())),
        (0u8..=255, 0u8..=255, 0u8..=255, 0u8..=255, label()).prop_map(|(a, b, c, d, l)| (format!("{}.{}.{}.{}.{}.example.net", a, b, c, d, l), "quad-prefix-name".to_string())),
        (0u16..999, label()).prop_map(|(n, l)| (format!("{}.{}.example.org", n, l), "leading-digit-label".to_string())),
        label().prop_map(|l| (format!("localhost.{}.example.net", l), "contains-localhost".to_string())),
        label().prop_map(|l| (format!("{}localhost.example.org", l), "contains-localhost".to_string())),
        (0u8..9).prop_map(|n| (format!("localhost{}", n), "contains-localhost".to_string())),
        label().prop_map(|l| (format!("{}.localhost", l), "localhost-subdomain".to_string())),
        (0u8..=255, 0u8..=255, 0u8..=255, 0u16..=999).prop_map(|(a, b, c, d)| (format!("{}.{}.{}.{}x", a, b, c, d), "almost-quad".to_string())),
    ]
}

fn ipv6() -> impl Strategy<Value = String> {
    prop_oneof![
        Just("::1".to_string()),
        Just("::".to_string()),
        (1u16..0xffff, 0u16..0xffff).prop_map(|(a, b)| format!("2001:db8:{:x}::{:x}", a, b)),
        (0u8..=255, 0u8..=255).prop_map(|(a, b)| format!("::ffff:10.0.{}.{}", a, b)),
        (1u16..0xffff).prop_map(|a| format!("fe80::{:x}", a)),
    ]
}

fn host_form() -> impl Strategy<Value = (String, String)> {
    let port = prop_oneof![Just(443u16), Just(873u16), Just(8443u16), 1u16..=65535];
    prop_oneof![
        3 => Just(("localhost".to_string(), "localhost".to_string())),
        3 => (0u8..=255, 0u8..=255, 0u8..=255, 0u8..=255).prop_map(|(a, b, c, d)| (format!("{}.{}.{}.{}", a, b, c, d), "ipv4".to_string())),
        1 => Just(("127.0.0.1".to_string(), "ipv4".to_string())),
        2 => ipv6().prop_map(|a| (a, "ipv6-bare".to_string())),
        2 => ipv6().prop_map(|a| (format!("[{}]", a), "ipv6-bracketed".to_string())),
        1 => (ipv6(), port.clone()).prop_map(|(a, p)| (format!("[{}]:{}", a, p), "ipv6-bracketed-port".to_string())),
        3 => (clean_name(), port.clone()).prop_map(|((n, _), p)| (format!("{}:{}", n, p), "name-port".to_string())),
        1 => port.clone().prop_map(|p| (format!("localhost:{}", p), "localhost-port".to_string())),
        1 => (0u8..=255, 0u8..=255, port.clone()).prop_map(|(a, b, p)| (format!("10.{}.{}.1:{}", a, b, p), "ipv4-port".to_string())),
        8 => clean_name(),
        // forms the statement leaves open: run and recorded, never judged
        1 => prop_oneof![Just("LOCALHOST"), Just("LocalHost"), Just("localhosT")].prop_map(|s| (s.to_string(), "localhost-case".to_string())),
        1 => Just(("localhost.".to_string(), "localhost-dot".to_string())),
        1 => prop_oneof![Just("127.1"), Just("2130706433"), Just("0x7f.0.0.1"), Just("0177.0.0.1"), Just("127.0.0.1."), Just("0x7f000001"), Just("10.1")].prop_map(|s| (s.to_string(), "numeric-name".to_string())),
        1 => (label(), clean_name()).prop_map(|(u, (n, _))| (format!("{}@{}", u, n), "userinfo".to_string())),
    ]
}

fn case_strategy() -> impl Strategy<Value = Case> {
    (host_form(), prop_oneof![Just(Placement::Rsync), Just(Placement::Notify), Just(Placement::Both)], any::<bool>(), label(), 1u8..=3).prop_map(|((authority, form), placement, allow, sib, runs)| Case { authority, form, placement, allow, sibling: format!("{}.sibling.rpki.test", sib), runs })
}

static OPEN_FORMS: Mutex<BTreeMap<String, String>> = Mutex::new(BTreeMap::new());

fn prop(c: &Case, info: &mut CaseInfo) -> Verdict {
    let class = classify(&c.authority);
    info.class(format!("form:{}", c.form));
    info.class(format!("class:{:?}/allow={}", class, c.allow));
    info.class(format!("placement:{:?}", c.placement));
    // can rpki's URI types (and therefore a decoded certificate) carry this authority at all?
    let rsync_uri = uri::Rsync::from_string(format!("rsync://{}/repo/ca/", c.authority));
    let notify_uri = uri::Https::from_string(format!("https://{}/rrdp/notification.xml", c.authority));
    let need_rsync = matches!(c.placement, Placement::Rsync | Placement::Both);
    let need_notify = matches!(c.placement, Placement::Notify | Placement::Both);
    if (need_rsync && rsync_uri.is_err()) || (need_notify && notify_uri.is_err()) {
        info.class(format!("unrepresentable:{}", c.form));
        return Verdict::Pass;
    }
    let dir = tempfile::Builder::new().prefix("c31-").tempdir_in(scratch_base()).expect("tmp");
    let srv = HttpsServer::start();
    let mut config = client_config(dir.path(), &srv);
    config.allow_dubious_hosts = c.allow;
    let clean_repo = uri::Rsync::from_string("rsync://clean.rpki.test/repo/ca/".to_string()).unwrap();
    let ca_repo = if need_rsync { rsync_uri.clone().unwrap() } else { clean_repo.clone() };
    let notify = if need_notify { Some(notify_uri.clone().unwrap()) } else { None };
    // the CA under test sits below a clean trust anchor: its certificate is issued, decoded and validated
    let ta = ta_ca_cert(3, &clean_repo, None);
    let ca = child_ca_cert(&ta, 3, 5, &ca_repo, notify.as_ref());
    // the sibling CA: same placement on an unremarkable host
    let sib_repo = uri::Rsync::from_string(format!("rsync://{}/repo/ca/", c.sibling)).unwrap();
    let sib_notify = uri::Https::from_string(format!("https://{}/rrdp/notification.xml", c.sibling)).unwrap();
    let sib = ta_ca_cert(4, &sib_repo, if need_notify { Some(&sib_notify) } else { None });
    let mut collector = match Collector::new(&config) {
        Ok(x) => x,
        Err(_) => return Verdict::Dropped("collector_new_failed".into()),
    };
    if collector.ignite().is_err() {
        return Verdict::Dropped("ignite_failed".into());
    }
    info.class(format!("runs={}", c.runs.clamp(1, 3)));
    let mut r1 = Ok(None);
    for _ in 0..c.runs.clamp(1, 3) {
        // the fetch logs accumulate: a flagged host must not be contacted in any of the runs
        let run = collector.start();
        // A trust anchor certificate named by a TAL on the same authority (module `ta`) is asked for
        // first, as the engine does at the start of a run. TAL URIs are configuration, not RPKI data:
        // whether that request is made is not judged (only invocations for module `repo` are), but it
        // must not change how the CA's URIs on that authority are treated afterwards.
        if need_rsync {
            if let Ok(u) = rpki::repository::tal::TalUri::from_string(format!("rsync://{}/ta/ta.cer", c.authority)) {
                let _ = run.load_ta(&u);
            }
        }
        r1 = run.repository(&ca).map(|r| r.map(|r| r.is_rrdp()));
        let r2 = run.repository(&sib).map(|r| r.map(|r| r.is_rrdp()));
        drop(run);
        if r1.is_err() || r2.is_err() {
            return Verdict::fail(format!("C31/run-failed/form={}", c.form), format!("Run::repository failed the run for authority {:?}", c.authority));
        }
    }
    let rsync_calls = rsync_log(dir.path());
    let https = srv.log();
    // rsync: log lines are "<authority>/<module>"
    let rsync_hit = |auth: &str| rsync_calls.iter().any(|l| l.strip_suffix("/repo").map(|a| a.eq_ignore_ascii_case(auth)).unwrap_or(false));
    // https: CONNECT authority carries the host the client wants; compare host part (client adds :443 and may normalise the host)
    let https_entries = |auth: &str| -> Vec<String> { https.iter().filter(|r| r.method == "CONNECT").filter(|r| connect_matches(&r.authority, auth)).map(|r| r.authority.clone()).collect() };
    let all_connects: Vec<String> = https.iter().filter(|r| r.method == "CONNECT").map(|r| r.authority.clone()).collect();
    // the sibling must always be fetched on every transport in play (vacuity guard + shows the observation works)
    if need_notify && https_entries(&c.sibling).is_empty() {
        return Verdict::fail("C31/sibling-not-fetched/https", format!("sibling {} saw no HTTPS request; connects {:?}", c.sibling, all_connects));
    }
    if need_rsync && !need_notify && !rsync_hit(&c.sibling) {
        return Verdict::fail("C31/sibling-not-fetched/rsync", format!("sibling {} saw no rsync invocation; log {:?}", c.sibling, rsync_calls));
    }
    let rsync_seen = need_rsync && rsync_hit(&c.authority);
    // connects not attributable to the sibling belong to the host under test (the client may have normalised it)
    let foreign: Vec<String> = all_connects.iter().filter(|a| !connect_matches(a, &c.sibling)).cloned().collect();
    let https_seen = need_notify && !foreign.is_empty();
    info.nt(class == Class::Flagged && !c.allow);
    let obs = format!("authority {:?} (form {}, class {:?}) placement {:?} allow-dubious-hosts={}: rsync invocations {:?}, CONNECTs {:?}, repository() = {:?}", c.authority, c.form, class, c.placement, c.allow, rsync_calls, all_connects, r1);
    match class {
        Class::Open if !c.allow && foreign.iter().any(|a| connect_host_is_dubious(a)) => {
            // The statement's wording leaves the *spelling* open, but what was observed is not open at
            // all: with the filter on, an HTTPS request was started to a host that is an IP address
            // literal (or localhost) — the HTTP client normalised the authority the filter had passed.
            Verdict::fail(KEY_NORMALISED, obs)
        }
        Class::Open => {
            OPEN_FORMS.lock().unwrap().insert(format!("{} allow={} {:?}", c.authority, c.allow, c.placement), format!("rsync invoked: {}, CONNECTs: {:?}", rsync_seen, foreign));
            info.class(format!("open-form-fetched:{}", rsync_seen || https_seen));
            Verdict::Pass
        }
        Class::Flagged if !c.allow => {
            if rsync_seen {
                return Verdict::fail(format!("C31/fetch-to-flagged-host/rsync/form={}", c.form), obs);
            }
            if https_seen {
                return Verdict::fail(format!("C31/fetch-to-flagged-host/https/form={}", c.form), obs);
            }
            Verdict::Pass
        }
        _ => {
            // clean host, or option on: the fetch must be attempted (vacuity guard). A bare IPv6 literal
            // is not a valid https URL authority, the HTTP client cannot even build that request.
            let bare_v6 = !c.authority.starts_with('[') && c.authority.matches(':').count() >= 2;
            if need_notify && !https_seen && bare_v6 {
                info.class("https-unfetchable:bare-ipv6");
            } else if need_notify && !https_seen {
                return Verdict::fail(format!("C31/no-fetch/https/class={:?}/allow={}/form={}", class, c.allow, c.form), obs);
            }
            // with rpkiNotify present rsync is only a fallback; demand it only for the rsync-only placement
            if need_rsync && !need_notify && !rsync_seen {
                return Verdict::fail(format!("C31/no-fetch/rsync/class={:?}/allow={}/form={}", class, c.allow, c.form), obs);
            }
            Verdict::Pass
        }
    }
}

pub const KEY_NORMALISED: &str = "C31/https-request-to-ip-literal-or-localhost/authority-normalised-by-client";

/// Is the host of a CONNECT authority (host:port as sent by the client) an IP literal or localhost?
fn connect_host_is_dubious(authority: &str) -> bool {
    let host = authority.rsplit_once(':').map(|x| x.0).unwrap_or(authority);
    let host = host.trim_start_matches('[').trim_end_matches(']');
    host.eq_ignore_ascii_case("localhost") || host.parse::<std::net::IpAddr>().is_ok()
}

/// Does the CONNECT authority `got` (always host:port) name the URI authority `want`?
fn connect_matches(got: &str, want: &str) -> bool {
    let got = got.to_ascii_lowercase();
    let want = want.to_ascii_lowercase();
    if got == want {
        return true;
    }
    // URI authority without port -> client adds :443
    got == format!("{}:443", want) || got == format!("[{}]:443", want)
}

pub fn run(ctx: &Ctx, rep: &mut Report, replay: Option<&serde_json::Value>) {
    rep.rule("1-3 validation runs on the same Collector (as a server performs them) per case, each asking first for a trust anchor certificate (rsync TAL URI in another module of the same authority; not judged itself) and then for a CA repository on the generated authority; generated authorities (localhost; dotted IPv4; bare and bracketed IPv6; name/IPv4/IPv6/localhost with explicit port incl. default ports; clean names with digits, quad-like prefixes or containing 'localhost'; open forms: case variants, trailing dot, inet_aton-style numeric names, userinfo) placed in caRepository, rpkiNotify or both of a CA certificate issued under a clean trust anchor (encoded, decoded, validated, CaCert::chain) and handed to Run::repository next to a sibling CA on a clean host, x allow-dubious-hosts; oracle = independent classifier from the property text; flagged+option off => no rvrsync invocation and no CONNECT for that authority; clean or option on => fetch attempted; sibling always fetched; non-trivial = flagged host with the option off (sibling present in every case); distinct by serialised case");
    rep.assume("every request routinator starts is visible: rsync via the fake rsync command's invocation log, https via the CONNECT log of the harness proxy (rrdp-proxies); authorities rpki's URI types reject ('[', ']', '@') cannot come out of a decoded certificate and are counted as unrepresentable");
    ctx.shrink_iters.store(200, std::sync::atomic::Ordering::Relaxed);
    if let Some(v) = replay {
        let t: Tagged<Case> = serde_json::from_value(v.clone()).expect("replay");
        run_case(ctx, rep, &t.sub, &t.case, prop);
        return;
    }
    // a fixed list first so that every form is seen in every run, both options, every placement
    let fixed = ["localhost", "127.0.0.1", "10.2.3.4", "::1", "2001:db8::1", "[::1]", "a.example.net:873", "a.example.net:443", "localhost:8080", "10.0.0.1:873", "a1.example.net", "1.2.3.4.x.example.net", "localhost.example.net", "mylocalhost.example.org", "LOCALHOST", "localhost.", "127.1", "2130706433", "0x7f.0.0.1", "u@a.example.net"];
    for a in fixed {
        for placement in [Placement::Rsync, Placement::Notify, Placement::Both] {
            for allow in [false, true] {
                let c = Case { authority: a.to_string(), form: "fixed".into(), placement, allow, sibling: "fixed.sibling.rpki.test".into(), runs: 2 };
                run_case(ctx, rep, "fixed", &c, prop);
                if rep.violated() {
                    return;
                }
            }
        }
    }
    run_prop_par(ctx, rep, "generated", ctx.tier.pick(240, 3000), 8, case_strategy, prop);
    let open = OPEN_FORMS.lock().unwrap().clone();
    rep.extra.insert("open_forms_observed".into(), serde_json::json!(open.into_iter().take(60).collect::<BTreeMap<_, _>>()));
}
